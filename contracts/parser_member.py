"""unit parser_member: postfix chains -- parse_member (`.name`, `(args)`, `[index]` applied left to right to one primary) and
check_for_const (compile-time evaluation of calls).  C02 (postfix binds tightest, applies in order), C17 (a call keeps the identifiers of
the receiver and of every argument), C09 (a call / index / field access is folded only to the value the VM would compute: same code is
run), C06 (index folding = the index operation), C18 (spans), C10."""
from vgen.gen import Unit, A
from . import common as C
from . import parser as P
from . import pshared as S
from .parser_expr import result_clause, UNTOUCHED, CURSOR, HERE
from .parser_unary import primary_contract

HAS_LOOP_CONTRACTS = True

SPEC = r'''
pub uninterp spec fn sp_primary(toks: Seq<TokenWithLoc>, pos: nat, lbl: u32) -> Option<P<Primary>>;     // unit parser_unary (per-token clauses there)
pub uninterp spec fn sp_expr(toks: Seq<TokenWithLoc>, pos: nat, lbl: u32) -> Option<P<Expr>>;          // unit parser_expr
pub struct EL { pub items: Seq<P<Expr>>, pub end: nat, pub lbl: u32 }
/// a comma separated expression list up to (not including) the closing token
pub uninterp spec fn sp_expr_list(toks: Seq<TokenWithLoc>, pos: nat, lbl: u32, ending: Token) -> Option<EL>;
pub open spec fn bc(b: ByteCode) -> PreResolvedCodePoint { PreResolvedCodePoint::Bytecode(b) }
pub open spec fn lift(s: Seq<ByteCode>) -> Seq<PreResolvedCodePoint> { s.map_values(|b: ByteCode| PreResolvedCodePoint::Bytecode(b)) }

// values and the interpreter are known here by name only (their contracts: units value_coll, interp*, preresolved)
pub uninterp spec fn ident_val(name: Seq<char>) -> CelValue;              // CelValue::Ident of these characters
pub uninterp spec fn is_obj_v(v: CelValue) -> bool;
pub uninterp spec fn access_v(v: CelValue, name: Seq<char>) -> CelValue;
pub uninterp spec fn resolved(code: Seq<PreResolvedCodePoint>) -> Seq<ByteCode>;      // PreResolvedByteCode::resolve
pub uninterp spec fn block_val(code: Seq<ByteCode>) -> CelValue;                      // CelValue::ByteCode of this block
/// what running a block with the compile-time bindings yields (None: it fails, e.g. reads a variable)
pub uninterp spec fn const_eval(bind: BindContext, code: Seq<ByteCode>) -> Option<CelValue>;

/// `o.name` on a constant: folded only when o is a map / object AND the access succeeds (same operation as the VM's field lookup)
pub open spec fn access_fold(o: CelValue, name: Seq<char>) -> Option<CelValue> {
    if is_obj_v(o) { if access_v(o, name) is Err { None } else { Some(access_v(o, name)) } } else { None }
}
pub open spec fn access_node(n: SNode, name: Seq<char>) -> SNode {
    match n {
        SNode::Const(o) => match access_fold(o, name) {
            Some(v) => SNode::Const(v),
            None => SNode::Code(seq![bc(ByteCode::Push(o)), bc(ByteCode::Push(ident_val(name)))] + lift(seq![ByteCode::Access])),
        },
        SNode::Code(c) => SNode::Code(c + seq![bc(ByteCode::Push(ident_val(name)))] + lift(seq![ByteCode::Access])),
    }
}
/// the argument blocks of a call: the LAST argument is pushed first (so that they are popped in order); each travels unevaluated
pub open spec fn arg_pushes(items: Seq<P<Expr>>, k: int) -> Seq<PreResolvedCodePoint> decreases k {
    if k <= 0 { Seq::empty() } else { arg_pushes(items, k - 1) + seq![bc(ByteCode::Push(block_val(resolved(code_of(items[items.len() - k].node)))))] }
}
pub open spec fn arg_details(items: Seq<P<Expr>>, k: int) -> Set<Seq<char>> decreases k { if k <= 0 { Set::empty() } else { arg_details(items, k - 1) + items[items.len() - k].details } }
/// the argument trees as the syntax tree lists them: last argument first (the project's consumers rely on this order)
pub open spec fn arg_asts(items: Seq<P<Expr>>, k: int) -> Seq<AstNode<Expr>> decreases k { if k <= 0 { Seq::empty() } else { arg_asts(items, k - 1).push(items[items.len() - k].ast) } }
pub open spec fn call_code(items: Seq<P<Expr>>, callee: SNode) -> Seq<PreResolvedCodePoint> {
    arg_pushes(items, items.len() as int) + code_of(callee) + seq![bc(ByteCode::Call(items.len() as u32))]
}
/// a call is replaced by a constant exactly when running ITS OWN code with the compile-time bindings succeeds
pub open spec fn eval_or_keep(bind: BindContext, code: Seq<PreResolvedCodePoint>) -> SNode {
    match const_eval(bind, resolved(code)) { Some(v) => SNode::Const(v), None => SNode::Code(lift(resolved(code))) }
}
pub struct M { pub node: SNode, pub details: Set<Seq<char>>, pub asts: Seq<AstNode<MemberPrime>>, pub end: nat, pub lbl: u32 }

/// Member = Primary ( `.` IDENT | `(` ExprList `)` | `[` Expr `]` )*   applied left to right
pub closed spec fn sp_member_loop(toks: Seq<TokenWithLoc>, acc: M, bind: BindContext) -> Option<M>
    decreases toks.len() - acc.end
{
    if acc.end < toks.len() && toks[acc.end as int].token is Dot {
        if acc.end + 1 < toks.len() && toks[(acc.end + 1) as int].token is Ident {
            let id = toks[(acc.end + 1) as int];
            sp_member_loop(toks, M { node: access_node(acc.node, id.token->Ident_0@), details: acc.details,
                asts: acc.asts.push(mk_ast(MemberPrime::MemberAccess { ident: mk_ast(Ident(id.token->Ident_0), id.loc) }, hull(toks[acc.end as int].loc, id.loc))),
                end: acc.end + 2, lbl: acc.lbl }, bind)
        } else { None }
    } else if acc.end < toks.len() && toks[acc.end as int].token is LParen {
        match sp_expr_list(toks, acc.end + 1, acc.lbl, Token::RParen) {
            Some(l) => if l.end > acc.end && l.end < toks.len() && toks[l.end as int].token is RParen {
                    let span = hull(toks[acc.end as int].loc, toks[l.end as int].loc);
                    sp_member_loop(toks, M { node: eval_or_keep(bind, call_code(l.items, acc.node)), details: arg_details(l.items, l.items.len() as int) + acc.details,
                        asts: acc.asts.push(mk_ast(MemberPrime::Call { call: mk_ast(ExprList { exprs: arg_asts_vec(l.items) }, span) }, span)),
                        end: l.end + 1, lbl: l.lbl }, bind)
                } else { None },
            None => None,
        }
    } else if acc.end < toks.len() && toks[acc.end as int].token is LBracket {
        match sp_expr(toks, acc.end + 1, acc.lbl) {
            Some(e) => if e.end > acc.end && e.end < toks.len() && toks[e.end as int].token is RBracket {
                    sp_member_loop(toks, M { node: fold2(ByteCode::Index, acc.node, e.node), details: acc.details + e.details,
                        asts: acc.asts.push(mk_ast(MemberPrime::ArrayAccess { access: e.ast }, hull(toks[acc.end as int].loc, toks[e.end as int].loc))),
                        end: e.end + 1, lbl: e.lbl }, bind)
                } else { None },
            None => None,
        }
    } else { Some(acc) }
}
pub use axm::{vec_of_exprs, member_vec};
pub open spec fn arg_asts_vec(items: Seq<P<Expr>>) -> Vec<AstNode<Expr>> { vec_of_exprs(arg_asts(items, items.len() as int)) }
pub open spec fn span_fold(r: SourceRange, asts: Seq<AstNode<MemberPrime>>, k: int) -> SourceRange decreases k { if k <= 0 { r } else { hull(span_fold(r, asts, k - 1), a_loc(asts[k - 1])) } }
pub closed spec fn sp_member(toks: Seq<TokenWithLoc>, pos: nat, lbl: u32, bind: BindContext) -> Option<P<Member>> {
    match sp_primary(toks, pos, lbl) {
        Some(p) => if p.end <= toks.len() {
                match sp_member_loop(toks, M { node: p.node, details: p.details, asts: Seq::empty(), end: p.end, lbl: p.lbl }, bind) {
                    Some(m) => Some(P { ast: mk_ast(Member { primary: p.ast, member: member_vec(m.asts) }, span_fold(a_loc(p.ast), m.asts, m.asts.len() as int)),
                                        end: m.end, lbl: m.lbl, details: m.details, node: m.node }),
                    None => None,
                }
            } else { None },
        None => None,
    }
}

pub mod axm { use super::*; use vstd::prelude::*;
pub uninterp spec fn prbc_of(v: CelByteCode) -> PreResolvedByteCode;
pub broadcast axiom fn axiom_prbc_of(v: CelByteCode) ensures #[trigger] prbc_of(v)@ == v@.map_values(|b: ByteCode| PreResolvedCodePoint::Bytecode(b));
/// ASSUMED: a Vec is determined by its elements
pub broadcast axiom fn axiom_member_vec(v: Vec<AstNode<MemberPrime>>) ensures #[trigger] member_vec(v@) == v;
pub uninterp spec fn vec_of_exprs(s: Seq<AstNode<Expr>>) -> Vec<AstNode<Expr>>;
pub broadcast axiom fn axiom_vec_of_exprs(v: Vec<AstNode<Expr>>) ensures #[trigger] vec_of_exprs(v@) == v;
pub uninterp spec fn member_vec(asts: Seq<AstNode<MemberPrime>>) -> Vec<AstNode<MemberPrime>>;
}
impl vstd::std_specs::convert::FromSpecImpl<CelByteCode> for PreResolvedByteCode { open spec fn obeys_from_spec() -> bool { true } open spec fn from_spec(v: CelByteCode) -> Self { axm::prbc_of(v) } }
impl vstd::std_specs::convert::FromSpecImpl<CelByteCode> for CelValue { open spec fn obeys_from_spec() -> bool { true } open spec fn from_spec(v: CelByteCode) -> Self { block_val(v@) } }

#[verifier::external_body] pub fn s_rev_vec<T>(v: Vec<T>) -> (r: Vec<T>) ensures r@.len() == v@.len(), forall|j: int| 0 <= j < r@.len() ==> #[trigger] r@[j] == v@[v@.len() - 1 - j] { unimplemented!() }
#[verifier::external_body] pub fn s_token_text(t: Option<TokenWithLoc>) -> String { unimplemented!() }
#[verifier::external_body] pub fn s_as_str(a: &String) -> (r: &str) ensures r@ == a@ { unimplemented!() }
// S1: the interpreter the compiler uses for compile-time evaluation
#[verifier::external_body] pub struct Interpreter<'a> { _p: &'a u8 }
impl<'a> Interpreter<'a> {
    pub uninterp spec fn bind(&self) -> Option<BindContext<'a>>;
    #[verifier::external_body] pub fn empty() -> (r: Interpreter<'a>) ensures r.bind() is None { unimplemented!() }
    #[verifier::external_body] pub fn add_bindings(&mut self, bindings: &'a BindContext) ensures final(self).bind() == Some(*bindings) { unimplemented!() }
    #[verifier::external_body] pub fn run_raw(&self, prog: &CelByteCode, resolve: bool) -> (r: CelResult<CelValue>)
        ensures self.bind() is Some ==> (match const_eval(self.bind()->Some_0, prog@) { Some(v) => r == Ok::<CelValue, CelError>(v), None => r is Err }) { unimplemented!() }
}

impl SyntaxError {
    #[verifier::external_body] pub fn from_location(loc: SourceLocation) -> SyntaxError { unimplemented!() }
    #[verifier::external_body] pub fn with_message(self, msg: String) -> SyntaxError { unimplemented!() }
}
impl std::fmt::Debug for TokenWithLoc { #[verifier::external_body] fn fmt(&self, f: &mut std::fmt::Formatter<'_>) -> std::fmt::Result { unimplemented!() } }
impl std::fmt::Debug for SyntaxError { #[verifier::external_body] fn fmt(&self, f: &mut std::fmt::Formatter<'_>) -> std::fmt::Result { unimplemented!() } }
impl std::fmt::Debug for Token { #[verifier::external_body] fn fmt(&self, f: &mut std::fmt::Formatter<'_>) -> std::fmt::Result { unimplemented!() } }
'''

HERE_B = HERE + ', old(self).bindings'
MEMBER_PROPS = ('C02', 'C17', 'C09', 'C06', 'C18', 'C10')


def member_contract(stub=False):
    ens = [UNTOUCHED, result_clause(f'sp_member({HERE_B})', MEMBER_PROPS)]
    if stub:
        return A(stub=True, ret='r', requires=[CURSOR], ensures=ens)
    STATE = 'M { node: node_view(member_prime_node.inner), details: member_prime_node.details@, asts: member_prime_ast@, end: self.tokenizer.pos(), lbl: self.next_label }'
    M0 = 'M { node: p0.node, details: p0.details, asts: Seq::empty(), end: p0.end, lbl: p0.lbl }'
    R5 = ('Some(&TokenWithLoc {', 'Some(TokenWithLoc {', 'R5: Verus has no `&` patterns: default binding mode, the span is copied out at the start of the arm as the `&` pattern did')
    TOKTXT = lambda v: (f'&{v}.map_or("NOTHING".to_string(), |x| format!("{{:?}}", x))', f'&s_token_text({v})', 'R2m: Option::map_or with a formatting closure (text of an error message) -> trampoline')
    return A(
        ret='r', attrs=['#[verifier::exec_allows_no_decreases_clause]', '#[verifier::rlimit(200)]'], requires=[CURSOR], ensures=ens,
        after={('stmt', 'let (primary_node, primary_ast) =', 0): 'let ghost p0 = P { ast: primary_ast, end: self.tokenizer.pos(), lbl: self.next_label, details: primary_node.details@, node: node_view(primary_node.inner) };',
               ('stmt', 'let args =', 0): 'let ghost l0 = sp_expr_list(self.tokenizer.toks(), acc0.end + 1, acc0.lbl, Token::RParen)->Some_0; let ghost argv = args@;',
               ('stmt', 'let (index_node, index_ast) =', 0): 'let ghost e0 = P { ast: index_ast, end: self.tokenizer.pos(), lbl: self.next_label, details: index_node.details@, node: node_view(index_node.inner) };'},
        loops={0: dict(
            invariant=[('token_stream_untouched', 'self.tokenizer.toks() == old(self).tokenizer.toks() && self.tokenizer.pos() <= self.tokenizer.toks().len() && self.bindings == old(self).bindings'),
                       ('progress', 'self.tokenizer.pos() > old(self).tokenizer.pos()'),
                       ('primary_parsed', f'sp_primary(old(self).tokenizer.toks(), old(self).tokenizer.pos(), old(self).next_label) == Some(p0) && p0.end <= self.tokenizer.toks().len()'),
                       ('postfix_operations_applied_left_to_right', f'sp_member_loop(self.tokenizer.toks(), {M0}, self.bindings) == sp_member_loop(self.tokenizer.toks(), {STATE}, self.bindings)', MEMBER_PROPS)],
            ensures=[('no_further_postfix_operation', f'sp_member_loop(self.tokenizer.toks(), {M0}, self.bindings) == Some({STATE})', MEMBER_PROPS)],
            pre=f'let ghost acc0 = {STATE};'),
               1: dict(ghost='it', invariant=[
                   ('arguments_last_to_first', """it.seq().len() == l0.items.len() && argv.len() == l0.items.len()
                        && (forall|j: int| 0 <= j < it.seq().len() ==> (#[trigger] it.seq()[j]).1 == l0.items[l0.items.len() - 1 - j].ast && it.seq()[j].0.details@ == l0.items[l0.items.len() - 1 - j].details && node_view(it.seq()[j].0.inner) == l0.items[l0.items.len() - 1 - j].node)
                        && args_ast@ =~= arg_asts(l0.items, it.index@ as int)
                        && node_view(args_node.inner) is Code && node_view(args_node.inner)->Code_0 =~= arg_pushes(l0.items, it.index@ as int)
                        && args_node.details@ =~= arg_details(l0.items, it.index@ as int)""", ('C17', 'C10', 'C02'))]),
               2: dict(header='for m in member_prime_ast.iter()', ghost='it', invariant=[('span_so_far', 'range == span_fold(a_loc(primary_ast), member_prime_ast@, it.index@ as int)', ('C18',))])},
        arm_begin={'Some(&TokenWithLoc { token: Token::Dot, loc: dot_loc, })': 'let dot_loc: SourceRange = *dot_loc;',
                   'Some(&TokenWithLoc { token: Token::LParen, loc, })': 'let loc: SourceRange = *loc;',
                   'Some(&TokenWithLoc { token: Token::LBracket, loc, })': 'let loc: SourceRange = *loc;'},
        arm_end={'Some(&TokenWithLoc { token: Token::Dot, loc: dot_loc, })': f"""proof {{
    let toks = self.tokenizer.toks();
    let id = toks[(acc0.end + 1) as int];
    assert(toks[acc0.end as int].token is Dot && id.token is Ident);
    let name = id.token->Ident_0@;
    match acc0.node {{
        SNode::Const(o) => {{ if access_fold(o, name) is None {{
            assert(node_view(member_prime_node.inner) is Code);
            assert(node_view(member_prime_node.inner)->Code_0 =~= seq![bc(ByteCode::Push(o)), bc(ByteCode::Push(ident_val(name)))] + lift(seq![ByteCode::Access]));
        }} }},
        SNode::Code(c) => {{ assert(node_view(member_prime_node.inner)->Code_0 =~= c + seq![bc(ByteCode::Push(ident_val(name)))] + lift(seq![ByteCode::Access])); }},
    }}
    assert(node_view(member_prime_node.inner) == access_node(acc0.node, name));
    assert(member_prime_node.details@ =~= acc0.details);
    assert(member_prime_ast@ =~= acc0.asts.push(mk_ast(MemberPrime::MemberAccess {{ ident: mk_ast(Ident(id.token->Ident_0), id.loc) }}, hull(toks[acc0.end as int].loc, id.loc))));
    assert(sp_member_loop(toks, acc0, self.bindings) == sp_member_loop(toks, {STATE}, self.bindings));
}}""",
                 'Some(&TokenWithLoc { token: Token::LParen, loc, })': f"""proof {{
    let toks = self.tokenizer.toks();
    assert(sp_member_loop(toks, acc0, self.bindings) == sp_member_loop(toks, {STATE}, self.bindings));
}}""",
                 'Some(&TokenWithLoc { token: Token::LBracket, loc, })': f"""proof {{
    let toks = self.tokenizer.toks();
    assert(toks[acc0.end as int].token is LBracket);
    assert(sp_expr(toks, acc0.end + 1, acc0.lbl) == Some(e0));
    assert(toks[e0.end as int].token is RBracket);
    assert(member_prime_node.details@ =~= acc0.details + e0.details);
    assert(node_view(member_prime_node.inner) == fold2(ByteCode::Index, acc0.node, e0.node)) by {{
        if acc0.node is Const && e0.node is Const {{ }} else {{
            assert(node_view(member_prime_node.inner)->Code_0 =~= code_of(acc0.node) + code_of(e0.node) + seq![PreResolvedCodePoint::Bytecode(ByteCode::Index)]);
        }}
    }}
    assert(member_prime_ast@ =~= acc0.asts.push(mk_ast(MemberPrime::ArrayAccess {{ access: e0.ast }}, hull(toks[acc0.end as int].loc, toks[e0.end as int].loc))));
    assert(sp_member_loop(toks, acc0, self.bindings) == sp_member_loop(toks, {STATE}, self.bindings));
}}"""},
        before={'member_prime_node = self.check_for_const(member_prime_node);': """proof {
    assert(node_view(member_prime_node.inner) is Code);
    assert(code_of(node_view(member_prime_node.inner)) =~= call_code(l0.items, acc0.node));
}""",
                'member_prime_ast.push(AstNode::new( MemberPrime::Call': f"""proof {{
    let toks = self.tokenizer.toks();
    let n = l0.items.len() as int;
    assert(toks[acc0.end as int].token is LParen);
    assert(sp_expr_list(toks, acc0.end + 1, acc0.lbl, Token::RParen) == Some(l0));
    assert(toks[l0.end as int].token is RParen);
    assert(args_ast@ == arg_asts(l0.items, n));
    assert(args_ast == arg_asts_vec(l0.items));
    assert(member_prime_node.details@ =~= arg_details(l0.items, n) + acc0.details);
    assert(node_view(member_prime_node.inner) == eval_or_keep(self.bindings, call_code(l0.items, acc0.node)));
}}"""},
        closures={0: dict(types=['&CelValue', '&CelValue'], ret='res: Option<CelValue>', ensures=[('field_access_fold', '*c is Ident ==> res == access_fold(*o, c->Ident_0@)', ('C09',))])},
        mcalls=S.MC,
        rewrites=[R5, ('args.into_iter().rev()', 's_rev_vec(args)', 'R2m: Vec::into_iter().rev() -> trampoline (assumed: the elements last to first)'), TOKTXT('token'), TOKTXT('next_token'),
                  ('o.access(&s)', 'o.access(s_as_str(s))', 'R2: deref coercion &String -> &str made explicit')],
        props=MEMBER_PROPS + ('C01',))


def build():
    U = Unit('parser_member')
    U.global_rewrites.append(C.DYN_REWRITE)
    U.raw(C.HEADER, 'header')
    U.raw(C.STANDINS, 'S1 stand-ins')
    C.value_types(U)
    S.compiler_types(U, grammar='all')
    U.extract(S.CPR, 'macro_rules compile')
    U.extract(S.CP, 'struct CelCompiler')
    U.raw(C.DERIVED, 'assumed derived impls')
    U.raw(C.VALUE_SPECS + C.TRUTHY_SPEC, 'shared vocabulary')
    U.raw(C.TRAIT_FULL, 'CelValueDyn restated')
    U.raw('pub mod vwc { use super::*; use vstd::prelude::*; impl View for CelByteCode { type V = Seq<ByteCode>; closed spec fn view(&self) -> Seq<ByteCode> { self.inner@ } } }\n' + S.core_with_full_tokenizer() + S.ITER + SPEC + S.BINDCTX_AMBIENT, 'grammar specs')
    U.raw(C.STD_SPECS, 'assumed std specs')
    U.raw(S.axioms().replace('ax::axiom_vec_bytecode_len, ', 'ax::axiom_vec_bytecode_len, axm::axiom_prbc_of, axm::axiom_member_vec, axm::axiom_vec_of_exprs, '), 'axioms')
    U.extract(C.CE, 'impl From<SyntaxError> for CelError', fns={'from': A(ret='r', ensures=[('def', 'r == CelError::Syntax(value)')], props=('C01',))})
    U.extract('rscel/src/compiler/tokenizer.rs', 'impl AsToken for Option<&TokenWithLoc>', fns={
        'as_token': A(ret='r', ensures=[('def', '(match *self { Some(s) => r == Some(&s.token), None => r is None })')], props=('C02', 'C01'))})
    U.extract('rscel/src/compiler/tokenizer.rs', 'impl AsToken for &TokenWithLoc', fns={'as_token': A(ret='r', ensures=[('def', 'r == Some(&self.token)')], props=('C01',))})
    U.extract('rscel/src/compiler/tokenizer.rs', 'impl AsToken for TokenWithLoc', fns={'as_token': A(ret='r', ensures=[('def', 'r == Some(&self.token)')], props=('C01',))})
    U.extract('rscel/src/compiler/source_range.rs', 'impl SourceRange', fns={
        'surrounding': A(stub=True, ret='r', ensures=[('smallest_span_containing_both', 'r == hull(self, other)')]),
    }, others='stub')
    U.extract('rscel/src/compiler/ast_node.rs', 'impl<T> AstNode<T>', fns={
        'new': A(ret='r', ensures=[('def', 'r == mk_ast(node, loc)')], props=('C18', 'C01')),
        'range': A(ret='r', ensures=[('def', 'r == a_loc(*self)')], props=('C18', 'C01')),
    }, others='stub')
    S.grammar_ambient(U)
    U.extract('rscel/src/program/program_details.rs', 'impl ProgramDetails', fns=S.stubbed(S.DETAILS))
    U.extract(S.PR, 'impl From<ByteCode> for PreResolvedCodePoint', fns={'from': A(ret='r', ensures=[('def', 'r == PreResolvedCodePoint::Bytecode(value)')], props=('C10', 'C01'))})
    U.extract(S.PR, 'impl PreResolvedByteCode', fns={
        'new': A(stub=True, ret='r', ensures=[('empty', 'r@.len() == 0')]),
        'extend': A(stub=True, ensures=[('appends_in_order', 'final(self)@ == old(self)@ + points_of(byte_codes)')]),
        'into_iter': A(external_body=True, ret='r', ensures=[('yields_the_points_in_order', 'points_of(r) == self@')]),
        'resolve': A(stub=True, ret='r', ensures=[('the_resolved_block', 'r@ == resolved(self@)'),
                                                 ('ASSUMED_labels_of_compiler_output_are_unique_and_defined', 'true')]),
    }, others='stub')
    U.extract(S.PR, 'impl From<CelByteCode> for PreResolvedByteCode', fns={'from': A(stub=True, ret='r', ensures=[('ASSUMED_point_by_point', 'r == axm::prbc_of(value)')])})
    U.extract(C.CV, 'impl From<CelByteCode> for CelValue', fns={'from': A(stub=True, ret='r', ensures=[('def', 'r == block_val(value@)')])})
    U.extract(C.CE, 'impl CelError', fns={}, others='stub')
    U.extract(C.CV, 'impl CelValue', fns={
        'from_ident': A(stub=True, ret='r', ensures=[('ASSUMED_a_string_is_determined_by_its_characters', 'r == ident_val(val@) && r is Ident && r->Ident_0@ == val@')]),
        'is_obj': A(stub=True, ret='r', ensures=[('def', 'r == is_obj_v(*self)')]),
        'index': A(stub=True, ret='r', ensures=[('function_of_operands', 'r == op2(ByteCode::Index, self, ival)')]),
        'from_err': C.simple_ctor(C.CTORS['from_err'], stub=True),
    }, others='stub')
    U.extract(C.CV, 'impl CelValueDyn for CelValue', fns={
        'access': A(stub=True, ret='r', ensures=[('def', 'r == access_v(*self, key@)')]),
    }, others='stub', skip=('any_ref',))
    U.extract(S.CPR, 'impl CompiledProg', fns=S.stubbed(S.compprog_contracts()), others='stub', skip=('into_program',))
    U.extract(S.CPR, 'impl NodeValue', fns=S.stubbed(S.NODEVALUE))
    prim = A(stub=True, ret='r', requires=[CURSOR], ensures=[UNTOUCHED, result_clause(f'sp_primary({HERE})', (), 'ASSUMED_the_result_is_a_function_of_the_tokens')])
    U.extract(S.CP, "impl<'l> CelCompiler<'l>", fns={
        'parse_primary': prim,
        'parse_expression': A(stub=True, ret='r', requires=[CURSOR], ensures=[UNTOUCHED, result_clause(f'sp_expr({HERE})', ())]),
        'parse_expression_list': A(stub=True, ret='r', requires=[CURSOR, S.ENDING_REQ], ensures=[UNTOUCHED, S.EXPR_LIST_CLAUSE]),
        'parse_member': member_contract(),
        'check_for_const': A(ret='r', ensures=[
            ('keeps_the_identifiers', 'r.details@ == member_prime_node.details@', ('C17',)),
            ('a_constant_only_if_running_the_same_code_at_compile_time_succeeds', 'node_view(r.inner) == eval_or_keep(self.bindings, code_of(node_view(member_prime_node.inner)))', ('C09', 'C10'))],
            props=('C17', 'C09', 'C10', 'C01')),
    }, others='stub', skip=('with_tokenizer', 'compile'))
    U.raw(C.FOOTER, 'footer')
    return U
