"""unit compprog: the combinators of compiler/compiled_prog.rs that every parse function builds its result with
(code concatenation order, constant folding decision, identifier-set union).  C09, C10, C17."""
from vgen.gen import Unit, A
from . import common as C
from . import pshared as S

HAS_LOOP_CONTRACTS = False


def build():
    U = Unit('compprog')
    U.global_rewrites.append(C.DYN_REWRITE)
    U.raw(C.HEADER, 'header')
    U.raw(C.STANDINS, 'S1 stand-ins')
    C.value_types(U)
    S.compiler_types(U, grammar=None)
    U.raw(C.DERIVED, 'assumed derived impls')
    U.raw(C.VALUE_SPECS + C.TRUTHY_SPEC, 'shared vocabulary')
    U.raw(C.TRAIT_FULL, 'CelValueDyn restated')
    U.raw('impl View for CelByteCode { type V = Seq<ByteCode>; closed spec fn view(&self) -> Seq<ByteCode> { self.inner@ } }\n'
          + S.CORE.replace('pub trait Tokenizer {', 'pub trait TokenizerUnused {') + S.ITER + S.FCWB_SPEC, 'ghost vocabulary')
    U.raw(C.STD_SPECS, 'assumed std specs')
    U.raw(S.axioms(), 'axioms')
    U.extract(C.CE, 'impl From<SyntaxError> for CelError', fns={'from': A(ret='r', ensures=[('def', 'r == CelError::Syntax(value)')], props=('C01',))})
    U.extract('rscel/src/program/program_details.rs', 'impl ProgramDetails', fns=S.DETAILS)
    U.extract(S.PR, 'impl From<ByteCode> for PreResolvedCodePoint', fns={'from': A(ret='r', ensures=[('def', 'r == PreResolvedCodePoint::Bytecode(value)')], props=('C10', 'C01'))})
    U.extract(S.PR, 'impl PreResolvedByteCode', fns={
        'new': A(ret='r', ensures=[('empty', 'r@.len() == 0')], props=('C10', 'C01')),
        'extend': A(stub=True, ensures=[('appends_in_order', 'final(self)@ == old(self)@ + points_of(byte_codes)')]),
        'into_iter': A(external_body=True, ret='r', ensures=[('yields_the_points_in_order', 'points_of(r) == self@')]),
    })
    U.extract(C.CE, 'impl CelError', fns={}, others='stub')
    U.extract(C.CV, 'impl CelValue', fns={}, others='stub')
    d = S.compprog_contracts()
    d['from_children_w_bytecode'] = S.FCWB
    d['append_if_bytecode'] = A(ensures=[('appends_to_code_only', 'node_view(final(self).inner) == (match node_view(old(self).inner) { SNode::Code(s) => SNode::Code(s + points_of(b)), SNode::Const(c) => SNode::Const(c) }) && final(self).details@ == old(self).details@')],
                                props=('C10', 'C05', 'C01'))
    U.extract(S.CPR, 'impl CompiledProg', fns=d, others='stub', skip=('into_program',))
    U.extract(S.CPR, 'impl NodeValue', fns=S.NODEVALUE)
    U.raw(C.FOOTER, 'footer')
    return U
