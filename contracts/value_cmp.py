"""unit value_cmp: ord, lt/gt/le/ge, neq, CelValueDyn::eq, is_truthy, or, and, Not  (C04, C05 values, C01)"""
HAS_LOOP_CONTRACTS = True
from vgen.gen import Unit, A
from . import common as C

SPECS = r'''
pub open spec fn int_cmp(x: int, y: int) -> Ordering {
    if x < y { Ordering::Less } else if x == y { Ordering::Equal } else { Ordering::Greater }
}
/// both operands denote integers (int, uint, or bool counting as 0/1 next to a number); bool/bool compares false < true, the same order
pub open spec fn integral_pair(a: CelValue, b: CelValue) -> bool {
    (nkind(a) is I || nkind(a) is U || nkind(a) is B) && (nkind(b) is I || nkind(b) is U || nkind(b) is B)
}
/// a double meets a number (or a bool counting as 0/1)
pub open spec fn double_pair(a: CelValue, b: CelValue) -> bool {
    (nkind(a) is F && !(nkind(b) is Other)) || (nkind(b) is F && !(nkind(a) is Other))
}
// orders of the payload types are std's / chrono's (uninterpreted here; their laws are an assumption)
pub uninterp spec fn str_cmp(a: Seq<char>, b: Seq<char>) -> Ordering;
pub uninterp spec fn bytes_cmp(a: Seq<u8>, b: Seq<u8>) -> Ordering;
pub uninterp spec fn ts_cmp(a: DateTime<Utc>, b: DateTime<Utc>) -> Ordering;
pub uninterp spec fn dur_cmp(a: Duration, b: Duration) -> Ordering;

/// 1 string, 2 bytes, 4 timestamp, 5 duration : the non-numeric comparable kinds; 0 otherwise
pub open spec fn ckind(v: CelValue) -> int {
    match v {
        CelValue::String(_) => 1,
        CelValue::Bytes(_) => 2,
        CelValue::TimeStamp(_) => 4,
        CelValue::Duration(_) => 5,
        _ => 0,
    }
}
/// the order of two comparable non-numeric values of the same kind
pub open spec fn same_kind_cmp(a: CelValue, b: CelValue) -> Ordering {
    match (a, b) {
        (CelValue::String(x), CelValue::String(y)) => str_cmp(x@, y@),
        (CelValue::Bytes(x), CelValue::Bytes(y)) => bytes_cmp(x@, y@),
        (CelValue::TimeStamp(x), CelValue::TimeStamp(y)) => ts_cmp(x, y),
        (CelValue::Duration(x), CelValue::Duration(y)) => dur_cmp(x, y),
        _ => Ordering::Equal,
    }
}
pub open spec fn comparable_same_kind(a: CelValue, b: CelValue) -> bool { ckind(a) != 0 && ckind(a) == ckind(b) }
pub open spec fn unrelated(a: CelValue, b: CelValue) -> bool { !integral_pair(a, b) && !double_pair(a, b) && !comparable_same_kind(a, b) }

// ---- the laws of C04 over the integer order, proved once for all values ------------------------------------------------------
pub proof fn law_int_trichotomy(x: int, y: int)
    ensures (x < y) != (x == y || x > y), (x == y) ==> !(x > y), int_cmp(x, y) is Less <==> x < y, int_cmp(x, y) is Equal <==> x == y, int_cmp(x, y) is Greater <==> x > y
{}
pub proof fn law_int_transitive(x: int, y: int, z: int)
    ensures int_cmp(x, y) is Less && int_cmp(y, z) is Less ==> int_cmp(x, z) is Less,
            !(int_cmp(x, y) is Greater) && !(int_cmp(y, z) is Greater) ==> !(int_cmp(x, z) is Greater)
{}
pub proof fn law_int_antisymmetric(x: int, y: int)
    ensures int_cmp(x, y) is Less <==> int_cmp(y, x) is Greater, int_cmp(x, y) is Equal <==> int_cmp(y, x) is Equal
{}
'''

TRAMP = r'''
// R2: comparisons whose vstd spec is missing (`Ordering: PartialEq`, `bool/String/...: PartialOrd` do not "obey" a spec in vstd).
// Each trampoline's body is the original expression; its contract is the assumed std behaviour.
#[verifier::external_body] pub fn opt_ord_is(v: Option<Ordering>, o: Ordering) -> (r: bool) ensures r == (v == Some(o)) { v == Some(o) }
#[verifier::external_body] pub fn bool_partial_cmp(l: &bool, r: &bool) -> (o: Option<Ordering>)
    ensures o == Some(int_cmp(if *l { 1int } else { 0int }, if *r { 1int } else { 0int })) { l.partial_cmp(r) }
#[verifier::external_body] pub fn string_partial_cmp(l: &String, r: &String) -> (o: Option<Ordering>) ensures o == Some(str_cmp(l@, r@)) { l.partial_cmp(r) }
#[verifier::external_body] pub fn bytes_partial_cmp(l: &CelBytes, r: &CelBytes) -> (o: Option<Ordering>) ensures o == Some(bytes_cmp(l@, r@)) { unimplemented!() }
#[verifier::external_body] pub fn ts_partial_cmp(l: &DateTime<Utc>, r: &DateTime<Utc>) -> (o: Option<Ordering>) ensures o == Some(ts_cmp(*l, *r)) { unimplemented!() }
#[verifier::external_body] pub fn dur_partial_cmp(l: &Duration, r: &Duration) -> (o: Option<Ordering>) ensures o == Some(dur_cmp(*l, *r)) { unimplemented!() }
/// the IEEE-754 comparison of two doubles (None when either is NaN): uninterpreted here
pub uninterp spec fn f64_cmp(l: f64, r: f64) -> Option<Ordering>;
#[verifier::external_body] pub fn f64_partial_cmp(l: &f64, r: &f64) -> (o: Option<Ordering>) ensures o == f64_cmp(*l, *r) { l.partial_cmp(r) }
#[verifier::external_body] pub fn f64_eq(l: f64, r: f64) -> (o: bool) { l == r }
#[verifier::external_body] pub fn f64_ne_zero(f: f64) -> (o: bool) ensures o == !f64_is_zero(f) { f != 0.0 }
#[verifier::external_body] pub fn bytes_eq(l: &CelBytes, r: &CelBytes) -> (o: bool) ensures o == (l@ == r@) { unimplemented!() }
#[verifier::external_body] pub fn ts_eq(l: &DateTime<Utc>, r: &DateTime<Utc>) -> (o: bool) ensures o == (*l == *r) { unimplemented!() }
#[verifier::external_body] pub fn dur_eq(l: &Duration, r: &Duration) -> (o: bool) ensures o == (*l == *r) { unimplemented!() }
// coarser views of an instant / a span (chrono), WITHOUT contracts: present so that a comparison rewritten through one of them is decided
// against the postcondition instead of failing to type-check
impl<T> DateTime<T> {
    #[verifier::external_body] pub fn timestamp(&self) -> i64 { unimplemented!() }
    #[verifier::external_body] pub fn timestamp_millis(&self) -> i64 { unimplemented!() }
    #[verifier::external_body] pub fn timestamp_micros(&self) -> i64 { unimplemented!() }
    #[verifier::external_body] pub fn timestamp_nanos_opt(&self) -> Option<i64> { unimplemented!() }
    #[verifier::external_body] pub fn timestamp_subsec_nanos(&self) -> u32 { unimplemented!() }
}
impl Duration {
    #[verifier::external_body] pub fn num_seconds(&self) -> i64 { unimplemented!() }
    #[verifier::external_body] pub fn num_milliseconds(&self) -> i64 { unimplemented!() }
    #[verifier::external_body] pub fn num_microseconds(&self) -> Option<i64> { unimplemented!() }
    #[verifier::external_body] pub fn num_nanoseconds(&self) -> Option<i64> { unimplemented!() }
    #[verifier::external_body] pub fn subsec_nanos(&self) -> i32 { unimplemented!() }
}
#[verifier::external_body] pub fn dyn_downcast(d: &DynArc) -> Option<&CelValue> { unimplemented!() }
/// std::iter::zip of two vectors, materialized: the pairs of equal indices, in order, up to the shorter one (assumed std behaviour)
#[verifier::external_body] pub fn zip(l: Vec<CelValue>, r: Vec<CelValue>) -> (o: Vec<(CelValue, CelValue)>)
    ensures o@.len() == (if l@.len() <= r@.len() { l@.len() } else { r@.len() }), forall|i: int| 0 <= i < o@.len() ==> o@[i] == (l@[i], r@[i]) { unimplemented!() }
// ---- HashMap<String, CelValue> operations of the map-equality arm (assumed std behaviour) -------------------------------------------
#[verifier::external_body] pub fn map_clone(m: &HashMap<String, CelValue>) -> (o: HashMap<String, CelValue>) ensures o@ == m@ { unimplemented!() }
/// HashMap::into_iter, materialized: every entry exactly once, in an unspecified order
#[verifier::external_body] pub fn map_entries(m: HashMap<String, CelValue>) -> (o: Vec<(String, CelValue)>)
    ensures entries_of(m@, o@) { unimplemented!() }
pub open spec fn entries_of(m: Map<String, CelValue>, es: Seq<(String, CelValue)>) -> bool {
    &&& forall|j: int| 0 <= j < es.len() ==> m.contains_key((#[trigger] es[j]).0) && m[es[j].0] == es[j].1
    &&& forall|i: int, j: int| 0 <= i < j < es.len() ==> (#[trigger] es[i]).0 != (#[trigger] es[j]).0
    &&& forall|k: String| #[trigger] m.contains_key(k) ==> exists|j: int| 0 <= j < es.len() && (#[trigger] es[j]).0 == k
}
#[verifier::external_body] pub fn map_remove(m: &mut HashMap<String, CelValue>, k: &String) -> (o: Option<CelValue>)
    ensures o == (if old(m)@.contains_key(*k) { Some(old(m)@[*k]) } else { None::<CelValue> }), final(m)@ == old(m)@.remove(*k) { unimplemented!() }
#[verifier::external_body] pub fn map_get_s<'a>(m: &'a HashMap<String, CelValue>, k: &String) -> (o: Option<&'a CelValue>)
    ensures (match o { Some(v) => m@.contains_key(*k) && *v == m@[*k], None => !m@.contains_key(*k) }) { unimplemented!() }
#[verifier::external_body] pub fn map_has(m: &HashMap<String, CelValue>, k: &String) -> (o: bool) ensures o == m@.contains_key(*k) { unimplemented!() }
#[verifier::external_body] pub fn map_len(m: &HashMap<String, CelValue>) -> (o: usize) ensures o == m@.len() { unimplemented!() }
#[verifier::external_body] pub fn map_is_empty(m: &HashMap<String, CelValue>) -> (o: bool) ensures o == (forall|k: String| !m@.contains_key(k)) { unimplemented!() }
pub assume_specification[ String::len ](s: &String) -> (r: usize) ensures r >= s@.len(), (r == 0) == (s@.len() == 0);   // UTF-8 byte length
'''

TRAIT = r'''
impl vstd::std_specs::ops::NotSpecImpl for CelValue { open spec fn obeys_not_spec() -> bool { false } open spec fn not_req(self) -> bool { true } open spec fn not_spec(self) -> CelValue { arbitrary() } }
'''

R2C = 'R2: comparison without a usable vstd spec -> external trampoline with the assumed std/chrono behaviour'


def cmp_fn(rel):
    """rel: python dict describing lt/gt/le/ge: which Orderings make it true"""
    name, accepts = rel
    ints = {'lt': 'int_val({a}) < int_val({b})', 'gt': 'int_val({a}) > int_val({b})', 'le': 'int_val({a}) <= int_val({b})', 'ge': 'int_val({a}) >= int_val({b})'}[name]
    same = ' || '.join(f'same_kind_cmp({{a}}, {{b}}) is {o}' for o in accepts)
    P = ('C04', 'C01')

    def clauses(a, b, r):
        return [
            ('integers_by_value', f'integral_pair({a}, {b}) ==> {r} == CelValue::Bool(' + ints.format(a=a, b=b) + ')', P),
            ('same_kind_by_payload_order', f'comparable_same_kind({a}, {b}) ==> {r} == CelValue::Bool(' + same.format(a=a, b=b) + ')', P),
            ('double_gives_bool', f'double_pair({a}, {b}) ==> {r} is Bool', P),
            ('unrelated_types_are_an_error', f'unrelated({a}, {b}) ==> {r} is Err', P),
        ]
    rws = [(f'val == Some(Ordering::{o})', f'opt_ord_is(val, Ordering::{o})', R2C) for o in accepts]
    return A(ret='r',
             ensures=[('left_error_wins', 'self is Err ==> r == self', P), ('right_error', '!(self is Err) && rhs is Err ==> r == rhs', P)]
             + [(n, f'!(self is Err) && !(rhs is Err) ==> ({t})', pp) for n, t, pp in clauses('self', 'rhs', 'r')],
             closures={0: dict(types=['CelValue', 'CelValue'], ret='res: CelValue',
                               requires=[('operands_not_err', '!(lhs is Err) && !(rhs is Err)')],
                               ensures=clauses('lhs', 'rhs', 'res'))},
             rewrites=rws, props=P)


def build():
    U = Unit('value_cmp')
    U.lemmas = [('law_int_trichotomy', ('C04',)), ('law_int_transitive', ('C04',)), ('law_int_antisymmetric', ('C04',))]
    U.global_rewrites.append(C.DYN_REWRITE)
    U.raw(C.HEADER.replace('use std::iter::zip;', '// std::iter::zip: the stand-in fn zip below'), 'header')
    U.raw(C.STANDINS, 'S1 stand-ins')
    C.value_types(U)
    U.raw(C.DERIVED, 'assumed derived impls')
    U.raw(C.TRAIT_FULL + TRAIT, 'CelValueDyn trait restated')
    U.raw(C.VALUE_SPECS + C.TRUTHY_SPEC + SPECS, 'spec functions')
    U.raw(TRAMP, 'assumed comparison specs')
    U.raw(C.STD_SPECS + C.STD_INT_SPECS, 'assumed std specs')
    U.raw(C.AXIOMS, 'axioms')
    U.extract(C.CE, 'impl CelError', fns={
        'invalid_op': A(ret='r', ensures=[('kind', 'r is InvalidOp')], props=('C01',)),
    })
    U.extract(C.CB, 'impl CelBytes', fns={'len': A(ret='r', ensures=[('def', 'r == self@.len()')], props=('C01',))})
    fns = C.ctor_fns(['from_int', 'from_uint', 'from_float', 'from_bool', 'from_err', 'true_', 'false_', 'is_err'], stub=False)
    fns.update({
        'type_prop': C.type_prop_contract(stub=True),
        'error_prop_or': C.err_prop_contract(stub=True),
        'is_true': A(ret='r', ensures=[('def', 'r == (self == CelValue::Bool(true))')], props=('C05', 'C01')),
        'is_null': A(ret='r', ensures=[('def', 'r == (self is Null)')], props=('C01',)),
        'ord': A(ret='r', ensures=[
            ('integers_by_value', 'integral_pair(self, rhs_value) ==> r == Ok::<Option<Ordering>, CelError>(Some(int_cmp(int_val(self), int_val(rhs_value))))'),
            ('same_kind_by_payload_order', 'comparable_same_kind(self, rhs_value) ==> r == Ok::<Option<Ordering>, CelError>(Some(same_kind_cmp(self, rhs_value)))'),
            ('double_is_comparable', 'double_pair(self, rhs_value) ==> r is Ok'),
            ('doubles_compare_as_ieee_lhs_to_rhs', 'self is Float && rhs_value is Float ==> r == Ok::<Option<Ordering>, CelError>(f64_cmp(self->Float_0, rhs_value->Float_0))'),
            ('unrelated_types_are_an_error', 'unrelated(self, rhs_value) ==> r is Err'),
        ], arm_rewrites={
            '(CelValue::Float(l), CelValue::Float(r))': [('l.partial_cmp(&r)', 'f64_partial_cmp(&l, &r)', R2C, 'alt'), ('r.partial_cmp(&l)', 'f64_partial_cmp(&r, &l)', R2C, 'alt')],
            '(CelValue::Bool(l), CelValue::Bool(r))': [('l.partial_cmp(&r)', 'bool_partial_cmp(&l, &r)', R2C, 'alt'), ('r.partial_cmp(&l)', 'bool_partial_cmp(&r, &l)', R2C, 'alt')],
            '(CelValue::String(l), CelValue::String(r))': [('l.partial_cmp(&r)', 'string_partial_cmp(&l, &r)', R2C, 'alt'), ('r.partial_cmp(&l)', 'string_partial_cmp(&r, &l)', R2C, 'alt')],
            '(CelValue::Bytes(l), CelValue::Bytes(r))': [('l.partial_cmp(&r)', 'bytes_partial_cmp(&l, &r)', R2C, 'alt'), ('r.partial_cmp(&l)', 'bytes_partial_cmp(&r, &l)', R2C, 'alt')],
            '(CelValue::TimeStamp(l), CelValue::TimeStamp(r))': [('l.partial_cmp(&r)', 'ts_partial_cmp(&l, &r)', R2C, 'alt'), ('r.partial_cmp(&l)', 'ts_partial_cmp(&r, &l)', R2C, 'alt')],
            '(CelValue::Duration(l), CelValue::Duration(r))': [('l.partial_cmp(&r)', 'dur_partial_cmp(&l, &r)', R2C, 'alt'), ('r.partial_cmp(&l)', 'dur_partial_cmp(&r, &l)', R2C, 'alt')],
        }, props=('C04', 'C01')),
        'lt': cmp_fn(('lt', ['Less'])),
        'gt': cmp_fn(('gt', ['Greater'])),
        'le': cmp_fn(('le', ['Less', 'Equal'])),
        'ge': cmp_fn(('ge', ['Greater', 'Equal'])),
        'or': A(ret='r', ensures=[
            ('true_when_either_truthy', 'spec_truthy(*self) || spec_truthy(*rhs) ==> r == CelValue::Bool(true)'),
            ('failing_operand_fails', '!spec_truthy(*self) && !spec_truthy(*rhs) && self is Err ==> r == *self'),
            ('failing_rhs_fails', '!spec_truthy(*self) && !spec_truthy(*rhs) && !(self is Err) && rhs is Err ==> r == *rhs'),
            ('false_otherwise', '!spec_truthy(*self) && !spec_truthy(*rhs) && !(self is Err) && !(rhs is Err) ==> r == CelValue::Bool(false)'),
        ], props=('C05', 'C01')),
        'and': A(ret='r', ensures=[
            ('left_error_wins', 'self is Err ==> r == self'),
            ('right_error', '!(self is Err) && rhs is Err ==> r == rhs'),
            ('conjunction_of_truthiness', '!(self is Err) && !(rhs is Err) ==> r == CelValue::Bool(spec_truthy(self) && spec_truthy(rhs))'),
        ], closures={0: dict(types=['CelValue', 'CelValue'], ret='res: CelValue',
                             ensures=[('conjunction_of_truthiness', 'res == CelValue::Bool(spec_truthy(lhs) && spec_truthy(rhs))')])},
            props=('C05', 'C01')),
        'neq': A(ret='r', ensures=[
            ('left_error_wins', 'self is Err ==> r == self', ('C04', 'C01')),
            ('right_error', '!(self is Err) && rhs is Err ==> r == rhs', ('C04', 'C01')),
            ('complement_integers', '!(self is Err) && !(rhs is Err) && integral_pair(self, rhs) ==> r == CelValue::Bool(int_val(self) != int_val(rhs))', ('C04', 'C01')),
            ('complement_scalars', '!(self is Err) && !(rhs is Err) ==> scalar_eq_ok(self, rhs, r, true)', ('C04', 'C01')),
        ], closures={0: dict(types=['CelValue', 'CelValue'], ret='res: CelValue',
                             requires=[('operands_not_err', '!(lhs is Err) && !(rhs is Err)')],
                             ensures=[('complement_integers', 'integral_pair(lhs, rhs) ==> res == CelValue::Bool(int_val(lhs) != int_val(rhs))', ('C04', 'C01')),
                                      ('complement_scalars', 'scalar_eq_ok(lhs, rhs, res, true)', ('C04', 'C01'))])},
            props=('C04', 'C01')),
    })
    U.raw(r'''
/// `==` on the scalar kinds, from the statement: same number for int/uint (bool as 0/1), payload equality for
/// string/bytes/bool/timestamp/duration/type, null only equals null, values of unrelated scalar kinds are not equal.
/// `negate` gives the `!=` reading.  Lists, maps and dyn objects are only required to give a bool or an error.
/// Some(v): by the scalar rules `a == b` is exactly Bool(v); None: not decided at this level (doubles: IEEE, nested containers, dyn objects, failures)
pub open spec fn elem_exact(a: CelValue, b: CelValue) -> Option<bool> {
    if a is Err || b is Err { None }
    else if integral_pair(a, b) { Some(int_val(a) == int_val(b)) }
    else if double_pair(a, b) { None }
    else { match (a, b) {
        (CelValue::String(x), CelValue::String(y)) => Some(x@ == y@),
        (CelValue::Bytes(x), CelValue::Bytes(y)) => Some(x@ == y@),
        (CelValue::TimeStamp(x), CelValue::TimeStamp(y)) => Some(x == y),
        (CelValue::Duration(x), CelValue::Duration(y)) => Some(x == y),
        (CelValue::Type(x), CelValue::Type(y)) => Some(x@ == y@),
        (CelValue::Null, CelValue::Null) => Some(true),
        (CelValue::List(_), CelValue::List(_)) => None,
        (CelValue::Map(_), CelValue::Map(_)) => None,
        (CelValue::Dyn(_), _) => None,
        (_, CelValue::Dyn(_)) => None,
        _ => Some(false),
    } }
}
/// list equality: lists of different lengths are never equal; lists whose element pairs are all decided by the scalar rules are equal
/// exactly when every pair is (element-wise, same positions).  Lists holding doubles, containers, dyn objects or failures: bool or error.
pub open spec fn list_eq_ok(x: Seq<CelValue>, y: Seq<CelValue>, r: CelValue, negate: bool) -> bool {
    (r is Bool || r is Err)
    && (x.len() != y.len() ==> r == CelValue::Bool(negate))
    && ((x.len() == y.len() && forall|i: int| 0 <= i < x.len() ==> (#[trigger] elem_exact(x[i], y[i])) is Some)
        ==> r == CelValue::Bool((forall|i: int| 0 <= i < x.len() ==> (#[trigger] elem_exact(x[i], y[i])) == Some(true)) != negate))
}
/// the keys seen by the first i entries
pub open spec fn seen(es: Seq<(String, CelValue)>, i: int, k: String) -> bool { exists|j: int| 0 <= j < i && (#[trigger] es[j]).0 == k }
pub open spec fn same_keys(x: Map<String, CelValue>, y: Map<String, CelValue>) -> bool { forall|k: String| x.contains_key(k) <==> y.contains_key(k) }
pub open spec fn pair_exact(x: Map<String, CelValue>, y: Map<String, CelValue>, k: String) -> Option<bool> { elem_exact(x[k], y[k]) }
/// map equality: always a bool; maps with different key sets are never equal; maps with the same keys whose value pairs are all decided
/// by the scalar rules are equal exactly when every pair is
pub open spec fn map_eq_ok(x: Map<String, CelValue>, y: Map<String, CelValue>, r: CelValue, negate: bool) -> bool {
    r is Bool
    && (!same_keys(x, y) ==> r == CelValue::Bool(negate))
    && ((same_keys(x, y) && forall|k: String| x.contains_key(k) ==> (#[trigger] pair_exact(x, y, k)) is Some)
        ==> r == CelValue::Bool((forall|k: String| x.contains_key(k) ==> (#[trigger] pair_exact(x, y, k)) == Some(true)) != negate))
}
pub open spec fn scalar_eq_ok(a: CelValue, b: CelValue, r: CelValue, negate: bool) -> bool {
    if integral_pair(a, b) { r == CelValue::Bool((int_val(a) == int_val(b)) != negate) }
    else if double_pair(a, b) { r is Bool }
    else { match (a, b) {
        (CelValue::String(x), CelValue::String(y)) => r == CelValue::Bool((x@ == y@) != negate),
        (CelValue::Bytes(x), CelValue::Bytes(y)) => r == CelValue::Bool((x@ == y@) != negate),
        (CelValue::TimeStamp(x), CelValue::TimeStamp(y)) => r == CelValue::Bool((x == y) != negate),
        (CelValue::Duration(x), CelValue::Duration(y)) => r == CelValue::Bool((x == y) != negate),
        (CelValue::Type(x), CelValue::Type(y)) => r == CelValue::Bool((x@ == y@) != negate),
        (CelValue::Null, CelValue::Null) => r == CelValue::Bool(!negate),
        (CelValue::List(x), CelValue::List(y)) => list_eq_ok(x@, y@, r, negate),
        (CelValue::Map(x), CelValue::Map(y)) => map_eq_ok(x@, y@, r, negate),
        (CelValue::Dyn(_), _) => true,
        (_, CelValue::Dyn(_)) => true,
        _ => r == CelValue::Bool(negate),
    } }
}
''', 'equality spec')
    U.extract(C.CV, 'impl CelValue', fns=fns, others='stub')
    C.from_impls(U, ('i64', 'u64', 'f64', 'bool', 'CelError'))
    U.raw(C.FROM_SPEC_IMPLS, 'From spec impls')
    U.extract(C.CV, 'impl CelValueDyn for CelValue', fns={
        'is_truthy': A(ret='r', ensures=[('truthiness_table', 'r == spec_truthy(*self)')],
                       arm_rewrites={'CelValue::Float(f)': [('*f != 0.0', 'f64_ne_zero(*f)', R2C)]}, props=('C05', 'C01')),
        'eq': A(ret='r', attrs=['#[verifier::exec_allows_no_decreases_clause]'], ensures=[
            ('left_error_wins', 'self is Err ==> r == *self', ('C04', 'C01')),
            ('right_error', '!(self is Err) && rhs_val is Err ==> r == *rhs_val', ('C04', 'C01')),
            ('integers_by_value', '!(self is Err) && !(rhs_val is Err) && integral_pair(*self, *rhs_val) ==> r == CelValue::Bool(int_val(*self) == int_val(*rhs_val))', ('C04', 'C01')),
            ('scalars', '!(self is Err) && !(rhs_val is Err) && !(rhs_val is Dyn) ==> scalar_eq_ok(*self, *rhs_val, r, false)', ('C04', 'C01')),
        ], closures={0: dict(types=['CelValue', 'CelValue'], ret='res: CelValue',
                             requires=[('operands_not_err', '!(lhs_val is Err) && !(rhs_val is Err)')],
                             ensures=[('integers_by_value', 'integral_pair(lhs_val, rhs_val) ==> res == CelValue::Bool(int_val(lhs_val) == int_val(rhs_val))', ('C04', 'C01')),
                                      ('scalars', '!(rhs_val is Dyn) ==> scalar_eq_ok(lhs_val, rhs_val, res, false)', ('C04', 'C01'))])},
            rewrites=[('d.any_ref().downcast_ref::<CelValue>()', 'dyn_downcast(&d)', 'R1: &dyn Any downcast -> opaque trampoline')],
            arm_rewrites={
                '(CelValue::Float(l), CelValue::Float(r))': [('l == r', 'f64_eq(l, r)', R2C)],
                '(CelValue::Bytes(l), CelValue::Bytes(r))': [('l == r', 'bytes_eq(&l, &r)', R2C)],
                '(CelValue::TimeStamp(l), CelValue::TimeStamp(r))': [('l == r', 'ts_eq(&l, &r)', R2C, 'opt'), ('r == l', 'ts_eq(&r, &l)', R2C, 'opt')],
                '(CelValue::Duration(l), CelValue::Duration(r))': [('l == r', 'dur_eq(&l, &r)', R2C, 'opt'), ('r == l', 'dur_eq(&r, &l)', R2C, 'opt')],
                '(CelValue::Map(l), CelValue::Map(r))': [('l.into_iter()', 'ents', 'R2: HashMap::into_iter -> the materialized entry list `ents`, bound at the start of the arm by `let ents = map_entries(l);` (assumed: every entry once, unspecified order)'),
                                                         ('r.clone()', 'map_clone(&r)', 'R2: HashMap<String, _> operation without a usable vstd spec -> trampoline with the assumed std behaviour', 'opt'), ('r.remove(&k)', 'map_remove(&mut r, &k)', 'R2: HashMap<String, _> operation without a usable vstd spec -> trampoline with the assumed std behaviour', 'opt'), ('r.is_empty()', 'map_is_empty(&r)', 'R2: HashMap<String, _> operation without a usable vstd spec -> trampoline with the assumed std behaviour', 'opt'),
                                                         ('r.get(&k)', 'map_get_s(&r, &k)', 'R2: HashMap<String, _> operation without a usable vstd spec -> trampoline with the assumed std behaviour', 'opt'), ('r.contains_key(&k)', 'map_has(&r, &k)', 'R2: HashMap<String, _> operation without a usable vstd spec -> trampoline with the assumed std behaviour', 'opt'), ('r.len()', 'map_len(&r)', 'R2: HashMap<String, _> operation without a usable vstd spec -> trampoline with the assumed std behaviour', 'opt')],
            },
            arm_begin={'(CelValue::Map(l), CelValue::Map(r))': 'let ghost mx = l@; let ghost my = r@; let ents = map_entries(l); let ghost es_all = ents@;',
                       'CelValue::Err(err)': 'proof { let k = it.index@ as int; assert((v1, v2) == (lx[k], ry[k])); assert(elem_exact(lx[k], ry[k]) is None); }'},
            before={'for (v1, v2) in zip(l, r)': 'let ghost lx = l@; let ghost ry = r@;',
                    
                    
                    
                    
                    
                    ('return CelValue::false_();', 0): 'proof { let k = it.index@ as int; assert((v1, v2) == (lx[k], ry[k])); assert(elem_exact(lx[k], ry[k]) is Some ==> elem_exact(lx[k], ry[k]) == Some(false)); }'},
            loops={1: dict(header='for (k, v1) in l.into_iter()', ghost='it3', invariant=[
                ('the_operands_are_these_maps', '!integral_pair(lhs_val, rhs_val) && (!(rhs_val is Dyn) ==> lhs_val is Map && rhs_val is Map && lhs_val->Map_0@ == mx && rhs_val->Map_0@ == my)'),
                ('every_entry_once', 'it3.seq() == es_all && entries_of(mx, es_all)'),
                ('what_is_left_of_the_right_map', 'forall|q: String| #[trigger] r@.contains_key(q) ==> my.contains_key(q) && r@[q] == my[q] && (forall|j: int| 0 <= j < it3.index@ ==> (#[trigger] es_all[j]).0 != q)'),
                ('nothing_else_was_removed', 'forall|q: String| #[trigger] my.contains_key(q) ==> r@.contains_key(q) || exists|j: int| 0 <= j < it3.index@ && (#[trigger] es_all[j]).0 == q'),
                ('seen_keys_are_on_both_sides_with_equal_values', 'forall|j: int| 0 <= j < it3.index@ ==> my.contains_key((#[trigger] es_all[j]).0) && (pair_exact(mx, my, es_all[j].0) is Some ==> pair_exact(mx, my, es_all[j].0) == Some(true))', ('C04', 'C01'))],
                pre='let ghost i0 = it3.index@ as int; let ghost es = es_all; let ghost r0 = r@; proof { assert((k, v1) == es[i0]); assert(forall|j: int| 0 <= j < i0 ==> (#[trigger] es[j]).0 != es[i0].0); assert(pair_exact(mx, my, k) == elem_exact(mx[k], my[k])); }',
),
                   0: dict(header='for (v1, v2) in zip(l, r)', ghost='it', invariant=[
                ('the_operands_are_these_lists', '!integral_pair(lhs_val, rhs_val) && (!(rhs_val is Dyn) ==> lhs_val is List && rhs_val is List && lhs_val->List_0@ == lx && rhs_val->List_0@ == ry)'),
                ('same_positions', 'lx.len() == ry.len() && it.seq().len() == lx.len() && forall|j: int| 0 <= j < lx.len() ==> it.seq()[j] == (lx[j], ry[j])'),
                ('equal_so_far', 'forall|j: int| 0 <= j < it.index@ ==> ((#[trigger] elem_exact(lx[j], ry[j])) is Some ==> elem_exact(lx[j], ry[j]) == Some(true))', ('C04', 'C01'))])},
            props=('C04', 'C01')),
    }, others='stub', skip=('any_ref',))
    U.extract(C.CV, 'impl Not for CelValue', fns={'not': A(ret='r', ensures=[
        ('error_kept', 'self is Err ==> r == self'),
        ('negated_truthiness', '!(self is Err) ==> r == CelValue::Bool(!spec_truthy(self))'),
    ], props=('C05', 'C01'))})
    U.raw(C.FOOTER, 'footer')
    return U
