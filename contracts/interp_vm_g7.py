"""run_raw, arm-contract group 7: Access on maps, Call resolution order (see interp_vm.py)"""
from . import interp_vm
HAS_LOOP_CONTRACTS = False


def build():
    return interp_vm.build(group=7)
