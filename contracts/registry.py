"""Which units / Kani harnesses decide which property (DESIGN section 6)."""

I64_MIN, I64_MAX, U64_MAX = -(1 << 63), (1 << 63) - 1, (1 << 64) - 1


def matches(obs, want):
    """obs: what /verif/replay observed on the real code; want: what the property demands"""
    if want[0] == 'error':
        return obs.get('outcome') in ('error', 'compile_error')
    if want[0] == 'value':
        return obs.get('outcome') == 'value' and obs.get('type') == want[1] and str(obs.get('value')) == str(want[2])
    if want[0] == 'no-panic':
        return obs.get('outcome') in ('value', 'error', 'compile_error')
    if want[0] == 'any-of':
        return any(matches(obs, w) for w in want[1])
    return False


def tdiv(a, b):
    q = abs(a) // abs(b)
    return q if (a >= 0) == (b > 0) else -q


def trem(a, b):
    return a - b * tdiv(a, b)


def exact(kind, v):
    if v is None:
        return ('error',)
    lo, hi = (I64_MIN, I64_MAX) if kind == 'int' else (0, U64_MAX)
    return ('value', kind, v) if lo <= v <= hi else ('error',)


CV = 'rscel/src/types/cel_value.rs'
KANI = {}


def _arith(kind, rty):
    ops = {'add': ('+', lambda a, b: a + b), 'sub': ('-', lambda a, b: a - b), 'mul': ('*', lambda a, b: a * b),
           'div': ('/', lambda a, b: None if b == 0 else tdiv(a, b)), 'rem': ('%', lambda a, b: None if b == 0 else trem(a, b))}
    for name, (sym, f) in ops.items():
        KANI[f'arith_{kind}_{name}'] = dict(
            inject=CV, module='cel_value.rs', fq=f'types::cel_value::verif_kani_cv::arith_{kind}_{name}', exhaustive=True,
            functions=[f'impl {name.capitalize()} for CelValue', 'CelValue::type_prop', 'CelValue::error_prop_or'],
            claim=f'{kind} {sym} {kind} returns the exact result when representable and an error otherwise, for all 2^128 operand pairs',
            vars=[('a', rty), ('b', rty)],
            replay=dict(expr=f'a {sym} b', bind=(lambda v, kind=kind: {'a': {kind: str(v['a'])}, 'b': {kind: str(v['b'])}}),
                        oracle=(lambda v, f=f, kind=kind: exact(kind, f(v['a'], v['b'])))))
    KANI[f'arith_{kind}_neg'] = dict(
        inject=CV, module='cel_value.rs', fq=f'types::cel_value::verif_kani_cv::arith_{kind}_neg', exhaustive=True,
        functions=['impl Neg for CelValue'], claim=f'-{kind}: exact or error (negating an unsigned value is an error)',
        vars=[('a', rty)],
        replay=dict(expr='-a', bind=(lambda v, kind=kind: {'a': {kind: str(v['a'])}}),
                    oracle=(lambda v, kind=kind: exact('int', -v['a']) if kind == 'int' else ('error',))))


_arith('int', 'i64')
_arith('uint', 'u64')

ARITH_TWINS = [k for k in KANI if k.startswith('arith_')]
# the division / remainder twins (64- and 128-bit division circuits) and uint negation (an error path through format!) need more than 20 min of CBMC each
# to PROVE; they stay available as counterexample finders when a Verus obligation fails (a failing run ends in seconds) but are not registered as proofs
ARITH_SLOW = [k for k in ARITH_TWINS if k.endswith('_div') or k.endswith('_rem') or k == 'arith_uint_neg']
ARITH_FAST = [k for k in ARITH_TWINS if k not in ARITH_SLOW]

TF = 'rscel/src/context/type_funcs.rs'
DF = 'rscel/src/context/default_funcs.rs'


def _conv(name, vars_, claim, expr=None, bind=None, oracle=None, fns=()):
    KANI[name] = dict(inject=TF, module='type_funcs.rs', fq=f'context::type_funcs::verif_kani_types::{name}', exhaustive=True, functions=list(fns), claim=claim, vars=vars_,
                      replay=(dict(expr=expr, bind=bind, oracle=oracle) if expr else None))


_conv('conv_int_of_uint', [('u', 'u64')], 'int(uint) preserves the number when it is representable and fails otherwise', 'int(a)', lambda v: {'a': {'uint': str(v['u'])}}, lambda v: exact('int', v['u']), ['int_type::methods::int(u64)'])
_conv('conv_int_of_int', [('i', 'i64')], 'int(int) is the identity', 'int(a)', lambda v: {'a': {'int': str(v['i'])}}, lambda v: exact('int', v['i']), ['int_type::methods::int(i64)'])
_conv('conv_int_of_bool', [('b', 'bool')], 'int(bool) is 0/1', 'int(a)', lambda v: {'a': {'bool': 'true' if v['b'] else 'false'}}, lambda v: exact('int', 1 if v['b'] else 0), ['int_type::methods::int(bool)'])
_conv('conv_int_of_double', [('f', 'f64')], 'int(double) truncates toward zero, saturating, NaN -> 0', fns=['int_type::methods::int(f64)'])
_conv('conv_uint_of_int', [('i', 'i64')], 'uint(int) preserves the number when it is not negative and fails otherwise', 'uint(a)', lambda v: {'a': {'int': str(v['i'])}}, lambda v: exact('uint', v['i']), ['uint_type::methods::uint(i64)'])
_conv('conv_uint_of_uint', [('u', 'u64')], 'uint(uint) is the identity', 'uint(a)', lambda v: {'a': {'uint': str(v['u'])}}, lambda v: exact('uint', v['u']), ['uint_type::methods::uint(u64)'])
_conv('conv_uint_of_bool', [('b', 'bool')], 'uint(bool) is 0/1', fns=['uint_type::methods::uint(bool)'])
_conv('conv_uint_of_double', [('f', 'f64')], 'uint(double) truncates toward zero, saturating above; only negative or NaN input may be rejected', fns=['uint_type::methods::uint(f64)'])
_conv('conv_double_of_int', [('i', 'i64')], 'double(int) is the nearest double', fns=['double_type::methods::double(i64)'])
_conv('conv_double_of_uint', [('u', 'u64')], 'double(uint) is the nearest double', fns=['double_type::methods::double(u64)'])
_conv('conv_double_of_bool', [('b', 'bool')], 'double(bool) is 0.0/1.0', fns=['double_type::methods::double(bool)'])
_conv('conv_double_of_double', [('f', 'f64')], 'double(double) is the identity, bit for bit', fns=['double_type::methods::double(f64)'])
CONV = [k for k in KANI if k.startswith('conv_')]


def _math(name, vars_, claim, expr=None, bind=None, oracle=None, fns=(), bound=None, kani_args=()):
    KANI[name] = dict(inject=DF, module='default_funcs.rs', fq=f'context::default_funcs::verif_kani_funcs::{name}', exhaustive=(bound is None), bound=bound, functions=list(fns), claim=claim, vars=vars_,
                      kani_args=list(kani_args), replay=(dict(expr=expr, bind=bind, oracle=oracle) if expr else None))


def _ilog(n, base):
    r = 0
    while base ** (r + 1) <= n:
        r += 1
    return r


_math('math_abs_int', [('n', 'i64')], 'abs(int) is |n|, an error for the one value whose absolute value is not representable', 'abs(a)', lambda v: {'a': {'int': str(v['n'])}}, lambda v: exact('int', abs(v['n'])), ['math::abs(i64)'])
_math('math_abs_uint', [('n', 'u64')], 'abs(uint) is the identity', fns=['math::abs(u64)'])
_math('math_abs_double', [('f', 'f64')], 'abs(double) is IEEE fabs, bit for bit', fns=['math::abs(f64)'])
_math('math_lg_int', [('n', 'i64')], 'lg(int) = floor(log2 n) for n > 0, an error otherwise', 'lg(a)', lambda v: {'a': {'int': str(v['n'])}}, lambda v: ('error',) if v['n'] <= 0 else ('value', 'int', _ilog(v['n'], 2)), ['math::lg(i64)'])
_math('math_lg_uint', [('n', 'u64')], 'lg(uint) = floor(log2 n) for n > 0, an error for 0', 'lg(a)', lambda v: {'a': {'uint': str(v['n'])}}, lambda v: ('error',) if v['n'] <= 0 else ('value', 'uint', _ilog(v['n'], 2)), ['math::lg(u64)'])
_math('math_log_int', [('n', 'i64')], 'log(int) = floor(log10 n) for n > 0, an error otherwise', 'log(a)', lambda v: {'a': {'int': str(v['n'])}}, lambda v: ('error',) if v['n'] <= 0 else ('value', 'int', _ilog(v['n'], 10)), ['math::log(i64)'])
_math('math_log_uint', [('n', 'u64')], 'log(uint) = floor(log10 n) for n > 0, an error for 0', 'log(a)', lambda v: {'a': {'uint': str(v['n'])}}, lambda v: ('error',) if v['n'] <= 0 else ('value', 'uint', _ilog(v['n'], 10)), ['math::log(u64)'])
_math('math_floor_double', [('f', 'f64')], 'floor(double) is the IEEE floor converted to int (saturating, NaN -> 0)', fns=['math::floor(f64)'])
_math('math_ceil_double', [('f', 'f64')], 'ceil(double) is the IEEE ceil converted to int (saturating, NaN -> 0)', fns=['math::ceil(f64)'])
_math('math_round_double', [('f', 'f64')], 'round(double) is the IEEE round-half-away converted to int (saturating, NaN -> 0)', fns=['math::round(f64)'])
_math('math_floor_ceil_round_int', [('n', 'i64')], 'floor/ceil/round of an int are the identity', fns=['math::floor(i64)', 'math::ceil(i64)', 'math::round(i64)'])
_math('math_pow_int_square', [('b', 'i64')], 'pow(int, 2) is exact or an error', 'pow(a, 2)', lambda v: {'a': {'int': str(v['b'])}}, lambda v: exact('int', v['b'] ** 2), ['math::pow(i64,i64)'],
      bound='exponent 2 only (checked_pow loop unwound 4 times)')
_math('math_pow_int_negative_or_huge_exponent_is_error', [('b', 'i64'), ('e', 'i64')], 'pow(int, int) with a negative exponent or one beyond 32 bits is an error', 'pow(a, b)',
      lambda v: {'a': {'int': str(v['b'])}, 'b': {'int': str(v['e'])}}, lambda v: ('error',), ['math::pow(i64,i64)'])
PW = 'rscel/src/context/default_funcs/math/pow.rs'
for _n, _c, _v in [('pow_float_exponent_accepts_only_whole_u32', 'float_exponent(f) accepts only doubles that are whole numbers in 0 ..= u32::MAX and returns that number; every rejected double is the image of no u32', [('f', 'f64')]),
                   ('pow_float_exponent_accepts_every_u32', 'float_exponent(e as f64) == Ok(e) for every u32 e', [('e', 'u32')]),
                   ('pow_int_exponent_i64', 'int_exponent(n: i64) is the same number when 0 <= n <= u32::MAX and an error otherwise', [('n', 'i64')]),
                   ('pow_int_exponent_u64', 'int_exponent(n: u64) is the same number when n <= u32::MAX and an error otherwise', [('n', 'u64')])]:
    KANI[_n] = dict(inject=PW, module='pow.rs', fq=f'context::default_funcs::math::pow::verif_kani_pow::{_n}', exhaustive=True, functions=['math::pow::float_exponent' if 'float' in _n else 'math::pow::int_exponent'],
                    claim=_c, vars=_v, replay=None)
POWEXP = [k for k in KANI if k.startswith('pow_')]
MATH = [k for k in KANI if k.startswith('math_') and not k.startswith('math_pow')]   # pow: CBMC does not finish on checked_pow's multiplication chain (measured > 40 min)

for _n, _c in [('time_ts_plus_dur', 't + d is the chrono result or an error when not representable, and (t + d) - d == t'),
               ('time_dur_plus_ts_commutes', 'd + t == t + d'), ('time_ts_minus_dur', 't - d is the chrono result or an error'),
               ('time_ts_minus_ts_roundtrip', 't1 - t2 never fails and (t1 - t2) + t2 == t1'), ('time_dur_plus_minus_dur', 'd1 + d2 - d2 == d1 whenever d1 + d2 is representable'),
               ('time_ordering_is_chronological', 'timestamps compare chronologically')]:
    KANI[_n] = dict(inject=CV, module='cel_value.rs', fq=f'types::cel_value::verif_kani_time::{_n}', exhaustive=True, functions=['impl Add for CelValue', 'impl Sub for CelValue', 'CelValue::ord'],
                    claim=_c, vars=None)

ALL_UNITS = ['value_arith', 'value_cmp', 'value_coll', 'macros', 'preresolved', 'interp', 'interp_vm_g0', 'interp_vm_g1', 'interp_vm_g2', 'interp_vm_g3',
             'interp_vm_g4', 'interp_vm_g5', 'interp_vm_g6', 'interp_vm_g7', 'builtins', 'wiring', 'parser', 'json', 'compprog', 'parser_expr', 'parser_unary', 'parser_match', 'scanner', 'tokenizer', 'parser_member', 'parser_matchx', 'parser_top', 'balance', 'semantics', 'bindctx', 'strfuncs', 'uomconv', 'sortfn', 'mathfuncs']

PROPS = {
    'C02': dict(
        units=['parser', 'parser_expr', 'parser_unary', 'parser_member', 'parser_matchx', 'tokenizer', 'interp_vm_g1', 'interp_vm_g2', 'interp_vm_g3', 'interp_vm_g4', 'parser_top', 'parser_match'],
        assumptions=['the Tokenizer trait is modelled by a ghost token sequence and a cursor (peek does not move, next advances by one)', 'the label counter does not overflow (2^32 labels)'],
        level_text="Every grammar level that has a parse function is proved, for every token sequence, to produce exactly the tree the CEL grammar defines: ?: loosest with a right-nesting else branch, ||, &&, the relations incl. in, + -, * / % (one next-tighter operand followed by a LEFT fold over (operator operand)*, exactly the operator set of the level), runs of ! / - applying to one member expression, postfix .name / (args) / [index] applied left to right, parentheses = the enclosed expression, match = scrutinee { case pattern: expr, ... }; the tokenizer's operator table, keyword table and whitespace skipping; the VM arm contracts fix the operand order. A failed obligation is reported as the violation.",
        not_covered=['that StringTokenizer as a whole refines the ghost token-stream model of the Tokenizer trait (peek does not move, next advances by one, location() = end of the last scanned token): assumed, so whitespace independence is proved only per token (leading whitespace is skipped and is not part of the token)', 'that an embedded f-string expression is tokenized like a top-level one (tokens_of is uninterpreted)', "each unit knows the next lower grammar level by contract only; parse_primary's and parse_match_pattern's results are additionally assumed to be functions of the tokens"],
    ),
    'C13': dict(
        units=['tokenizer', 'parser_unary'],
        assumptions=['inputs shorter than 2 GiB (the f-string brace depth counter is an i32)', 'std: from_str_radix / parse::<f64> / char::from_u32 / is_digit(16) / is_ascii_hexdigit / trim_start_matches as specified in the trampolines'],
        level_text='PARTIAL. Proved for all inputs on the real tokenizer / parser functions: (1) every escape of a quoted string literal and of a byte-string literal pushes exactly the character / byte the CEL escape denotes (one named obligation per escape: a b f n r t v, backslash, quotes; \\xHH \\uHHHH \\UHHHHHHHH = the code point of exactly that many hex digits and only if it is a Unicode scalar value; three-digit octal; raw strings and plain characters are taken literally, UTF-8 encoded in byte strings); (2) the number scanner collects exactly the characters it consumes and hands exactly that text to std: radix 16 iff the 0x marker (stripped), a trailing u/U selects the unsigned token, otherwise int or float parse of the same text; (3) keywords (true false null in match case) vs identifiers = the longest run of identifier characters; (4) parse_primary turns each literal token into the constant it carries (int literals: for values up to i64::MAX). The value std computes from a digit string (from_str_radix, parse::<f64>, char::from_u32) is assumed.',
        not_covered=['integer literals above i64::MAX wrap instead of being rejected (known, unrepaired: the repair needs a negative-literal rule so that -9223372036854775808 stays expressible; no obligation is stated for that range)', 'f-string segmentation ({ } handling) beyond "scanner stays well formed"; the dispatch from the first character to the literal sub-scanners IS covered for the prefixes (r + quote: a StringLit whose text is exactly the characters up to the next delimiter; b + quote: a ByteStringLit; a bare quote: a StringLit; operators, keywords, identifiers), not for the value of non-raw string literals as a whole (their escapes are covered one by one) nor for numbers beyond the number scanner own contract', 'what std computes: from_str_radix, str::parse::<f64> (correct rounding), char::from_u32, UTF-8 encoding are assumed'],
    ),
    'C17': dict(
        units=['parser', 'compprog', 'parser_expr', 'parser_unary', 'parser_member', 'parser_matchx', 'parser_top', 'bindctx', 'parser_match'],
        assumptions=['ProgramDetails::union_from is set union (HashSet, std)'],
        level_text="The identifier set of every node built under contract is proved to be exactly the union of its children's sets plus, for an identifier primary, its own name: add_ident, the compile! sites of the binary levels, append_result / consume_child / from_children*, the ternary (all three operands), match (scrutinee, every pattern, every arm), index expressions, list literals, calls (receiver and every argument) and check_for_const (keeps the set).",
        not_covered=['filter_from_bindings / IdentFilterIter (BindContext::is_bound IS under contract: bound as a variable, function or macro)', 'variables bound by macros (v in [1].map(v, ..)) are reported as parameters: a superset, allowed by the statement'],
    ),
    'C18': dict(
        units=['parser', 'parser_expr', 'parser_unary', 'parser_member', 'parser_matchx', 'scanner', 'tokenizer', 'parser_top', 'parser_match'],
        assumptions=['SourceRange::surrounding is the hull (min of starts, max of ends; derive(Ord) on SourceLocation)'],
        level_text="The span of every node built under contract is proved to be exactly the hull of its operands' / delimiters' spans (binary levels, ternary, unary runs, postfix chain, call, index, parentheses, list literal, match, literals and identifiers = the token span); SourceRange::surrounding is proved to be the smallest containing span (lemmas); a token's span runs from the scanner position after the leading whitespace to the position after its last character; line / column bookkeeping counts characters and resets on newline; tokenizer syntax errors carry the scanner position.",
        not_covered=['re-compiling the spanned text yields the same subtree; sibling disjointness (not stated as lemmas)', "syntax-error locations produced by the parser (only the tokenizer's are under contract)", 'match pattern spans (excluded by the property)', 'that StringTokenizer refines the ghost Tokenizer model'],
    ),
    'C09': dict(
        units=['parser', 'compprog', 'parser_expr', 'parser_unary', 'parser_member', 'interp_vm_g1', 'interp_vm_g2', 'interp_vm_g3', 'interp_vm_g4', 'interp_vm_g6', 'interp_vm_g7'],
        assumptions=['operators are functions of their operands (op2 uninterpreted; purity by Rust typing)'],
        level_text="At every fold site under contract the value computed at compile time is proved to be the one the emitted instruction computes: binary levels (op2(op, lhs, rhs) for the same op), ternary (same truthiness; a failed constant condition is the result), index, field access (only on map / object constants, only when the access succeeds), list literals and from_children* (fold iff all children constant), calls (check_for_const: replaced by a constant exactly when running the call's OWN code with the compile-time bindings succeeds); the VM arms for the same instructions (operand order, MkDict last-entry-wins, field before method).",
        not_covered=['now() / zero-argument timestamp() frozen when part of a call chain (F14, unrepaired): which functions the compile-time bindings contain is not decided by any contract', 'unbound variables inside folded macro bodies'],
    ),
    'C01': dict(
        units=ALL_UNITS, safety_only=True,
        mechanism_clauses=['too_deep_is_an_error', 'continues_the_callers_depth', 'the_body_runs_at_the_callers_depth'],
        kani_quick=[],
        kani_thorough=ARITH_FAST + CONV + MATH + POWEXP,
        level_text='Totality is the conjunction of the safety obligations of every function under contract: for each of them Verus proves, for all inputs satisfying its precondition, no arithmetic overflow, no division by zero, every index in bounds, every unwrap/expect on Some/Ok, every panic!/unreachable! unreachable, and that each call site establishes its callee\'s precondition. The claim covers exactly the functions listed in the evidence (value operators, comparisons, indexing, macros, the VM loop and stack, label resolution, the tokenizer and every parse function of the compiler, JSON binding, sort, the string / time / unit-conversion wrappers, numeric built-ins through Kani); it is not a whole-program claim.',
        not_covered=['functions not under contract: protobuf conversions, Display / Debug formatting, the internals of regex / uom / chrono-tz / serde_json, matchCaptures, zip / now and the remaining small built-ins, the #[dispatch]-generated entry points (arity and type rejection), CelContext and Program (de)serialization, python / wasm bindings',
                     'stack exhaustion by deep syntactic nesting in the parser (no depth guard to put a contract on)', 'termination (never fails to return) is not proved',
                     'protobuf-gated arms (verified configuration: type_prop + neg_index)'],
        assumptions=['Debug / Display formatting of values inside error messages does not panic'],
    ),
    'C16': dict(
        units=['wiring', 'value_arith', 'value_cmp', 'uomconv'],
        kani_quick=[],
        kani_thorough=['time_dur_plus_minus_dur'],   # the five timestamp harnesses (kani/cel_value.rs) do not finish within 40 min of CBMC on chrono's checked_add_signed: not registered
        not_covered=['calendar correctness per IANA zone and DST (chrono / chrono-tz tables, external data)', 'uomConvert: what the uom crate computes (its factors, floating point chains) and the name table Unit::from_str (a string match Verus does not take): assumed; which uom unit each CEL unit stands for, the direction of the conversion, the stone factor and the failure for unknown / incompatible units ARE under contract (unit uomconv)',
                     'timestamp arithmetic is proved over an uninterpreted chrono model (representability = chrono\'s checked_* result); only duration + / - runs the real chrono code under Kani (thorough tier): the five timestamp harnesses exceed 40 min of CBMC each (tool limit) and are not registered'],
        assumptions=['chrono checked_add_signed / checked_sub_signed / Duration::checked_add / checked_sub return None exactly when the result is not representable'],
    ),
    'C15': dict(
        units=['wiring', 'strfuncs', 'mathfuncs'],
        kani_quick=MATH + POWEXP,
        kani_thorough=[],
        not_covered=['the algebra of split/join, trim*, replace, regex semantics: properties of std / regex, not of any rscel function (assumed)',
                     'matchCaptures (iterator adapters over regex captures) and the arity/type rejection of the #[dispatch] entry points (generated by the proc macro): not under contract; replace/remove/trim*/toLower/toUpper/splitWhiteSpace/matches/matchReplace* ARE (unit strfuncs: which std / regex function on which argument, invalid pattern = error; toLower..trimEnd after mechanical expansion of string_func!)',
                     'pow: what std\'s checked_pow / powi / powf compute is assumed (checked_pow = the mathematical power when representable, None otherwise); that pow accepts exactly the exponents 0 ..= u32::MAX (int, uint, whole doubles: float_exponent and int_exponent are proved by Kani over the full domain), applies checked_pow to exactly (base, exponent) and turns None into an error IS under contract (unit mathfuncs); CBMC does not terminate on checked_pow itself'],
        assumptions=['std: checked_pow / checked_abs / checked_ilog2 / checked_ilog10 / u32::try_from / i32::try_from as documented (trampoline contracts of unit mathfuncs)'],
    ),
    'C14': dict(
        units=['interp_vm_g5', 'wiring', 'parser_unary'],
        kani_quick=CONV,
        kani_thorough=[],
        level_text='Numeric conversions: complete Kani proofs over all 64-bit inputs through the real #[dispatch] entry (thorough tier); f-string concatenation: Verus arm contract on the VM. String round trips and non-UTF-8 rejection are std behaviour behind parse/to_string/from_utf8 and are not decided.',
        not_covered=['int(string(i)) == i and the other string round trips (std parse / Display are mutually inverse: assumed; that int / uint / double of a string hand exactly that text to std\'s parser and fail when it does IS under contract)', 'what std::String::from_utf8 accepts (the wiring string(bytes) = from_utf8 or an error IS under contract)',
                     'type(T(x)) == T', '{{ }} handling of f-strings in the tokenizer (segmentation)'],
        assumptions=[],
    ),
    'C12': dict(
        units=['interp', 'macros', 'interp_vm_g0', 'interp_vm_g7', 'json', 'bindctx'],
        not_covered=['that 32 frames fit the default stack (a machine resource)', 'JSON containers below the first level (an array becomes the list of its converted elements in order, an object the map with exactly its keys and the converted values: proved one level deep, nested containers below that are only "list" / "map"); `v.iter().map(f).collect()`, `Map::keys()` and `map[key]` of serde_json are materialized stand-ins / trampolines (assumed: f on every element in order; every key once; Index panics on a missing key = its precondition); the recursive call goes through a trampoline carrying the contract the impl is verified against',
                     'CelContext program table (std HashMap); the BindContext tables ARE under contract over an abstract map (bind_* = insert-or-replace in exactly one table, get_* / is_bound look in exactly the named tables): the std HashMap behind it is assumed'],
        assumptions=['ScopedCounter RAII (the increment is undone on scope exit)'],
    ),
    'C10': dict(
        units=['preresolved', 'interp', 'interp_vm_g0', 'compprog', 'parser_expr', 'parser_unary', 'parser_match', 'parser_member', 'parser_matchx', 'parser_top', 'balance', 'parser'],
        assumptions=['HashMap<u32,usize> semantics (vstd)', 'locations[&label] rewritten to *locations.get(&label).unwrap() (std defines Index that way)'],
        not_covered=['the inductions that chain the balance step lemmas (unit balance) along the token stream: the step lemmas are proved and the parse loops are proved to emit exactly the step templates, the induction connecting the two is not stated; call / list / map / access / type-pattern code is not covered by a balance lemma', "that the opcode stack effects restated in unit balance agree with the VM arm contracts; that the compiler's labels satisfy resolve()'s precondition (unique, defined): assumed", 'PreResolvedByteCode::extend / push / FromIterator (generic IntoIterator loops): assumed'],
    ),
    'C06': dict(
        units=['value_coll', 'value_arith', 'interp_vm_g4', 'interp_vm_g5', 'interp_vm_g6', 'interp_vm_g7', 'wiring', 'parser_member', 'compprog', 'parser_unary'],
        assumptions=['HashMap<String,_> key model (axiom), Vec<CelValue>.len() <= isize::MAX (allocation limit)'],
        not_covered=['that the run-time entries the VM pops are the constants the compiler folds (the two lemmas of unit parser_unary state: IF the pairs are popped last-written first, the folded map satisfies the MkDict arm postcondition and vice versa); Range::step_by is a materialized stand-in (assumed)', 'list membership is stated over PartialEq for CelValue, whose own structural impl is outside this unit'],
    ),
    'C07': dict(
        units=['macros'],
        not_covered=['the per-element evaluation itself (spec_eval is the abstract interpreter; its own contracts are unit interp)',
                     'that the fixed key order is the lexicographic one (sorted_keys is a 3-line std sort, known here by contract only)'],
        assumptions=['CelValue::clone is the identity on the abstract value (derive(Clone))', 'Vec<CelValue> -> CelValue::List conversion is element-wise identity (std blanket Into)'],
    ),
    'C08': dict(
        units=['macros', 'value_coll', 'interp', 'interp_vm_g7'],
        not_covered=['the Index arm of the VM between the macro and the error origins (unit interp_vm_g4, checked under C06; the Access arm IS part of this check: a field access on a failed object keeps that failure, F22): the origins themselves (InterpStack::pop -> unbound-variable error, index / access -> absent-field error) are in units interp / value_coll and are part of this check'],
        assumptions=[],
    ),
    'C04': dict(
        units=['value_cmp', 'value_arith', 'builtins', 'sortfn'],
        not_covered=['the laws of the double order (IEEE comparison is uninterpreted: only that doubles are compared lhs to rhs is pinned)',
                     'list and map equality ARE under contract for containers whose element / value pairs are decided by the scalar rules (lists: different lengths are never equal, equal exactly when every pair at the same position is; maps: always a bool, different key sets are never equal, equal exactly when every value pair under the same key is); for containers holding doubles, containers, dyn objects or failures only "bool or error" (maps: bool); std::iter::zip and HashMap::into_iter are materialized stand-ins (zip: pairs of equal indices in order up to the shorter; into_iter: every entry once in an unspecified order), HashMap clone / remove / is_empty are trampolines with the assumed std behaviour',
                     'laws of the string/bytes/timestamp/duration orders are std\'s and chrono\'s Ord (assumed)',
                     'sort: that the result is ORDERED is not proved (it needs ord as a function and its transitivity, which hold only for mutually comparable elements); proved: no panic, the result is a permutation of the list, the comparison (ord of the left against the right element, failures read as less), the direction and stability of every merge step'],
        assumptions=[],
    ),
    'C05': dict(
        units=['value_cmp', 'value_arith', 'interp_vm_g0', 'interp_vm_g1', 'parser', 'parser_expr', 'parser_match', 'parser_matchx', 'balance', 'semantics', 'compprog', 'interp'],
        assumptions=[],
        not_covered=['unit semantics proves what the pinned templates COMPUTE (ternary: exactly one clause, chosen by truthiness, a failed condition is the result; ||: right operand skipped exactly when the left is truthy; &&: skipped exactly when the left is falsy or fails; match: only the first matching arm, null otherwise) for operand blocks that are single PUSH instructions and, for match, two comparison cases; lifting to arbitrary balanced operand blocks (unit balance) and to chains / any number of cases is not machine-checked', 'the small-step interpreter of unit semantics restates the VM arms (Test, Dup, Pop, Not, Or, And, Jmp, JmpCond) proved in units interp_vm_g0 / g1; their agreement is by inspection'],
    ),
    'C03': dict(
        units=['value_arith', 'interp_vm_g0'],
        kani_quick=[],
        kani_thorough=ARITH_FAST,
        twins={
            r'as (Add)::add::.*(int_result|no-overflow)': 'arith_int_add', r'as Add::add::.*uint_result': 'arith_uint_add',
            r'as Sub::sub::.*(int_result|no-overflow)': 'arith_int_sub', r'as Sub::sub::.*uint_result': 'arith_uint_sub',
            r'as Mul::mul::.*(int_result|no-overflow)': 'arith_int_mul', r'as Mul::mul::.*uint_result': 'arith_uint_mul',
            r'as Div::div::.*(int_result|requires@std|no-division)': 'arith_int_div', r'as Div::div::.*uint_result': 'arith_uint_div',
            r'as Rem::rem::.*(int_result|requires@std)': 'arith_int_rem', r'as Rem::rem::.*(uint_result|no-division)': 'arith_uint_rem',
            r'as Neg::neg::.*(int_exact|no-overflow)': 'arith_int_neg', r'as Neg::neg::.*unsigned': 'arith_uint_neg',
        },
        not_covered=['what the IEEE-754 operations compute (uninterpreted: the operator, operand order and int -> double widening of the double arms ARE pinned)'],
        assumptions=['`%` on doubles is an error in the code; the statement allows either reading, the error reading is specified'],
    ),
}
