"""Which units / Kani harnesses decide which property (DESIGN section 6)."""

I64_MIN, I64_MAX, U64_MAX = -(1 << 63), (1 << 63) - 1, (1 << 64) - 1


def matches(obs, want):
    """obs: what /verif/replay observed on the real code; want: what the property demands"""
    if want[0] == 'error':
        return obs.get('outcome') in ('error', 'compile_error')
    if want[0] == 'value':
        return obs.get('outcome') == 'value' and obs.get('type') == want[1] and str(obs.get('value')) == str(want[2])
    if want[0] == 'no-panic':
        return obs.get('outcome') in ('value', 'error', 'compile_error')
    if want[0] == 'any-of':
        return any(matches(obs, w) for w in want[1])
    return False


def tdiv(a, b):
    q = abs(a) // abs(b)
    return q if (a >= 0) == (b > 0) else -q


def trem(a, b):
    return a - b * tdiv(a, b)


def exact(kind, v):
    if v is None:
        return ('error',)
    lo, hi = (I64_MIN, I64_MAX) if kind == 'int' else (0, U64_MAX)
    return ('value', kind, v) if lo <= v <= hi else ('error',)


CV = 'rscel/src/types/cel_value.rs'
KANI = {}


def _arith(kind, rty):
    ops = {'add': ('+', lambda a, b: a + b), 'sub': ('-', lambda a, b: a - b), 'mul': ('*', lambda a, b: a * b),
           'div': ('/', lambda a, b: None if b == 0 else tdiv(a, b)), 'rem': ('%', lambda a, b: None if b == 0 else trem(a, b))}
    for name, (sym, f) in ops.items():
        KANI[f'arith_{kind}_{name}'] = dict(
            inject=CV, module='cel_value.rs', fq=f'types::cel_value::verif_kani_cv::arith_{kind}_{name}', exhaustive=True,
            functions=[f'impl {name.capitalize()} for CelValue', 'CelValue::type_prop', 'CelValue::error_prop_or'],
            claim=f'{kind} {sym} {kind} returns the exact result when representable and an error otherwise, for all 2^128 operand pairs',
            vars=[('a', rty), ('b', rty)],
            replay=dict(expr=f'a {sym} b', bind=(lambda v, kind=kind: {'a': {kind: str(v['a'])}, 'b': {kind: str(v['b'])}}),
                        oracle=(lambda v, f=f, kind=kind: exact(kind, f(v['a'], v['b'])))))
    KANI[f'arith_{kind}_neg'] = dict(
        inject=CV, module='cel_value.rs', fq=f'types::cel_value::verif_kani_cv::arith_{kind}_neg', exhaustive=True,
        functions=['impl Neg for CelValue'], claim=f'-{kind}: exact or error (negating an unsigned value is an error)',
        vars=[('a', rty)],
        replay=dict(expr='-a', bind=(lambda v, kind=kind: {'a': {kind: str(v['a'])}}),
                    oracle=(lambda v, kind=kind: exact('int', -v['a']) if kind == 'int' else ('error',))))


_arith('int', 'i64')
_arith('uint', 'u64')

ARITH_TWINS = [k for k in KANI if k.startswith('arith_')]

PROPS = {
    'C12': dict(
        units=['interp', 'macros', 'interp_vm_g0', 'interp_vm_g7'],
        not_covered=['that 32 frames fit the default stack (a machine resource)', 'JSON -> CelValue equality (serde_json is opaque)',
                     'rebinding / re-adding replaces: HashMap::insert semantics of BindContext / CelContext (std)'],
        assumptions=['ScopedCounter RAII (the increment is undone on scope exit)'],
    ),
    'C10': dict(
        units=['preresolved', 'interp', 'interp_vm_g0'],
        not_covered=['that every block the compiler emits satisfies resolve()\'s precondition (unique, defined, forward labels) and is stack-balanced: parser contracts (not reached)',
                     'PreResolvedByteCode::extend / FromIterator (generic IntoIterator loops)'],
        assumptions=['HashMap<u32,usize> semantics (vstd)', 'locations[&label] rewritten to *locations.get(&label).unwrap() (std defines Index that way)'],
    ),
    'C06': dict(
        units=['value_coll', 'value_arith', 'interp_vm_g4', 'interp_vm_g5', 'interp_vm_g6'],
        not_covered=['compile-time construction of list / map literals (parser contracts not reached); the run-time MkList / MkDict arms are under contract', 'size(): unit builtins',
                     'list membership is stated over PartialEq for CelValue, whose own structural impl is outside this unit'],
        assumptions=['HashMap<String,_> key model (axiom), Vec<CelValue>.len() <= isize::MAX (allocation limit)'],
    ),
    'C07': dict(
        units=['macros'],
        not_covered=['the per-element evaluation itself (spec_eval is the abstract interpreter; its own contracts are unit interp)',
                     'that the fixed key order is the lexicographic one (sorted_keys is a 3-line std sort, known here by contract only)'],
        assumptions=['CelValue::clone is the identity on the abstract value (derive(Clone))', 'Vec<CelValue> -> CelValue::List conversion is element-wise identity (std blanket Into)'],
    ),
    'C08': dict(
        units=['macros'],
        not_covered=['where Binding/Attribute errors originate (InterpStack::pop, index/access): unit interp / value_coll'],
        assumptions=[],
    ),
    'C04': dict(
        units=['value_cmp', 'value_arith'],
        not_covered=['double comparisons in Verus (result kind only; Kani float twins decide the order laws)',
                     'element-wise list equality and map equality (std::iter::zip / HashMap iteration have no Verus support: those two match arms are dropped, see rewrites)',
                     'laws of the string/bytes/timestamp/duration orders are std\'s and chrono\'s Ord (assumed)'],
        assumptions=['min/max/sort are decided in unit builtins (see functions_under_contract)'],
    ),
    'C05': dict(
        units=['value_cmp', 'value_arith', 'interp_vm_g0', 'interp_vm_g1'],
        not_covered=[],
        assumptions=[],
    ),
    'C03': dict(
        units=['value_arith'],
        kani_quick=[],
        kani_thorough=ARITH_TWINS,
        twins={
            r'as (Add)::add::.*(int_result|no-overflow)': 'arith_int_add', r'as Add::add::.*uint_result': 'arith_uint_add',
            r'as Sub::sub::.*(int_result|no-overflow)': 'arith_int_sub', r'as Sub::sub::.*uint_result': 'arith_uint_sub',
            r'as Mul::mul::.*(int_result|no-overflow)': 'arith_int_mul', r'as Mul::mul::.*uint_result': 'arith_uint_mul',
            r'as Div::div::.*(int_result|requires@std|no-division)': 'arith_int_div', r'as Div::div::.*uint_result': 'arith_uint_div',
            r'as Rem::rem::.*(int_result|requires@std)': 'arith_int_rem', r'as Rem::rem::.*(uint_result|no-division)': 'arith_uint_rem',
            r'as Neg::neg::.*(int_exact|no-overflow)': 'arith_int_neg', r'as Neg::neg::.*unsigned': 'arith_uint_neg',
        },
        not_covered=['IEEE-754 value of the double arms in Verus (result kind only; the Kani float twins decide the value)'],
        assumptions=['`%` on doubles is an error in the code; the statement allows either reading, the error reading is specified'],
    ),
}
