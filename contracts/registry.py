"""Which units / Kani harnesses decide which property (DESIGN section 6)."""

PROPS = {
    'C03': dict(
        units=['value_arith'],
        kani_quick=[],
        kani_thorough=[],
        twins={},
        not_covered=['IEEE-754 value of the double arms (Verus proves only the result kind; the Kani float twins decide the value)'],
        assumptions=['`%` on doubles is an error in the code; the statement allows either reading, the error reading is specified'],
    ),
}

KANI = {}
