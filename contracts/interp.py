"""unit interp: InterpStack (name resolution order), run_raw (pc bounds, depth guard, per-opcode arm contracts), call handling,
checked_jump_target  (C05 VM layer, C06 literals, C10 VM bounds, C12, C14 f-strings, C02 operand order, C01)"""
from vgen.gen import Unit, A
from . import common as C

HAS_LOOP_CONTRACTS = True
IP = 'rscel/src/interp/interp.rs'

PRELUDE = r'''
// ---- S1 stand-ins: the things the VM talks to, known here by abstract lookups only --------------------------------------
#[verifier::external_body] pub struct RsCelFunction { _p: u8 }     // dyn Fn(CelValue, Vec<CelValue>) -> CelValue
#[verifier::external_body] pub struct RsCelMacro { _p: u8 }        // dyn Fn(&Interpreter, CelValue, &[&CelByteCode]) -> CelValue
#[verifier::external_body] pub struct CelContext { _p: u8 }
#[verifier::external_body] pub struct Program { _p: u8 }
#[verifier::external_body] pub struct BindContext<'a> { _p: &'a u8 }
#[verifier::external_body] pub struct ScopedCounter { _p: u8 }
#[verifier::external_body] pub struct ScopedCounterRef<'a> { _p: &'a u8 }

pub uninterp spec fn fn_result(f: &RsCelFunction, this: CelValue, args: Seq<CelValue>) -> CelValue;
pub uninterp spec fn macro_result(m: &RsCelMacro, env: Env, this: CelValue, args: Seq<&CelByteCode>) -> CelValue;
// R1: calls through `&dyn Fn` references become calls of these trampolines (Verus cannot type `dyn Fn` with lifetimes)
impl RsCelFunction { #[verifier::external_body] pub fn call(&self, this: CelValue, args: Vec<CelValue>) -> (r: CelValue) ensures r == fn_result(self, this, args@) { unimplemented!() } }
impl RsCelMacro { #[verifier::external_body] pub fn call<'a>(&self, i: &'a Interpreter<'a>, this: CelValue, args: &[&CelByteCode]) -> (r: CelValue) ensures r == macro_result(self, i@, this, args@) { unimplemented!() } }

/// what an evaluation can see
pub struct Env { pub has_cel: bool, pub cel: int, pub has_bindings: bool, pub bind: int, pub depth: nat }
pub uninterp spec fn spec_eval(env: Env, bc: CelByteCode, resolve: bool) -> CelResult<CelValue>;
// abstract lookups (arbitrary partial maps: every name-collision configuration at once)
pub uninterp spec fn type_of(bind: int, name: Seq<char>) -> Option<CelValue>;
pub uninterp spec fn param_of(bind: int, name: Seq<char>) -> Option<CelValue>;
pub uninterp spec fn func_of<'a>(bind: int, name: Seq<char>) -> Option<&'a RsCelFunction>;
pub uninterp spec fn macro_of<'a>(bind: int, name: Seq<char>) -> Option<&'a RsCelMacro>;
pub uninterp spec fn program_of(cel: int, name: Seq<char>) -> Option<CelByteCode>;
pub uninterp spec fn constructed(type_name: Seq<char>, args: Seq<CelValue>) -> CelValue;

impl CelContext { pub uninterp spec fn view(&self) -> int; }
impl<'a> BindContext<'a> { pub uninterp spec fn view(&self) -> int; }
impl Program { pub uninterp spec fn view(&self) -> CelByteCode; }
impl ScopedCounter { pub uninterp spec fn view(&self) -> nat; }
impl<'a> ScopedCounterRef<'a> { pub uninterp spec fn view(&self) -> nat; }
impl Program { #[verifier::external_body] pub fn bytecode<'a>(&'a self) -> (r: &'a CelByteCode) ensures *r == self@ { unimplemented!() } }
impl CelContext {
    #[verifier::external_body] pub fn get_program<'a>(&'a self, name: &str) -> (r: Option<&'a Program>)
        ensures (r is Some) == (program_of(self@, name@) is Some), r is Some ==> r->Some_0@ == program_of(self@, name@)->Some_0 { unimplemented!() }
}
impl Clone for CelContext { #[verifier::external_body] fn clone(&self) -> (r: CelContext) ensures r@ == self@ { unimplemented!() } }
impl<'a> Clone for BindContext<'a> { #[verifier::external_body] fn clone(&self) -> (r: BindContext<'a>) ensures r@ == self@ { unimplemented!() } }
impl ScopedCounter {
    #[verifier::external_body] pub fn new() -> (r: ScopedCounter) ensures r@ == 0 { unimplemented!() }
    #[verifier::external_body] pub fn starting_at(count: usize) -> (r: ScopedCounter) ensures r@ == count { unimplemented!() }
    #[verifier::external_body] pub fn count(&self) -> (r: usize) ensures r == self@ { unimplemented!() }
    // RAII: the increment is undone when the returned guard is dropped, so at every entry of run_raw the counter shows the
    // number of active frames (assumed: Drop for ScopedCounterRef, verified separately by a Kani harness)
    #[verifier::external_body] pub fn inc<'a>(&'a self) -> (r: ScopedCounterRef<'a>) ensures r@ == self@ + 1 { unimplemented!() }
}
impl<'a> ScopedCounterRef<'a> { #[verifier::external_body] pub fn count(&self) -> (r: usize) ensures r == self@ { unimplemented!() } }
#[verifier::external_body] pub fn construct_type(type_name: &str, args: Vec<CelValue>) -> (r: CelValue) ensures r == constructed(type_name@, args@) { unimplemented!() }

// operators are functions of their operands (their own contracts are units value_arith / value_cmp / value_coll)
pub uninterp spec fn op2(op: ByteCode, a: CelValue, b: CelValue) -> CelValue;
pub uninterp spec fn op1(op: ByteCode, a: CelValue) -> CelValue;
impl vstd::std_specs::ops::AddSpecImpl for CelValue { open spec fn obeys_add_spec() -> bool { true } open spec fn add_req(self, rhs: CelValue) -> bool { true } open spec fn add_spec(self, rhs: CelValue) -> CelValue { op2(ByteCode::Add, self, rhs) } }
impl vstd::std_specs::ops::SubSpecImpl for CelValue { open spec fn obeys_sub_spec() -> bool { true } open spec fn sub_req(self, rhs: CelValue) -> bool { true } open spec fn sub_spec(self, rhs: CelValue) -> CelValue { op2(ByteCode::Sub, self, rhs) } }
impl vstd::std_specs::ops::MulSpecImpl for CelValue { open spec fn obeys_mul_spec() -> bool { true } open spec fn mul_req(self, rhs: CelValue) -> bool { true } open spec fn mul_spec(self, rhs: CelValue) -> CelValue { op2(ByteCode::Mul, self, rhs) } }
impl vstd::std_specs::ops::DivSpecImpl for CelValue { open spec fn obeys_div_spec() -> bool { true } open spec fn div_req(self, rhs: CelValue) -> bool { true } open spec fn div_spec(self, rhs: CelValue) -> CelValue { op2(ByteCode::Div, self, rhs) } }
impl vstd::std_specs::ops::RemSpecImpl for CelValue { open spec fn obeys_rem_spec() -> bool { true } open spec fn rem_req(self, rhs: CelValue) -> bool { true } open spec fn rem_spec(self, rhs: CelValue) -> CelValue { op2(ByteCode::Mod, self, rhs) } }
impl vstd::std_specs::ops::NegSpecImpl for CelValue { open spec fn obeys_neg_spec() -> bool { true } open spec fn neg_req(self) -> bool { true } open spec fn neg_spec(self) -> CelValue { op1(ByteCode::Neg, self) } }
impl vstd::std_specs::ops::NotSpecImpl for CelValue { open spec fn obeys_not_spec() -> bool { true } open spec fn not_req(self) -> bool { true } open spec fn not_spec(self) -> CelValue { op1(ByteCode::Not, self) } }
impl Add for CelValue { type Output = CelValue; #[verifier::external_body] fn add(self, rhs: CelValue) -> CelValue { unimplemented!() } }
impl Sub for CelValue { type Output = CelValue; #[verifier::external_body] fn sub(self, rhs: CelValue) -> CelValue { unimplemented!() } }
impl Mul for CelValue { type Output = CelValue; #[verifier::external_body] fn mul(self, rhs: CelValue) -> CelValue { unimplemented!() } }
impl Div for CelValue { type Output = CelValue; #[verifier::external_body] fn div(self, rhs: CelValue) -> CelValue { unimplemented!() } }
impl Rem for CelValue { type Output = CelValue; #[verifier::external_body] fn rem(self, rhs: CelValue) -> CelValue { unimplemented!() } }
impl Neg for CelValue { type Output = CelValue; #[verifier::external_body] fn neg(self) -> CelValue { unimplemented!() } }
impl Not for CelValue { type Output = CelValue; #[verifier::external_body] fn not(self) -> CelValue { unimplemented!() } }
impl vstd::std_specs::convert::FromSpecImpl<Vec<CelValue>> for CelValue { open spec fn obeys_from_spec() -> bool { true } open spec fn from_spec(v: Vec<CelValue>) -> Self { CelValue::List(v) } }
impl From<Vec<CelValue>> for CelValue { #[verifier::external_body] fn from(v: Vec<CelValue>) -> (r: CelValue) ensures r == CelValue::List(v) { unimplemented!() } }
impl vstd::std_specs::convert::FromSpecImpl<HashMap<String, CelValue>> for CelValue { open spec fn obeys_from_spec() -> bool { true } open spec fn from_spec(v: HashMap<String, CelValue>) -> Self { CelValue::Map(v) } }
impl<'a> vstd::std_specs::convert::IntoSpecImpl<CelStackValue<'a>> for CelValue { open spec fn obeys_into_spec() -> bool { true } open spec fn into_spec(self) -> CelStackValue<'a> { CelStackValue::Value(self) } }
impl<'a> vstd::std_specs::convert::TryIntoSpecImpl<CelValue> for CelStackValue<'a> { open spec fn obeys_try_into_spec() -> bool { false } open spec fn try_into_spec(self) -> Result<CelValue, CelError> { arbitrary() } }
impl View for CelByteCode { type V = Seq<ByteCode>; closed spec fn view(&self) -> Seq<ByteCode> { self.inner@ } }
impl<'a> Clone for RsCallable<'a> { #[verifier::external_body] fn clone(&self) -> (r: Self) ensures r == *self { unimplemented!() } }
impl PartialEq for JmpWhen { #[verifier::external_body] fn eq(&self, o: &JmpWhen) -> (r: bool) ensures r == (*self == *o) { unimplemented!() } }
pub assume_specification<T>[ <[T]>::reverse ](s: &mut [T]) ensures final(s)@ == old(s)@.reverse();

// ---- the resolution rule of C12: type name, then bound variable, then stored program (run under the same bindings), else unbound ----
pub open spec fn resolve_ident(env: Env, name: Seq<char>) -> CelResult<CelValue> {
    if env.has_bindings && type_of(env.bind, name) is Some { Ok(type_of(env.bind, name)->Some_0) }
    else if env.has_bindings && param_of(env.bind, name) is Some { Ok(param_of(env.bind, name)->Some_0) }
    else if env.has_cel && program_of(env.cel, name) is Some { spec_eval(env, program_of(env.cel, name)->Some_0, true) }
    else { Ok(CelValue::Err(CelError::Binding { symbol: arbitrary() })) }
}
/// what popping a stack entry yields
#[verifier::opaque]
pub open spec fn pop_ok<'b>(env: Env, sv: CelStackValue<'b>, r: CelResult<CelStackValue<'b>>) -> bool {
    match sv {
        CelStackValue::Value(CelValue::Ident(name)) => {
            let want = resolve_ident(env, name@);
            match want {
                Err(e) => r == Err::<CelStackValue<'b>, CelError>(e),
                Ok(CelValue::Err(CelError::Binding { .. })) if !(env.has_bindings && (type_of(env.bind, name@) is Some || param_of(env.bind, name@) is Some)) && !(env.has_cel && program_of(env.cel, name@) is Some)
                    => r is Ok && r->Ok_0 is Value && r->Ok_0->Value_0 is Err && r->Ok_0->Value_0->Err_0 is Binding,
                Ok(v) => r == Ok::<CelStackValue<'b>, CelError>(CelStackValue::Value(v)),
            }
        },
        other => r == Ok::<CelStackValue<'b>, CelError>(other),
    }
}
/// the value an entry denotes once popped as a value (bound calls are not values)
#[verifier::opaque]
pub open spec fn val_ok<'b>(env: Env, sv: CelStackValue<'b>, r: CelResult<CelValue>) -> bool {
    match sv {
        CelStackValue::BoundCall { .. } => r is Err,
        CelStackValue::Value(CelValue::Ident(name)) => {
            match resolve_ident(env, name@) {
                Err(e) => r == Err::<CelValue, CelError>(e),
                Ok(CelValue::Err(CelError::Binding { .. })) if !(env.has_bindings && (type_of(env.bind, name@) is Some || param_of(env.bind, name@) is Some)) && !(env.has_cel && program_of(env.cel, name@) is Some)
                    => r is Ok && r->Ok_0 is Err && r->Ok_0->Err_0 is Binding,
                Ok(v) => r == Ok::<CelValue, CelError>(v),
            }
        },
        CelStackValue::Value(v) => r == Ok::<CelValue, CelError>(v),
    }
}

/// exact range test of a relative jump: target = pc + dist must satisfy 0 <= target <= len
pub open spec fn jump_target_ok(pc: usize, dist: i32, len: usize, r: CelResult<usize>) -> bool {
    if 0 <= pc + dist <= len { r == Ok::<usize, CelError>((pc + dist) as usize) } else { r is Err }
}
'''


def stubbed(a):
    """the same contract, known by contract only (DESIGN 3.3)"""
    return A(ret=a.ret, requires=a.requires, ensures=a.ensures, stub=True, props=(), attrs=[x for x in a.attrs if 'decreases' not in x], spec_raw=a.spec_raw)


def build(vm=False, group=0):
    U = Unit(f'interp_vm_g{group}' if vm else 'interp')
    U.global_rewrites.append(C.DYN_REWRITE)
    U.raw(C.HEADER, 'header')
    U.raw(C.STANDINS, 'S1 stand-ins')
    C.value_types(U)
    U.extract('rscel/src/interp/types/rscallable.rs', 'enum RsCallable')
    U.extract('rscel/src/interp/types/celstackvalue.rs', 'enum CelStackValue')
    U.extract(IP, 'struct InterpStack')
    U.extract(IP, 'struct Interpreter')
    U.raw(C.DERIVED, 'assumed derived impls')
    U.raw(C.VALUE_SPECS + C.TRUTHY_SPEC, 'shared spec vocabulary')
    U.raw(C.TRAIT_FULL, 'CelValueDyn restated')
    U.raw(PRELUDE, 'interp prelude')
    U.raw(C.STD_SPECS, 'assumed std specs')
    U.raw(C.AXIOMS, 'axioms')
    U.raw(r'''
impl<'a> Interpreter<'a> {
    pub closed spec fn view(&self) -> Env {
        Env { has_cel: self.cel is Some, cel: if self.cel is Some { self.cel->Some_0@ } else { 0 },
              has_bindings: self.bindings is Some, bind: if self.bindings is Some { self.bindings->Some_0@ } else { 0 }, depth: self.depth@ }
    }
}
''', 'Interpreter view')
    U.extract(C.CE, 'impl CelError', fns={
        'runtime': A(ret='r', ensures=[('kind', 'r is Runtime')], props=('C01',)),
        'value': A(ret='r', ensures=[('kind', 'r is Value')], props=('C01',)),
        'internal': A(ret='r', ensures=[('kind', 'r is Internal')], props=('C01',)),
        'invalid_op': A(ret='r', ensures=[('kind', 'r is InvalidOp')], props=('C01',)),
        'binding': A(ret='r', ensures=[('kind', 'r is Binding')], props=('C01', 'C08', 'C12')),
        'attribute': A(ret='r', ensures=[('kind', 'r is Attribute')], props=('C01', 'C08')),
    }, others='stub')
    U.extract(C.CBC, 'impl CelByteCode', fns={'len': A(ret='r', ensures=[('def', 'r == self@.len()'), ('allocation_limit', 'r <= isize::MAX')], props=('C10', 'C01'))}, others='stub')
    U.raw(r'''
impl vstd::std_specs::core::IndexSpecImpl<usize> for CelByteCode {
    open spec fn index_req(&self, index: &usize) -> bool { *index < self@.len() }
}
''', 'index precondition: a program is indexed only inside its bounds')
    U.extract(C.CBC, 'impl Index<usize> for CelByteCode', fns={'index': A(ret='r', ensures=[('def', '*r == self@[index as int]')],
                                                                             requires=[], props=('C10', 'C01'))})
    U.extract(C.BC, 'impl JmpWhen', fns={'as_bool': A(ret='r', ensures=[('def', 'r == (self is True)')], props=('C05', 'C01'))})
    P = ('C01',)
    binop = lambda name, op: A(stub=True, ret='r', ensures=[('function_of_operands', f'r == op2(ByteCode::{op}, self, rhs)')])
    fns = C.ambient(['from_err', 'from_null', 'is_err', 'from_bool', 'true_', 'false_', 'is_null', 'is_true'])
    fns.update({
        'from_ident': A(stub=True, ret='r', ensures=[('def', 'r is Ident && r->Ident_0@ == val@')]),
        'into_result': A(ret='r', ensures=[('errors_become_failures', 'self is Err ==> r == Err::<CelValue, CelError>(self->Err_0)'), ('values', '!(self is Err) ==> r == Ok::<CelValue, CelError>(self)')], props=('C01', 'C05')),
        'or': A(stub=True, ret='r', ensures=[('function_of_operands', 'r == op2(ByteCode::Or, *self, *rhs)')]),
        'and': binop('and', 'And'), 'lt': binop('lt', 'Lt'), 'le': binop('le', 'Le'), 'gt': binop('gt', 'Gt'), 'ge': binop('ge', 'Ge'),
        'neq': binop('neq', 'Ne'), 'in_': binop('in_', 'In'),
        'index': A(stub=True, ret='r', ensures=[('function_of_operands', 'r == op2(ByteCode::Index, self, ival)')]),
    })
    U.extract(C.CV, 'impl CelValue', fns=fns, others='stub')
    C.from_impls(U, ('bool', 'CelError'))
    U.raw('\n'.join(C.FROM_SPEC_IMPLS.split('\n')[4:6]), 'From spec impls')
    U.extract(C.CV, 'impl From<HashMap<String, CelValue>> for CelValue', fns={'from': A(stub=True, ret='r', ensures=[('def', 'r == CelValue::Map(val)')])})
    U.extract(C.CV, 'impl CelValueDyn for CelValue', fns={
        'is_truthy': A(stub=True, ret='r', ensures=[('truthiness_table', 'r == spec_truthy(*self)')]),
        'eq': A(stub=True, ret='r', ensures=[('function_of_operands', 'r == op2(ByteCode::Eq, *self, *rhs_val)')]),
    }, others='stub', skip=('any_ref',))
    U.extract('rscel/src/interp/types/celstackvalue.rs', "impl<'a> CelStackValue<'a>", fns={
        'into_value': A(ret='r', ensures=[('value', 'self is Value ==> r == Ok::<CelValue, CelError>(self->Value_0)'), ('bound_call_is_not_a_value', '!(self is Value) ==> r is Err')], props=('C01', 'C12')),
        'as_value': A(ret='r', ensures=[('value', 'self is Value ==> r is Ok && *r->Ok_0 == self->Value_0'), ('bound_call_is_not_a_value', '!(self is Value) ==> r is Err')], props=('C01', 'C12')),
    }, others='stub')
    U.extract('rscel/src/interp/types/celstackvalue.rs', "impl<'a> Into<CelStackValue<'a>> for CelValue", fns={'into': A(props=('C01',))})
    U.extract('rscel/src/interp/types/celstackvalue.rs', "impl<'a> TryInto<CelValue> for CelStackValue<'a>", fns={
        'try_into': A(ret='r', ensures=[('value', 'self is Value ==> r == Ok::<CelValue, CelError>(self->Value_0)'), ('bound_call_is_not_a_value', '!(self is Value) ==> r is Err')], props=('C01',))})
    U.extract('rscel/src/context/bind_context.rs', "impl<'a> BindContext<'a>", fns={
        'get_param': A(stub=True, ret='r', ensures=[('lookup', '(r is Some) == (param_of(self@, name@) is Some) && (r is Some ==> *r->Some_0 == param_of(self@, name@)->Some_0)')]),
        'get_func': A(stub=True, ret='r', ensures=[('lookup', 'r == func_of(self@, name@)')]),
        'get_macro': A(stub=True, ret='r', ensures=[('lookup', 'r == macro_of(self@, name@)')]),
        'get_type': A(stub=True, ret='r', ensures=[('lookup', '(r is Some) == (type_of(self@, name@) is Some) && (r is Some ==> *r->Some_0 == type_of(self@, name@)->Some_0)')]),
    })

    STK = ('C12', 'C01')
    stack_fns = {
        'new': A(ret='r', ensures=[('empty', 'r.stack@.len() == 0 && r.ctx == ctx')], props=STK),
        'push': A(ensures=[('appends', 'final(self).stack@ == old(self).stack@.push(val) && final(self).ctx == old(self).ctx')], props=STK),
        'push_val': A(ensures=[('appends', 'final(self).stack@ == old(self).stack@.push(CelStackValue::Value(val)) && final(self).ctx == old(self).ctx')], props=STK),
        'pop': A(ret='r', attrs=['#[verifier::exec_allows_no_decreases_clause]'], body_begin='proof { reveal(pop_ok); }',
                 closures={0: dict(types=['CelValue'], ret="res: CelStackValue<'_>", ensures=[('wraps', 'res == CelStackValue::Value(x)')])},
                 ensures=[
            ('ctx_kept', 'final(self).ctx == old(self).ctx'),
            ('empty_stack_is_an_error', 'old(self).stack@.len() == 0 ==> r is Err && final(self).stack@ == old(self).stack@'),
            ('removes_the_top', 'old(self).stack@.len() > 0 ==> final(self).stack@ == old(self).stack@.drop_last()'),
            ('type_then_variable_then_program_else_unbound', 'old(self).stack@.len() > 0 ==> pop_ok(old(self).ctx@, old(self).stack@.last(), r)', ('C12', 'C08', 'C01')),
        ], props=STK),
        'pop_val': A(ret='r', attrs=['#[verifier::exec_allows_no_decreases_clause]'], body_begin='proof { reveal(pop_ok); reveal(val_ok); }', ensures=[
            ('ctx_kept', 'final(self).ctx == old(self).ctx'),
            ('empty_stack_is_an_error', 'old(self).stack@.len() == 0 ==> r is Err && final(self).stack@ == old(self).stack@'),
            ('removes_the_top', 'old(self).stack@.len() > 0 ==> final(self).stack@ == old(self).stack@.drop_last()'),
            ('resolved_value', 'old(self).stack@.len() > 0 ==> val_ok(old(self).ctx@, old(self).stack@.last(), r)', ('C12', 'C08', 'C01')),
        ], props=STK),
        'pop_noresolve': A(ret='r', ensures=[
            ('ctx_kept', 'final(self).ctx == old(self).ctx'),
            ('empty_stack_is_an_error', 'old(self).stack@.len() == 0 ==> r is Err && final(self).stack@ == old(self).stack@'),
            ('top_as_it_is', 'old(self).stack@.len() > 0 ==> final(self).stack@ == old(self).stack@.drop_last() && r == Ok::<CelStackValue, CelError>(old(self).stack@.last())'),
        ], props=STK),
        'pop_tryresolve': A(ret='r', ensures=[
            ('ctx_kept', 'final(self).ctx == old(self).ctx'),
            ('empty_stack_is_an_error', 'old(self).stack@.len() == 0 ==> r is Err'),
        ], props=STK),
    }
    interp_fns = {
        'new': A(ret='r', ensures=[('fresh_depth', 'r@ == (Env { has_cel: true, cel: cel@, has_bindings: true, bind: bindings@, depth: 0 })')], props=('C12', 'C01')),
        'nested_in': A(ret='r', ensures=[('continues_the_callers_depth', 'r@ == (Env { has_cel: true, cel: cel@, has_bindings: true, bind: bindings@, depth: parent@.depth })')], props=('C12', 'C01')),
        'empty': A(ret='r', ensures=[('nothing_bound', '!r@.has_cel && !r@.has_bindings && r@.depth == 0')], props=('C12', 'C01')),
        'get_param_by_name': A(ret='r', ensures=[('lookup', '(r is Some) == (self@.has_bindings && param_of(self@.bind, name@) is Some) && (r is Some ==> *r->Some_0 == param_of(self@.bind, name@)->Some_0)')], props=STK),
        'get_type_by_name': A(ret='r', ensures=[('lookup', '(r is Some) == (self@.has_bindings && type_of(self@.bind, name@) is Some) && (r is Some ==> *r->Some_0 == type_of(self@.bind, name@)->Some_0)')], props=STK),
        'get_func_by_name': A(ret='r', ensures=[('lookup', 'r == (if self@.has_bindings { func_of(self@.bind, name@) } else { None })')], props=STK),
        'get_macro_by_name': A(ret='r', ensures=[('lookup', 'r == (if self@.has_bindings { macro_of(self@.bind, name@) } else { None })')], props=STK),
        'callable_by_name': A(ret='r', ensures=[
            ('function_wins_over_macro', 'self@.has_bindings && func_of(self@.bind, name@) is Some ==> r == Ok::<RsCallable, CelError>(RsCallable::Function(func_of(self@.bind, name@)->Some_0))'),
            ('then_macro', '!(self@.has_bindings && func_of(self@.bind, name@) is Some) && self@.has_bindings && macro_of(self@.bind, name@) is Some ==> r == Ok::<RsCallable, CelError>(RsCallable::Macro(macro_of(self@.bind, name@)->Some_0))'),
            ('else_not_callable', '!(self@.has_bindings && (func_of(self@.bind, name@) is Some || macro_of(self@.bind, name@) is Some)) ==> r is Err'),
        ], props=STK),
        'checked_jump_target': A(ret='r', ensures=[('exact_range_test', 'jump_target_ok(pc, dist, len, r)')],
                                 requires=[('pc_is_an_index', 'pc <= isize::MAX && len <= isize::MAX')], props=('C10', 'C01')),
    }
    if not vm:
        interp_fns['run_raw'] = A(stub=True, ret='r', ensures=[('abstract_eval', 'r == spec_eval(self@, *prog, resolve)')])
        U.extract(IP, "impl<'a, 'b> InterpStack<'a, 'b>", fns=stack_fns)
        U.extract(IP, "impl<'a> Interpreter<'a>", fns=interp_fns)
    else:
        from . import interp_vm
        U.extract(IP, "impl<'a, 'b> InterpStack<'a, 'b>", fns={k: stubbed(v) for k, v in stack_fns.items()})
        fns = {k: stubbed(v) for k, v in interp_fns.items()}
        fns.update(interp_vm.vm_contracts(group))
        U.raw(interp_vm.SPECS, 'VM step specs')
        U.extract(IP, "impl<'a> Interpreter<'a>", fns=fns)
    U.raw(C.FOOTER, 'footer')
    return U
