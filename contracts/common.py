"""Shared prelude text, stand-ins (S1), assumed specs (R2) and shared contracts (DESIGN 3.3)."""
from vgen.gen import A

CV = 'rscel/src/types/cel_value.rs'
CE = 'rscel/src/types/cel_error.rs'
CB = 'rscel/src/types/cel_bytes.rs'
CBC = 'rscel/src/types/cel_byte_code.rs'
BC = 'rscel/src/interp/types/bytecode.rs'

HEADER = r'''
use std::ops::{Add, Div, Mul, Neg, Not, Rem, Sub};
use std::collections::HashMap;
use std::cmp::Ordering;
use std::iter::zip;
verus! {
'''

FOOTER = r'''
} // verus!
'''

# ---- S1: opaque stand-ins for types of other crates ------------------------------------------------
STANDINS = r'''
// S1 stand-ins (opaque; nothing is proved about their contents)
#[verifier::external_body] pub struct Utc { _p: u8 }
#[verifier::external_body] pub struct FixedOffset { _p: u8 }
#[verifier::external_body] #[verifier::reject_recursive_types(T)] pub struct DateTime<T> { _p: std::marker::PhantomData<T> }
#[verifier::external_body] pub struct Duration { _p: u8 }
#[verifier::external_body] pub struct DynArc { _p: u8 }          // stands for Arc<dyn CelValueDyn>
#[verifier::external_body] pub struct SyntaxError { _p: u8 }

impl<T> Clone for DateTime<T> { #[verifier::external_body] fn clone(&self) -> (r: Self) ensures r == *self { unimplemented!() } }
impl<T> Copy for DateTime<T> {}
impl Clone for Duration { #[verifier::external_body] fn clone(&self) -> (r: Self) ensures r == *self { unimplemented!() } }
impl Copy for Duration {}
impl Clone for DynArc { #[verifier::external_body] fn clone(&self) -> (r: Self) ensures r == *self { unimplemented!() } }
impl Clone for SyntaxError { #[verifier::external_body] fn clone(&self) -> (r: Self) ensures r == *self { unimplemented!() } }
'''

# derive(Clone)/derive(PartialEq) are dropped (D1); the derived impls are structural -- assumed.
DERIVED = r'''
// D1: #[derive(Clone)] is dropped by the extraction; the derived impl is assumed to be the identity on the abstract value
impl Clone for CelError { #[verifier::external_body] fn clone(&self) -> (r: Self) ensures r == *self { unimplemented!() } }
impl Clone for CelValue { #[verifier::external_body] fn clone(&self) -> (r: Self) ensures r == *self { unimplemented!() } }
impl Clone for CelBytes { #[verifier::external_body] fn clone(&self) -> (r: Self) ensures r == *self { unimplemented!() } }
impl Clone for CelByteCode { #[verifier::external_body] fn clone(&self) -> (r: Self) ensures r == *self { unimplemented!() } }
impl Clone for ByteCode { #[verifier::external_body] fn clone(&self) -> (r: Self) ensures r == *self { unimplemented!() } }
impl Clone for JmpWhen { #[verifier::external_body] fn clone(&self) -> (r: Self) ensures r == *self { unimplemented!() } }
impl std::fmt::Debug for CelValue { #[verifier::external_body] fn fmt(&self, f: &mut std::fmt::Formatter<'_>) -> std::fmt::Result { unimplemented!() } }
impl std::fmt::Display for CelValue { #[verifier::external_body] fn fmt(&self, f: &mut std::fmt::Formatter<'_>) -> std::fmt::Result { unimplemented!() } }
impl std::fmt::Debug for CelError { #[verifier::external_body] fn fmt(&self, f: &mut std::fmt::Formatter<'_>) -> std::fmt::Result { unimplemented!() } }
// formatting a CelValue / CelError for an error message is assumed not to panic (Debug/Display impls are outside the contracts)
impl vstd::std_specs::fmt::DebugSpecImpl for CelValue { open spec fn fmt_req(&self, f: &std::fmt::Formatter<'_>) -> bool { true } }
impl vstd::std_specs::fmt::DisplaySpecImpl for CelValue { open spec fn fmt_req(&self, f: &std::fmt::Formatter<'_>) -> bool { true } }
impl vstd::std_specs::fmt::DebugSpecImpl for CelError { open spec fn fmt_req(&self, f: &std::fmt::Formatter<'_>) -> bool { true } }
'''

# The global rewrite for the one type Verus cannot name
DYN_REWRITE = ('Arc<dyn CelValueDyn>', 'DynArc', 'S1: Arc<dyn CelValueDyn> (dyn with several auto traits) becomes the opaque stand-in DynArc')


def value_types(U, bytecode=True):
    """extract the data types every value-level unit needs"""
    U.extract(CV, 'type CelTimeStamp')
    U.extract(CV, 'type CelValueVec')
    U.extract(CV, 'type CelValueMap')
    U.extract(CE, 'enum CelError')
    U.extract(CE, 'type CelResult')
    U.extract(CV, 'enum CelValue')
    U.extract(CB, 'struct CelBytes')
    U.extract(CBC, 'struct CelByteCode')
    U.extract(BC, 'enum JmpWhen')
    U.extract(BC, 'enum ByteCode')


# ---- shared spec vocabulary ---------------------------------------------------------------------------
VALUE_SPECS = r'''
// ---------------- spec vocabulary (written from the property statements) ----------------
pub open spec fn i64_ok(x: int) -> bool { i64::MIN <= x <= i64::MAX }
pub open spec fn u64_ok(x: int) -> bool { 0 <= x <= u64::MAX }

pub enum NKind { I, U, F, B, Other }

pub open spec fn nkind(v: CelValue) -> NKind {
    match v {
        CelValue::Int(_) => NKind::I,
        CelValue::UInt(_) => NKind::U,
        CelValue::Float(_) => NKind::F,
        CelValue::Bool(_) => NKind::B,
        _ => NKind::Other,
    }
}

/// the number an integral operand denotes (bool counts as 0/1)
pub open spec fn int_val(v: CelValue) -> int {
    match v {
        CelValue::Int(i) => i as int,
        CelValue::UInt(u) => u as int,
        CelValue::Bool(b) => if b { 1 } else { 0 },
        _ => 0,
    }
}

/// result kind of a mixed numeric operation: int with uint gives int, bool counts as 0/1, anything with double gives double
pub open spec fn arith_kind(a: CelValue, b: CelValue) -> NKind {
    match (nkind(a), nkind(b)) {
        (NKind::F, NKind::I) | (NKind::F, NKind::U) | (NKind::F, NKind::B) | (NKind::F, NKind::F) => NKind::F,
        (NKind::I, NKind::F) | (NKind::U, NKind::F) | (NKind::B, NKind::F) => NKind::F,
        (NKind::I, NKind::I) | (NKind::I, NKind::U) | (NKind::I, NKind::B) | (NKind::U, NKind::I) | (NKind::B, NKind::I) => NKind::I,
        (NKind::U, NKind::U) | (NKind::U, NKind::B) | (NKind::B, NKind::U) => NKind::U,
        _ => NKind::Other,
    }
}
'''

# ---- R2: std functions without a vstd spec -----------------------------------------------------------
STD_SPECS = r'''
// R2: assumed specifications of std functions vstd does not cover (listed as assumptions in the evidence)
pub assume_specification<T: Clone>[ <[T] as std::borrow::ToOwned>::to_owned ](s: &[T]) -> (r: Vec<T>)
    ensures r@ == s@;   // element-wise clone; Clone of the element types used here is assumed to be the identity
pub assume_specification[ i64::checked_neg ](x: i64) -> (r: Option<i64>)
    ensures r == (if x == i64::MIN { None::<i64> } else { Some((-(x as int)) as i64) });   // validated by Kani (std_specs harness)
pub assume_specification[ <String as AsRef<str>>::as_ref ](s: &String) -> (r: &str)
    ensures r@ == s@;
pub assume_specification<T, A: std::alloc::Allocator>[ <Vec<T, A> as AsRef<[T]>>::as_ref ](v: &Vec<T, A>) -> (r: &[T])
    ensures r@ == v@;
'''
