"""Shared prelude text, stand-ins (S1), assumed specs (R2) and shared contracts (DESIGN 3.3)."""
from vgen.gen import A

CV = 'rscel/src/types/cel_value.rs'
CE = 'rscel/src/types/cel_error.rs'
CB = 'rscel/src/types/cel_bytes.rs'
CBC = 'rscel/src/types/cel_byte_code.rs'
BC = 'rscel/src/interp/types/bytecode.rs'

HEADER = r'''
use std::ops::{Add, Div, Mul, Neg, Not, Rem, Sub, Index};
use std::collections::HashMap;
use std::cmp::Ordering;
use std::iter::zip;
verus! {
global size_of usize == 8;   // the verified configuration is a 64-bit target
'''

FOOTER = r'''
} // verus!
'''

# ---- S1: opaque stand-ins for types of other crates ------------------------------------------------
STANDINS = r'''
// S1 stand-ins (opaque; nothing is proved about their contents)
#[verifier::external_body] pub struct Utc { _p: u8 }
#[verifier::external_body] pub struct FixedOffset { _p: u8 }
#[verifier::external_body] #[verifier::reject_recursive_types(T)] pub struct DateTime<T> { _p: std::marker::PhantomData<T> }
#[verifier::external_body] pub struct Duration { _p: u8 }
#[verifier::external_body] pub struct DynArc { _p: u8 }          // stands for Arc<dyn CelValueDyn>
#[verifier::external_body] pub struct SyntaxError { _p: u8 }

impl<T> Clone for DateTime<T> { #[verifier::external_body] fn clone(&self) -> (r: Self) ensures r == *self { unimplemented!() } }
impl<T> Copy for DateTime<T> {}
impl Clone for Duration { #[verifier::external_body] fn clone(&self) -> (r: Self) ensures r == *self { unimplemented!() } }
impl Copy for Duration {}
impl Clone for DynArc { #[verifier::external_body] fn clone(&self) -> (r: Self) ensures r == *self { unimplemented!() } }
impl Clone for SyntaxError { #[verifier::external_body] fn clone(&self) -> (r: Self) ensures r == *self { unimplemented!() } }
'''

# derive(Clone)/derive(PartialEq) are dropped (D1); the derived impls are structural -- assumed.
DERIVED = r'''
// D1: #[derive(Clone)] is dropped by the extraction; the derived impl is assumed to be the identity on the abstract value
impl Clone for CelError { #[verifier::external_body] fn clone(&self) -> (r: Self) ensures r == *self { unimplemented!() } }
impl Clone for CelValue { #[verifier::external_body] fn clone(&self) -> (r: Self) ensures r == *self { unimplemented!() } }
impl Clone for CelBytes { #[verifier::external_body] fn clone(&self) -> (r: Self) ensures r == *self { unimplemented!() } }
impl Clone for CelByteCode { #[verifier::external_body] fn clone(&self) -> (r: Self) ensures r == *self { unimplemented!() } }
impl Clone for ByteCode { #[verifier::external_body] fn clone(&self) -> (r: Self) ensures r == *self { unimplemented!() } }
impl Clone for JmpWhen { #[verifier::external_body] fn clone(&self) -> (r: Self) ensures r == *self { unimplemented!() } }
impl View for CelBytes { type V = Seq<u8>; closed spec fn view(&self) -> Seq<u8> { self.inner@ } }
impl std::fmt::Debug for CelValue { #[verifier::external_body] fn fmt(&self, f: &mut std::fmt::Formatter<'_>) -> std::fmt::Result { unimplemented!() } }
impl std::fmt::Display for CelValue { #[verifier::external_body] fn fmt(&self, f: &mut std::fmt::Formatter<'_>) -> std::fmt::Result { unimplemented!() } }
impl std::fmt::Debug for CelError { #[verifier::external_body] fn fmt(&self, f: &mut std::fmt::Formatter<'_>) -> std::fmt::Result { unimplemented!() } }
// formatting a CelValue / CelError for an error message is assumed not to panic (Debug/Display impls are outside the contracts)
impl vstd::std_specs::fmt::DebugSpecImpl for CelValue { open spec fn fmt_req(&self, f: &std::fmt::Formatter<'_>) -> bool { true } }
impl vstd::std_specs::fmt::DisplaySpecImpl for CelValue { open spec fn fmt_req(&self, f: &std::fmt::Formatter<'_>) -> bool { true } }
impl vstd::std_specs::fmt::DebugSpecImpl for CelError { open spec fn fmt_req(&self, f: &std::fmt::Formatter<'_>) -> bool { true } }
'''

# The global rewrite for the one type Verus cannot name
DYN_REWRITE = ('Arc<dyn CelValueDyn>', 'DynArc', 'S1: Arc<dyn CelValueDyn> (dyn with several auto traits) becomes the opaque stand-in DynArc')


def value_types(U, bytecode=True):
    """extract the data types every value-level unit needs"""
    U.extract(CV, 'type CelTimeStamp')
    U.extract(CV, 'type CelValueVec')
    U.extract(CV, 'type CelValueMap')
    U.extract(CE, 'enum CelError')
    U.extract(CE, 'type CelResult')
    U.extract(CV, 'enum CelValue')
    U.extract(CB, 'struct CelBytes')
    U.extract(CBC, 'struct CelByteCode')
    U.extract(BC, 'enum JmpWhen')
    U.extract(BC, 'enum ByteCode')


# ---- shared spec vocabulary ---------------------------------------------------------------------------
VALUE_SPECS = r'''
// ---------------- spec vocabulary (written from the property statements) ----------------
pub open spec fn i64_ok(x: int) -> bool { i64::MIN <= x <= i64::MAX }
pub open spec fn u64_ok(x: int) -> bool { 0 <= x <= u64::MAX }

pub enum NKind { I, U, F, B, Other }

pub open spec fn nkind(v: CelValue) -> NKind {
    match v {
        CelValue::Int(_) => NKind::I,
        CelValue::UInt(_) => NKind::U,
        CelValue::Float(_) => NKind::F,
        CelValue::Bool(_) => NKind::B,
        _ => NKind::Other,
    }
}

/// the number an integral operand denotes (bool counts as 0/1)
pub open spec fn int_val(v: CelValue) -> int {
    match v {
        CelValue::Int(i) => i as int,
        CelValue::UInt(u) => u as int,
        CelValue::Bool(b) => if b { 1 } else { 0 },
        _ => 0,
    }
}

/// result kind of a mixed numeric operation: int with uint gives int, bool counts as 0/1, anything with double gives double
pub open spec fn arith_kind(a: CelValue, b: CelValue) -> NKind {
    match (nkind(a), nkind(b)) {
        (NKind::F, NKind::I) | (NKind::F, NKind::U) | (NKind::F, NKind::B) | (NKind::F, NKind::F) => NKind::F,
        (NKind::I, NKind::F) | (NKind::U, NKind::F) | (NKind::B, NKind::F) => NKind::F,
        (NKind::I, NKind::I) | (NKind::I, NKind::U) | (NKind::I, NKind::B) | (NKind::U, NKind::I) | (NKind::B, NKind::I) => NKind::I,
        (NKind::U, NKind::U) | (NKind::U, NKind::B) | (NKind::B, NKind::U) => NKind::U,
        _ => NKind::Other,
    }
}
/// the double an integer converts to (`as f64`: IEEE round-to-nearest of that number): ASSUMED, not interpreted
pub uninterp spec fn int_f64(v: int) -> f64;
pub trait AsMathInt { spec fn math(&self) -> int; }
impl AsMathInt for i64 { open spec fn math(&self) -> int { *self as int } }
impl AsMathInt for u64 { open spec fn math(&self) -> int { *self as int } }
#[verifier::external_body] pub fn to_f64<T: AsMathInt>(v: T) -> (r: f64) ensures r == int_f64(v.math()) { unimplemented!() }
'''

# ---- R2: std integer operations rscel does not use today (specs from the std documentation; assumed) ---------------------------------
# Present in unit value_arith only, so that an arithmetic arm rewritten through one of them is decided against its postcondition
# instead of being rejected by Verus ("not supported").
STD_INT_SPECS = r'''
pub assume_specification[ i64::wrapping_neg ](x: i64) -> (r: i64)
    ensures r == (if x == i64::MIN { i64::MIN } else { (-(x as int)) as i64 });
pub assume_specification[ i64::wrapping_abs ](x: i64) -> (r: i64)
    ensures r == (if x == i64::MIN { i64::MIN } else if x < 0 { (-(x as int)) as i64 } else { x });
pub assume_specification[ i64::unsigned_abs ](x: i64) -> (r: u64)
    ensures r as int == (if x < 0 { -(x as int) } else { x as int });
pub assume_specification[ i64::checked_abs ](x: i64) -> (r: Option<i64>)
    ensures r == (if x == i64::MIN { None::<i64> } else if x < 0 { Some((-(x as int)) as i64) } else { Some(x) });
pub assume_specification[ i64::saturating_add ](x: i64, y: i64) -> (r: i64)
    ensures r as int == (if x + y > i64::MAX { i64::MAX as int } else if x + y < i64::MIN { i64::MIN as int } else { x + y });
pub assume_specification[ i64::saturating_sub ](x: i64, y: i64) -> (r: i64)
    ensures r as int == (if x - y > i64::MAX { i64::MAX as int } else if x - y < i64::MIN { i64::MIN as int } else { x - y });
'''

# ---- R2: std functions without a vstd spec -----------------------------------------------------------
STD_SPECS = r'''
// R2: assumed specifications of std functions vstd does not cover (listed as assumptions in the evidence)
pub assume_specification<T: Clone>[ <[T] as std::borrow::ToOwned>::to_owned ](s: &[T]) -> (r: Vec<T>)
    ensures r@ == s@;   // element-wise clone; Clone of the element types used here is assumed to be the identity
pub assume_specification[ i64::checked_neg ](x: i64) -> (r: Option<i64>)
    ensures r == (if x == i64::MIN { None::<i64> } else { Some((-(x as int)) as i64) });   // validated by Kani (std_specs harness)
pub assume_specification[ <String as AsRef<str>>::as_ref ](s: &String) -> (r: &str)
    ensures r@ == s@;
pub assume_specification<T, A: std::alloc::Allocator>[ <Vec<T, A> as AsRef<[T]>>::as_ref ](v: &Vec<T, A>) -> (r: &[T])
    ensures r@ == v@;
'''


# ---- shared contracts (DESIGN 3.3): verified in unit value_arith, assumed (same text, stub) elsewhere -----------------
TYPE_PROP_ENS = [
            ('kinds_int_uint', 'nkind(lhs) is I && nkind(rhs) is U && i64_ok(int_val(rhs)) ==> r.0 == lhs && r.1 == CelValue::Int(int_val(rhs) as i64)'),
            ('kinds_uint_int', 'nkind(lhs) is U && nkind(rhs) is I && i64_ok(int_val(lhs)) ==> r.1 == rhs && r.0 == CelValue::Int(int_val(lhs) as i64)'),
            ('unrepresentable_uint_kept', '((nkind(lhs) is I && nkind(rhs) is U) || (nkind(lhs) is U && nkind(rhs) is I)) && !(i64_ok(int_val(lhs)) && i64_ok(int_val(rhs))) ==> r.0 == lhs && r.1 == rhs'),
            ('bool_counts_as_0_1', 'nkind(lhs) is I && nkind(rhs) is B ==> r.0 == lhs && r.1 == CelValue::Int(int_val(rhs) as i64)'),
            ('bool_counts_as_0_1_u', 'nkind(lhs) is U && nkind(rhs) is B ==> r.0 == lhs && r.1 == CelValue::UInt(int_val(rhs) as u64)'),
            ('bool_lhs_int', 'nkind(lhs) is B && nkind(rhs) is I ==> r.1 == rhs && r.0 == CelValue::Int(int_val(lhs) as i64)'),
            ('bool_lhs_uint', 'nkind(lhs) is B && nkind(rhs) is U ==> r.1 == rhs && r.0 == CelValue::UInt(int_val(lhs) as u64)'),
            ('same_kind_untouched', '(nkind(lhs) == nkind(rhs) || nkind(lhs) is Other || nkind(rhs) is Other) ==> r.0 == lhs && r.1 == rhs'),
            ('double_wins', '(nkind(lhs) is F && !(nkind(rhs) is Other)) || (nkind(rhs) is F && !(nkind(lhs) is Other)) ==> r.0 is Float && r.1 is Float'),
            ('double_widening_is_the_same_number_l', 'nkind(rhs) is F && (nkind(lhs) is I || nkind(lhs) is U) ==> r.0 == CelValue::Float(int_f64(int_val(lhs)))'),
            ('double_widening_is_the_same_number_r', 'nkind(lhs) is F && (nkind(rhs) is I || nkind(rhs) is U) ==> r.1 == CelValue::Float(int_f64(int_val(rhs)))'),
            ('double_operand_kept_l', 'nkind(lhs) is F ==> r.0 == lhs'),
            ('double_operand_kept_r', 'nkind(rhs) is F ==> r.1 == rhs'),
        ]


TO_F64 = lambda v: (f'({v} as f64)', f'to_f64({v})', 'R2: int -> double cast (Verus leaves `as f64` unspecified) -> trampoline over the uninterpreted int_f64 (assumed: the IEEE conversion of that number)')


def type_prop_contract(stub=False):
    return A(ret='r', ensures=TYPE_PROP_ENS, props=('C03', 'C04', 'C01'), stub=stub, rewrites=[] if stub else [TO_F64('l'), TO_F64('i'), TO_F64('u')])


def err_prop_contract(stub=False):
    return A(
        ret='r',
        requires=[('closure_pre', '!(self is Err) && !(rhs is Err) ==> f.requires((self, rhs))')],
        ensures=[
            ('left_error_wins', 'self is Err ==> r == self'),
            ('right_error', '!(self is Err) && rhs is Err ==> r == rhs'),
            ('otherwise_f', '!(self is Err) && !(rhs is Err) ==> f.ensures((self, rhs), r)'),
        ],
        props=('C03', 'C01', 'C04', 'C05', 'C06'), stub=stub)


def simple_ctor(body, stub=False):
    return A(ret='r', ensures=[('def', body)], props=('C01',), stub=stub)


CTORS = {
    'from_int': 'r == CelValue::Int(val)',
    'from_uint': 'r == CelValue::UInt(val)',
    'from_float': 'r == CelValue::Float(val)',
    'from_bool': 'r == CelValue::Bool(val)',
    'from_err': 'r == CelValue::Err(val)',
    'true_': 'r == CelValue::Bool(true)',
    'false_': 'r == CelValue::Bool(false)',
    'from_null': 'r == CelValue::Null',
    'is_err': 'r == (self is Err)',
}


def ctor_fns(names, stub=True):
    return {n: simple_ctor(CTORS[n], stub=stub) for n in names}


FROM_SPEC_IMPLS = r'''
impl vstd::std_specs::convert::FromSpecImpl<i64> for CelValue { open spec fn obeys_from_spec() -> bool { true } open spec fn from_spec(v: i64) -> Self { CelValue::Int(v) } }
impl vstd::std_specs::convert::FromSpecImpl<u64> for CelValue { open spec fn obeys_from_spec() -> bool { true } open spec fn from_spec(v: u64) -> Self { CelValue::UInt(v) } }
impl vstd::std_specs::convert::FromSpecImpl<f64> for CelValue { open spec fn obeys_from_spec() -> bool { true } open spec fn from_spec(v: f64) -> Self { CelValue::Float(v) } }
impl vstd::std_specs::convert::FromSpecImpl<bool> for CelValue { open spec fn obeys_from_spec() -> bool { true } open spec fn from_spec(v: bool) -> Self { CelValue::Bool(v) } }
impl vstd::std_specs::convert::FromSpecImpl<CelError> for CelValue { open spec fn obeys_from_spec() -> bool { true } open spec fn from_spec(v: CelError) -> Self { CelValue::Err(v) } }
'''


def from_impls(U, which=('i64', 'u64', 'f64', 'bool'), stub=False):
    body = {'i64': 'r == CelValue::Int(val)', 'u64': 'r == CelValue::UInt(val)', 'f64': 'r == CelValue::Float(val)', 'bool': 'r == CelValue::Bool(val)',
            'CelError': 'r == CelValue::Err(value)'}
    for t in which:
        U.extract(CV, f'impl From<{t}> for CelValue', fns={'from': simple_ctor(body[t])})


# ---- axioms (each one is an assumption listed in the evidence); exactly one module-level `broadcast use` per unit -------
AXIOMS = r'''
pub mod ax { use super::*; use vstd::prelude::*;
// the sequence an IntoIterator<Item = u8> yields; assumed for Vec<u8>: its elements in order
pub uninterp spec fn into_iter_seq<T>(t: T) -> Seq<u8>;
pub broadcast axiom fn axiom_vec_into_iter_seq(v: Vec<u8>) ensures #[trigger] into_iter_seq::<Vec<u8>>(v) == v@;
// String keys hash and compare consistently (vstd only knows this for primitive keys): HashMap<String, _> then views as Map<String, _>
pub broadcast axiom fn axiom_string_key_model() ensures #[trigger] vstd::std_specs::hash::obeys_key_model::<String>();
// looking a String-keyed map up by the characters of the key (a String is determined by its character sequence)
pub uninterp spec fn map_lookup(m: Map<String, CelValue>, k: Seq<char>) -> Option<CelValue>;
pub broadcast axiom fn axiom_map_lookup(m: Map<String, CelValue>, ks: String)
    ensures #[trigger] map_lookup(m, ks@) == (if m.contains_key(ks) { Some(m[ks]) } else { None::<CelValue> });
// a Vec of a non-zero-sized element type never holds more than isize::MAX elements (Rust's allocation limit)
pub broadcast axiom fn axiom_vec_celvalue_len(v: Vec<CelValue>) ensures #[trigger] v@.len() <= isize::MAX;
pub broadcast axiom fn axiom_vec_bytecode_len(v: Vec<ByteCode>) ensures #[trigger] v@.len() <= isize::MAX;
}
pub use ax::{into_iter_seq, map_lookup};
broadcast use {vstd::std_specs::hash::group_hash_axioms, ax::axiom_string_key_model, ax::axiom_vec_into_iter_seq, ax::axiom_map_lookup, ax::axiom_vec_celvalue_len, ax::axiom_vec_bytecode_len};
'''


TRUTHY_SPEC = r'''
/// truthiness, from the statement: non-zero numbers, true, non-empty strings/bytes/lists/maps, types, timestamps and durations are
/// truthy; zero, false, empties, null and failures are not (values of kinds the statement does not list -- idents, code blocks -- are not)
pub uninterp spec fn f64_is_zero(f: f64) -> bool;
pub uninterp spec fn dyn_truthy(d: DynArc) -> bool;
pub open spec fn spec_truthy(v: CelValue) -> bool {
    match v {
        CelValue::Int(i) => i != 0,
        CelValue::UInt(u) => u != 0,
        CelValue::Float(f) => !f64_is_zero(f),
        CelValue::Bool(b) => b,
        CelValue::String(s) => s@.len() != 0,
        CelValue::Bytes(b) => b@.len() != 0,
        CelValue::List(l) => l@.len() != 0,
        CelValue::Map(m) => m@.len() != 0,
        CelValue::Null => false,
        CelValue::Type(_) => true,
        CelValue::TimeStamp(_) => true,
        CelValue::Duration(_) => true,
        CelValue::Dyn(d) => dyn_truthy(d),
        CelValue::Err(_) => false,
        _ => false,
    }
}

'''


# the CelValueDyn trait restated in full (minus supertraits and any_ref); DynArc = Arc<dyn CelValueDyn>
TRAIT_FULL = r'''
pub trait CelValueDyn {
    fn as_type(&self) -> CelValue;
    fn access(&self, key: &str) -> CelValue;
    fn eq(&self, rhs: &CelValue) -> CelValue;
    fn is_truthy(&self) -> bool;
}
impl DynArc {
    #[verifier::external_body] pub fn as_type(&self) -> CelValue { unimplemented!() }
    #[verifier::external_body] pub fn access(&self, key: &str) -> CelValue { unimplemented!() }
    #[verifier::external_body] pub fn eq(&self, rhs: &CelValue) -> CelValue { unimplemented!() }
    #[verifier::external_body] pub fn is_truthy(&self) -> (r: bool) ensures r == dyn_truthy(*self) { unimplemented!() }
}
'''

CTORS.update({
    'from_string': 'r == CelValue::String(val)',
    'is_null': 'r == (self is Null)',
    'is_true': 'r == (self == CelValue::Bool(true))',
    'from_list': 'r == CelValue::List(val)',
    'from_map': 'r == CelValue::Map(val)',
    'from_timestamp': 'r == CelValue::TimeStamp(val)',
    'from_duration': 'r == CelValue::Duration(val)',
})


def ambient(names=None):
    """contract-only stubs of the trivial CelValue helpers (their bodies are verified in units value_arith / value_cmp)"""
    names = names or list(CTORS)
    return {n: simple_ctor(CTORS[n], stub=True) for n in names}
