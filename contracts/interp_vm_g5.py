"""run_raw, arm-contract group 5 (see interp_vm.py)"""
from . import interp_vm
HAS_LOOP_CONTRACTS = True


def build():
    return interp_vm.build(group=5)
