"""unit mathfuncs: the math built-ins pow / abs / lg / log (+ the identity overloads of ceil / floor / round) against the mathematical
functions they name.  Integer power is vstd-free: `ipow` is defined here by recursion; std's checked_pow / checked_abs / checked_ilog*
are trampolines with the std behaviour as their (assumed) contract, so what is proved is: which exponents are accepted, that the result is
exact or an error (never wrapped, never saturated), which std function is applied to which argument (C15, C01)."""
from vgen.gen import Unit, A
from . import common as C

M = 'rscel/src/context/default_funcs/math/'
P = ('C15', 'C01')

PRELUDE = r'''
pub open spec fn ipow(b: int, e: nat) -> int decreases e { if e == 0 { 1 } else { b * ipow(b, (e - 1) as nat) } }
/// floor(log_base n) for n >= 1: the k with base^k <= n < base^(k+1)
pub open spec fn is_ilog(base: int, n: int, k: int) -> bool { 0 <= k && ipow(base, k as nat) <= n < ipow(base, (k + 1) as nat) }
pub trait IntLike: Sized + Copy {
    spec fn val(self) -> int;
    spec fn fits(v: int) -> bool;
}
impl IntLike for i64 { open spec fn val(self) -> int { self as int } open spec fn fits(v: int) -> bool { i64::MIN <= v <= i64::MAX } }
impl IntLike for u64 { open spec fn val(self) -> int { self as int } open spec fn fits(v: int) -> bool { 0 <= v <= u64::MAX } }
// ---- std integer functions (assumed: the behaviour std documents) ---------------------------------------------------------------
#[verifier::external_body] pub fn s_checked_pow<T: IntLike>(b: T, e: u32) -> (r: Option<T>)
    ensures (match r { Some(v) => v.val() == ipow(b.val(), e as nat), None => !T::fits(ipow(b.val(), e as nat)) }) { unimplemented!() }
#[verifier::external_body] pub fn s_checked_abs(n: i64) -> (r: Option<i64>)
    ensures n == i64::MIN ==> r is None, n != i64::MIN ==> r == Some(if n < 0 { (-n) as i64 } else { n }) { unimplemented!() }
#[verifier::external_body] pub fn s_checked_ilog2<T: IntLike>(n: T) -> (r: Option<u32>)
    ensures n.val() <= 0 ==> r is None, n.val() > 0 ==> r is Some && is_ilog(2, n.val(), r->Some_0 as int) && r->Some_0 < 64 { unimplemented!() }
#[verifier::external_body] pub fn s_checked_ilog10<T: IntLike>(n: T) -> (r: Option<u32>)
    ensures n.val() <= 0 ==> r is None, n.val() > 0 ==> r is Some && is_ilog(10, n.val(), r->Some_0 as int) && r->Some_0 < 20 { unimplemented!() }
#[verifier::external_body] pub fn s_ok_or_else<T, E, F: FnOnce() -> E>(o: Option<T>, f: F) -> (r: Result<T, E>)
    ensures o is Some ==> r is Ok && r->Ok_0 == o->Some_0, o is None ==> r is Err { unimplemented!() }
// TryInto<u32> of the integer types (std): the same number when it lies in 0 ..= u32::MAX, an error otherwise
pub trait ToU32: Sized { spec fn num(self) -> int; }
impl ToU32 for i64 { open spec fn num(self) -> int { self as int } }
impl ToU32 for u64 { open spec fn num(self) -> int { self as int } }
#[verifier::external_body] pub struct TryFromIntError { _p: u8 }
#[verifier::external_body] pub fn s_try_into_u32<T: ToU32>(n: T) -> (r: Result<u32, TryFromIntError>)
    ensures 0 <= n.num() <= u32::MAX ==> r is Ok && r->Ok_0 as int == n.num(), !(0 <= n.num() <= u32::MAX) ==> r is Err { unimplemented!() }
#[verifier::external_body] pub fn s_map_err<T, E, F, O: FnOnce(E) -> F>(r: Result<T, E>, f: O) -> (out: Result<T, F>)
    ensures r is Ok ==> out is Ok && out->Ok_0 == r->Ok_0, r is Err ==> out is Err { unimplemented!() }
#[verifier::external_body] pub fn s_i32_try_from<T: ToU32>(n: T) -> (r: Result<i32, TryFromIntError>)
    ensures i32::MIN <= n.num() <= i32::MAX ==> r is Ok && r->Ok_0 as int == n.num(), !(i32::MIN <= n.num() <= i32::MAX) ==> r is Err { unimplemented!() }
// ---- IEEE functions: uninterpreted (what they compute is the platform's; which one is applied to which argument is pinned) ---------
pub uninterp spec fn f_powi(b: f64, e: i32) -> f64;
pub uninterp spec fn f_powf(b: f64, e: f64) -> f64;
pub uninterp spec fn f_sqrt(a: f64) -> f64;
pub uninterp spec fn f_abs(a: f64) -> f64;
pub uninterp spec fn f_log2(a: f64) -> f64;
pub uninterp spec fn f_log10(a: f64) -> f64;
pub uninterp spec fn f_of_int(a: int) -> f64;
#[verifier::external_body] pub fn s_powi(b: f64, e: i32) -> (r: f64) ensures r == f_powi(b, e) { unimplemented!() }
#[verifier::external_body] pub fn s_powf(b: f64, e: f64) -> (r: f64) ensures r == f_powf(b, e) { unimplemented!() }
#[verifier::external_body] pub fn s_sqrt(a: f64) -> (r: f64) ensures r == f_sqrt(a) { unimplemented!() }
#[verifier::external_body] pub fn s_abs(a: f64) -> (r: f64) ensures r == f_abs(a) { unimplemented!() }
#[verifier::external_body] pub fn s_log2(a: f64) -> (r: f64) ensures r == f_log2(a) { unimplemented!() }
#[verifier::external_body] pub fn s_log10(a: f64) -> (r: f64) ensures r == f_log10(a) { unimplemented!() }
#[verifier::external_body] pub fn to_f64<T: ToU32>(a: T) -> (r: f64) ensures r == f_of_int(a.num()) { unimplemented!() }
/// the exponent a double denotes for an integer base: Some(e) iff it is a whole number in 0 ..= u32::MAX (what `float_exponent`
/// computes is proved on the real function by the Kani harnesses pow_float_exponent_*; here it is known by this name only)
pub uninterp spec fn whole_u32(f: f64) -> Option<u32>;
pub open spec fn exact_pow<T: IntLike>(b: T, e: u32, r: CelResult<T>) -> bool {
    if T::fits(ipow(b.val(), e as nat)) { r is Ok && r->Ok_0.val() == ipow(b.val(), e as nat) } else { r is Err }
}
'''

FLOAT_EXP = "pub fn float_exponent(n2: f64) -> (r: CelResult<u32>) ensures (match whole_u32(n2) { Some(e) => r == Ok::<u32, CelError>(e), None => r is Err })"

TABLE = {'checked_pow': 's_checked_pow', 'ok_or_else': 's_ok_or_else', 'try_into': 's_try_into_u32', 'map_err': 's_map_err', 'powi': 's_powi', 'powf': 's_powf',
         'checked_abs': 's_checked_abs', 'checked_ilog2': 's_checked_ilog2', 'checked_ilog10': 's_checked_ilog10', 'sqrt': 's_sqrt', 'abs': 's_abs',
         'log2': 's_log2', 'log10': 's_log10'}
CLOSURE = ('|_|', '|_e|', 'Verus does not accept the `_` pattern as a closure parameter')


def int_pow(expo):
    """integer base: the exponent must denote a number in 0 ..= u32::MAX, the result is exact or an error"""
    return A(ret='r', ensures=[('bad_exponent_is_an_error', f'{expo} is None ==> r is Err'),
                               ('exact_or_error', f'{expo} is Some ==> exact_pow(n1, {expo}->Some_0, r)')], method_table=TABLE, props=P)


INT_E = '(if 0 <= n2 <= u32::MAX { Some(n2 as u32) } else { None::<u32> })'


def float_pow(ty):
    a = A(ret='r', ensures=[('powi_for_exponents_within_i32', f'i32::MIN <= n2 <= i32::MAX ==> r == f_powi(n1, n2 as i32)'),
                            ('powf_of_the_widened_exponent_otherwise', f'!(i32::MIN <= n2 <= i32::MAX) ==> r == f_powf(n1, f_of_int(n2 as int))')],
          method_table=TABLE, props=P,
          rewrites=[('i32::try_from(n2)', 's_i32_try_from(n2)', 'R2m: i32::try_from -> trampoline with the std behaviour (the same number when it fits, an error otherwise)'),
                    ('n2 as f64', 'to_f64(n2)', 'R2: int -> double cast -> trampoline (Verus leaves `as f64` unspecified)')])
    return a


def build():
    U = Unit('mathfuncs')
    U.global_rewrites.append(C.DYN_REWRITE)
    U.raw(C.HEADER, 'header')
    U.raw(C.STANDINS, 'S1 stand-ins')
    C.value_types(U)
    U.raw(C.DERIVED, 'assumed derived impls')
    U.raw(PRELUDE, 'integer power / logarithm specs, std trampolines, uninterpreted IEEE functions')
    U.raw(C.STD_SPECS, 'assumed std specs')
    U.raw(C.AXIOMS, 'axioms')
    U.extract(C.CE, 'impl CelError', fns={'value': A(ret='r', ensures=[('kind', 'r is Value')], props=('C01',))}, others='stub')
    U.raw('pub mod pow { use super::*;', 'file module')
    U.extract(M + 'pow.rs', 'fn int_exponent', annot=A(
        ret='r', ensures=[('the_same_number_when_it_is_a_u32_else_an_error', '0 <= n2.num() <= u32::MAX ==> r is Ok && r->Ok_0 as int == n2.num()'),
                          ('out_of_range_is_an_error', '!(0 <= n2.num() <= u32::MAX) ==> r is Err')],
        method_table=TABLE, props=P,
        rewrites=[('T: TryInto<u32>', 'T: TryInto<u32> + ToU32', 'R2: the generic bound gains the spec trait that names the number (TryInto<u32> has no vstd spec for a generic T)'), CLOSURE]))
    U.extract(M + 'pow.rs', 'fn float_exponent', annot=A(stub=True, ret='r', ensures=[('PROVED_BY_KANI_whole_numbers_in_u32_range', '(match whole_u32(n2) { Some(e) => r == Ok::<u32, CelError>(e), None => r is Err })')]))
    U.extract(M + 'pow.rs', 'fn overflow', annot=A(ret='r', ensures=[('kind', 'r is Value')], props=('C01',)))
    U.extract(M + 'pow.rs', 'mod methods', qual_prefix='pow', fns={
        'pow#0': int_pow(INT_E), 'pow#1': int_pow(INT_E), 'pow#2': int_pow('whole_u32(n2)'),
        'pow#3': int_pow(INT_E), 'pow#4': int_pow(INT_E), 'pow#5': int_pow('whole_u32(n2)'),
        'pow#6': float_pow('i64'), 'pow#7': float_pow('u64'),
        'pow#8': A(ret='r', ensures=[('powf', 'r == f_powf(n1, n2)')], method_table=TABLE, props=P),
    })
    U.raw('}', 'end file module')
    U.raw('pub mod abs { use super::*;', 'file module')
    U.extract(M + 'abs.rs', 'mod methods', qual_prefix='abs', fns={
        'abs#0': A(ret='r', ensures=[('absolute_value_or_an_error_for_the_one_unrepresentable', 'n == i64::MIN ==> r is Err'), ('exact', 'n != i64::MIN ==> r is Ok && r->Ok_0 as int == (if n < 0 { -(n as int) } else { n as int })')],
                   method_table=TABLE, props=P),
        'abs#1': A(ret='r', ensures=[('identity', 'r == n')], props=P),
        'abs#2': A(ret='r', ensures=[('ieee_fabs', 'r == f_abs(n)')], method_table=TABLE, props=P),
    })
    U.raw('}', 'end file module')

    def ilog(name, base, fl, k):
        U.raw(f'pub mod {name} {{ use super::*;', 'file module')
        U.extract(M + f'{name}.rs', 'mod methods', qual_prefix=name, fns={
            f'{name}#0': A(ret='r', ensures=[('not_positive_is_an_error', 'n <= 0 ==> r is Err'), ('floor_of_the_logarithm', f'n > 0 ==> r is Ok && is_ilog({base}, n as int, r->Ok_0 as int)')], method_table=TABLE, props=P),
            f'{name}#1': A(ret='r', ensures=[('zero_is_an_error', 'n == 0 ==> r is Err'), ('floor_of_the_logarithm', f'n > 0 ==> r is Ok && is_ilog({base}, n as int, r->Ok_0 as int)')], method_table=TABLE, props=P),
            f'{name}#2': A(ret='r', ensures=[('ieee', f'r == {fl}(n)')], method_table=TABLE, props=P),
        })
        U.raw('}', 'end file module')
    ilog('lg', 2, 'f_log2', 64)
    ilog('log', 10, 'f_log10', 20)
    U.raw('pub mod sqrt { use super::*;', 'file module')
    U.extract(M + 'sqrt.rs', 'mod methods', qual_prefix='sqrt', fns={
        'sqrt#0': A(ret='r', ensures=[('sqrt_of_the_widened_number', 'r == f_sqrt(f_of_int(n as int))')], method_table=TABLE, props=P, rewrites=[('(n as f64)', 'to_f64(n)', 'R2: int -> double cast -> trampoline')]),
        'sqrt#1': A(ret='r', ensures=[('sqrt_of_the_widened_number', 'r == f_sqrt(f_of_int(n as int))')], method_table=TABLE, props=P, rewrites=[('(n as f64)', 'to_f64(n)', 'R2: int -> double cast -> trampoline')]),
        'sqrt#2': A(ret='r', ensures=[('ieee_sqrt', 'r == f_sqrt(n)')], method_table=TABLE, props=P),
    })
    U.raw('}', 'end file module')
    for name in ('ceil', 'floor', 'round'):
        U.raw(f'pub mod {name} {{ use super::*;', 'file module')
        U.extract(M + f'{name}.rs', 'mod methods', qual_prefix=name, fns={
            f'{name}#0': A(ret='r', ensures=[('identity_on_integers', 'r == n')], props=P),
            f'{name}#1': A(ret='r', ensures=[('identity_on_integers', 'r == n')], props=P),
            f'{name}#2': A(stub=True),
        })
        U.raw('}', 'end file module')
    U.raw(C.FOOTER, 'footer')
    return U
