"""unit semantics: what the compiler's jump templates COMPUTE when run by the VM (C05: laziness and failure absorption of ?:, ||, &&, match).
Pure lemmas over the SAME template spec functions that are the postconditions of the real parse functions (sliced from the parser units),
instantiated with one-instruction operand blocks `PUSH v` (an operand block is balanced and jump-closed -- unit `balance` -- so for the
control flow around it it behaves like the instruction that pushes its value).  `exec` is a small-step interpreter of pre-resolved code that
mirrors the VM arms proved in units interp_vm_g0 / g1 (Test, Dup, Pop, Not, Or, And, Jmp, JmpCond incl. its treatment of failed values) and
records which code points it executed; laziness = the operand's PUSH is not in that trace."""
from vgen.gen import Unit, A
from . import common as C
from . import pshared as S
from . import parser as P
from . import parser_expr as PE
from . import parser_match as PM
from .balance import slice_fn

HAS_LOOP_CONTRACTS = False

MODEL = r'''
// ---- values (restated from the contracts of units value_cmp / interp_vm_g0,g1) ------------------------------------------------------
/// TEST: a failure stays a failure, anything else becomes its truthiness
pub open spec fn test_v(v: CelValue) -> CelValue { if v is Err { v } else { CelValue::Bool(spec_truthy(v)) } }
/// NOT: a failure stays a failure, anything else becomes the negation of its truthiness
pub open spec fn not_v(v: CelValue) -> CelValue { if v is Err { v } else { CelValue::Bool(!spec_truthy(v)) } }
/// OR / AND of two operand values (lhs pushed first): their absorption rules are the contracts of `or` / `and` in unit value_cmp
pub uninterp spec fn or_v(a: CelValue, b: CelValue) -> CelValue;
pub uninterp spec fn and_v(a: CelValue, b: CelValue) -> CelValue;
pub uninterp spec fn cmp_v(op: ByteCode, a: CelValue, b: CelValue) -> CelValue;

// ---- a small-step interpreter of pre-resolved code ----------------------------------------------------------------------------------
pub struct R { pub stack: Seq<CelValue>, pub trace: Seq<int> }
/// the first position at or after `from` that carries Label(l)
pub open spec fn find_label(code: Seq<PreResolvedCodePoint>, l: u32, from: int) -> int decreases code.len() - from {
    if from < 0 || from >= code.len() { code.len() as int } else if code[from] == PreResolvedCodePoint::Label(l) { from } else { find_label(code, l, from + 1) }
}
pub open spec fn when_bool(w: JmpWhen) -> bool { w is True }
pub open spec fn exec(code: Seq<PreResolvedCodePoint>, pc: int, st: R, fuel: nat) -> Option<R> decreases fuel {
    if fuel == 0 { None } else if pc < 0 { None } else if pc >= code.len() { Some(st) } else {
        let f = (fuel - 1) as nat;
        let tr = st.trace.push(pc);
        let s = st.stack;
        match code[pc] {
            PreResolvedCodePoint::Label(_) => exec(code, pc + 1, R { stack: s, trace: tr }, f),
            PreResolvedCodePoint::Jmp { label } => exec(code, find_label(code, label, pc + 1), R { stack: s, trace: tr }, f),
            PreResolvedCodePoint::JmpCond { when, label } => if s.len() < 1 { None } else {
                let v = s.last(); let s1 = s.drop_last();
                match v {
                    CelValue::Bool(b) => if b == when_bool(when) { exec(code, find_label(code, label, pc + 1), R { stack: s1, trace: tr }, f) } else { exec(code, pc + 1, R { stack: s1, trace: tr }, f) },
                    CelValue::Err(_) => if when is False { exec(code, find_label(code, label, pc + 1), R { stack: s1, trace: tr }, f) } else { exec(code, pc + 1, R { stack: s1, trace: tr }, f) },
                    _ => None,
                } },
            PreResolvedCodePoint::Bytecode(b) => match b {
                ByteCode::Push(v) => exec(code, pc + 1, R { stack: s.push(v), trace: tr }, f),
                ByteCode::Pop => if s.len() < 1 { None } else { exec(code, pc + 1, R { stack: s.drop_last(), trace: tr }, f) },
                ByteCode::Dup => if s.len() < 1 { None } else { exec(code, pc + 1, R { stack: s.push(s.last()), trace: tr }, f) },
                ByteCode::Test => if s.len() < 1 { None } else { exec(code, pc + 1, R { stack: s.drop_last().push(test_v(s.last())), trace: tr }, f) },
                ByteCode::Not => if s.len() < 1 { None } else { exec(code, pc + 1, R { stack: s.drop_last().push(not_v(s.last())), trace: tr }, f) },
                ByteCode::Or => if s.len() < 2 { None } else { exec(code, pc + 1, R { stack: s.drop_last().drop_last().push(or_v(s[s.len() - 2], s.last())), trace: tr }, f) },
                ByteCode::And => if s.len() < 2 { None } else { exec(code, pc + 1, R { stack: s.drop_last().drop_last().push(and_v(s[s.len() - 2], s.last())), trace: tr }, f) },
                ByteCode::Eq => if s.len() < 2 { None } else { exec(code, pc + 1, R { stack: s.drop_last().drop_last().push(cmp_v(ByteCode::Eq, s[s.len() - 2], s.last())), trace: tr }, f) },
                _ => None,
            },
        }
    }
}
pub open spec fn push1(v: CelValue) -> Seq<PreResolvedCodePoint> { seq![bc(ByteCode::Push(v))] }
pub open spec fn start(s: Seq<CelValue>) -> R { R { stack: s, trace: Seq::empty() } }
'''


def chain(code, states, fuel0=40):
    """states: list of (pc, stack expression); emits the step-by-step unfolding of exec from the first to the last state, then the final state at pc = len"""
    out = []
    tr = []
    for k in range(len(states) - 1):
        pc, st = states[k]
        pc2, st2 = states[k + 1]
        t1 = 'Seq::<int>::empty()' + ''.join(f'.push({x})' for x in tr)
        tr2 = tr + [pc]
        t2 = 'Seq::<int>::empty()' + ''.join(f'.push({x})' for x in tr2)
        out.append(f'        assert(exec({code}, {pc}, R {{ stack: {st}, trace: {t1} }}, {fuel0 - k}) == exec({code}, {pc2}, R {{ stack: {st2}, trace: {t2} }}, {fuel0 - k - 1}));')
        tr = tr2
    return '\n'.join(out), 'Seq::<int>::empty()' + ''.join(f'.push({x})' for x in tr)


def ternary_lemma():
    T = 's.push(test_v(vc))'
    err_states = [(0, 's'), (1, 's.push(vc)'), (2, T), (3, T + '.push(test_v(vc))'), (7, T), (8, T), (9, T + '.push(test_v(vc))'), (10, T + '.push(not_v(test_v(vc)))'), (13, T), (14, T)]
    true_states = [(0, 's'), (1, 's.push(vc)'), (2, T), (3, T + '.push(test_v(vc))'), (4, T), (5, 's'), (6, 's.push(vt)'), (13, 's.push(vt)'), (14, 's.push(vt)')]
    false_states = [(0, 's'), (1, 's.push(vc)'), (2, T), (3, T + '.push(test_v(vc))'), (7, T), (8, T), (9, T + '.push(test_v(vc))'), (10, T + '.push(not_v(test_v(vc)))'), (11, T), (12, 's'), (13, 's.push(ve)'), (14, 's.push(ve)')]
    c1, t1 = chain('flat', err_states)
    c2, t2 = chain('flat', true_states)
    c3, t3 = chain('flat', false_states)
    return r"""
/// c ? t : e : positions -- c at 0, t at 5, e at 12
pub proof fn law_ternary_evaluates_exactly_one_clause_chosen_by_truthiness_and_fails_when_the_condition_fails(s: Seq<CelValue>, vc: CelValue, vt: CelValue, ve: CelValue, l1: u32, l2: u32)
    requires l1 != l2
    ensures ({
        let code = ternary_code(push1(vc), push1(vt), push1(ve), l1, l2);
        let r = exec(code, 0, start(s), 40);
        &&& r is Some
        &&& (vc is Err ==> r->Some_0.stack == s.push(vc) && !r->Some_0.trace.contains(5) && !r->Some_0.trace.contains(12))
        &&& (!(vc is Err) && spec_truthy(vc) ==> r->Some_0.stack == s.push(vt) && r->Some_0.trace.contains(5) && !r->Some_0.trace.contains(12))
        &&& (!(vc is Err) && !spec_truthy(vc) ==> r->Some_0.stack == s.push(ve) && !r->Some_0.trace.contains(5) && r->Some_0.trace.contains(12))
    })
{
    let code = ternary_code(push1(vc), push1(vt), push1(ve), l1, l2);
    let j1 = PreResolvedCodePoint::JmpCond { when: JmpWhen::False, label: l1 };
    let j2 = PreResolvedCodePoint::Jmp { label: l2 };
    let j3 = PreResolvedCodePoint::JmpCond { when: JmpWhen::False, label: l2 };
    let flat = seq![bc(ByteCode::Push(vc)), bc(ByteCode::Test), bc(ByteCode::Dup), j1, bc(ByteCode::Pop), bc(ByteCode::Push(vt)), j2, PreResolvedCodePoint::Label(l1),
                    bc(ByteCode::Dup), bc(ByteCode::Not), j3, bc(ByteCode::Pop), bc(ByteCode::Push(ve)), PreResolvedCodePoint::Label(l2)];
    assert(code =~= flat);
    assert(find_label(flat, l1, 4) == 7) by { reveal_with_fuel(find_label, 6); }
    assert(find_label(flat, l2, 7) == 13) by { reveal_with_fuel(find_label, 8); }
    assert(find_label(flat, l2, 11) == 13) by { reveal_with_fuel(find_label, 4); }
    let tv = test_v(vc);
    let s1 = s.push(tv);
    assert(s.push(vc).drop_last() =~= s);
    assert(s.push(vc).last() == vc);
    assert(s1.push(tv).drop_last() =~= s1 && s1.push(tv).last() == tv);
    assert(s1.drop_last() =~= s && s1.last() == tv);
    assert(s1.push(not_v(tv)).drop_last() =~= s1 && s1.push(not_v(tv)).last() == not_v(tv));
    assert(start(s) == R { stack: s, trace: Seq::<int>::empty() });
    if vc is Err {
        assert(tv == vc && not_v(tv) == vc);
""" + c1 + r"""
        let tr = """ + t1 + r""";
        assert(forall|i: int| 0 <= i < tr.len() ==> tr[i] != 5 && tr[i] != 12);
    } else if spec_truthy(vc) {
        assert(tv == CelValue::Bool(true));
""" + c2 + r"""
        let tr = """ + t2 + r""";
        assert(tr[5] == 5);
        assert(forall|i: int| 0 <= i < tr.len() ==> tr[i] != 12);
    } else {
        assert(tv == CelValue::Bool(false) && not_v(tv) == CelValue::Bool(true));
""" + c3 + r"""
        let tr = """ + t3 + r""";
        assert(tr[9] == 12);
        assert(forall|i: int| 0 <= i < tr.len() ==> tr[i] != 5);
    }
}
"""




def logic_lemma(name, jump, op, opv, when):
    """A <jump> B OP L:   positions: A at 0, B at 4"""
    T = 's.push(test_v(va))'
    TT = T + '.push(test_v(va))'
    taken = [(0, 's'), (1, 's.push(va)'), (2, T), (3, TT), (6, T), (7, T)]
    fall = [(0, 's'), (1, 's.push(va)'), (2, T), (3, TT), (4, T), (5, T + '.push(vb)'), (6, f's.push({opv}(test_v(va), vb))'), (7, f's.push({opv}(test_v(va), vb))')]
    c1, t1 = chain('flat', taken)
    c2, t2 = chain('flat', fall)
    if when == 'True':      # ||
        short = 'spec_truthy(va) && !(va is Err)'
        short_val = 'CelValue::Bool(true)'
        doc = '/// a || b : b is not evaluated when a is truthy (the result is true); otherwise b is evaluated and the result is or(test(a), b) -- so a failing a is absorbed by a truthy b'
    else:                   # &&
        short = 'va is Err || !spec_truthy(va)'
        short_val = 'test_v(va)'
        doc = '/// a && b : b is not evaluated when a is falsy (the result is false) or fails (the result is that failure); otherwise the result is and(true, b)'
    return doc + f"""
pub proof fn {name}(s: Seq<CelValue>, va: CelValue, vb: CelValue, l: u32)
    ensures ({{
        let code = code_of(close_label(SNode::Code(push1(va) + {jump}(l) + push1(vb) + seq![bc(ByteCode::{op})]), l));
        let r = exec(code, 0, start(s), 40);
        &&& r is Some
        &&& (({short}) ==> r->Some_0.stack == s.push({short_val}) && !r->Some_0.trace.contains(4))
        &&& (!({short}) ==> r->Some_0.stack == s.push({opv}(test_v(va), vb)) && r->Some_0.trace.contains(4))
    }})
{{
    let code = code_of(close_label(SNode::Code(push1(va) + {jump}(l) + push1(vb) + seq![bc(ByteCode::{op})]), l));
    let j = PreResolvedCodePoint::JmpCond {{ when: JmpWhen::{when}, label: l }};
    let flat = seq![bc(ByteCode::Push(va)), bc(ByteCode::Test), bc(ByteCode::Dup), j, bc(ByteCode::Push(vb)), bc(ByteCode::{op}), PreResolvedCodePoint::Label(l)];
    assert(code =~= flat);
    assert(find_label(flat, l, 4) == 6) by {{ reveal_with_fuel(find_label, 4); }}
    let tv = test_v(va);
    let s1 = s.push(tv);
    assert(s.push(va).drop_last() =~= s && s.push(va).last() == va);
    assert(s1.push(tv).drop_last() =~= s1 && s1.push(tv).last() == tv);
    assert(s1.push(vb).drop_last().drop_last() =~= s && s1.push(vb)[s1.push(vb).len() - 2] == tv && s1.push(vb).last() == vb);
    assert(start(s) == R {{ stack: s, trace: Seq::<int>::empty() }});
    if {short} {{
        assert(tv == {short_val});
{c1}
        let tr = {t1};
        assert(forall|i: int| 0 <= i < tr.len() ==> tr[i] != 4);
    }} else {{
{c2}
        let tr = {t2};
        assert(tr[4] == 4);
    }}
}}
"""


def match_lemma():
    """match x { case ==p1: v1, case ==p2: v2 }  with the comparison results m1, m2"""
    X = 's.push(x)'
    pre = [(0, 's'), (1, X), (2, X + '.push(x)'), (3, X + '.push(x).push(p1)'), (4, X + '.push(m1)')]
    first = pre + [(5, X), (6, 's'), (7, 's.push(v1)'), (19, 's.push(v1)'), (20, 's.push(v1)')]
    second_pre = pre + [(8, X), (9, X), (10, X + '.push(x)'), (11, X + '.push(x).push(p2)'), (12, X + '.push(m2)')]
    second = second_pre + [(13, X), (14, 's'), (15, 's.push(v2)'), (19, 's.push(v2)'), (20, 's.push(v2)')]
    none = second_pre + [(16, X), (17, X), (18, 's'), (19, 's.push(CelValue::Null)'), (20, 's.push(CelValue::Null)')]
    c1, t1 = chain('flat', first, 60)
    c2, t2 = chain('flat', second, 60)
    c3, t3 = chain('flat', none, 60)
    return r"""
pub open spec fn no_match(m: CelValue) -> bool { m == CelValue::Bool(false) || m is Err }
/// match x { case == p1: v1, case == p2: v2 } : positions -- pattern 1 at 2..4, arm 1 at 6, pattern 2 at 10..12, arm 2 at 14.
/// Only the arm of the FIRST matching case runs (later patterns are not even tested); a pattern whose comparison fails counts as no match;
/// when no case matches the result is null; in every case the scrutinee is gone from the stack.
pub proof fn law_match_runs_only_the_first_matching_arm_and_yields_null_otherwise(s: Seq<CelValue>, x: CelValue, p1: CelValue, v1: CelValue, p2: CelValue, v2: CelValue, lbl: u32)
    requires lbl < u32::MAX - 2,
             cmp_v(ByteCode::Eq, x, p1) == CelValue::Bool(true) || no_match(cmp_v(ByteCode::Eq, x, p1)),
             cmp_v(ByteCode::Eq, x, p2) == CelValue::Bool(true) || no_match(cmp_v(ByteCode::Eq, x, p2)),
    ensures ({
        let cases = seq![Case { pcode: push1(p1) + seq![bc(ByteCode::Eq)], ecode: seq![bc(ByteCode::Pop)] + push1(v1) }, Case { pcode: push1(p2) + seq![bc(ByteCode::Eq)], ecode: seq![bc(ByteCode::Pop)] + push1(v2) }];
        let r = exec(match_code(push1(x), cases, lbl), 0, start(s), 60);
        let m1 = cmp_v(ByteCode::Eq, x, p1); let m2 = cmp_v(ByteCode::Eq, x, p2);
        &&& r is Some
        &&& (m1 == CelValue::Bool(true) ==> r->Some_0.stack == s.push(v1) && r->Some_0.trace.contains(6) && !r->Some_0.trace.contains(10) && !r->Some_0.trace.contains(14))
        &&& (no_match(m1) && m2 == CelValue::Bool(true) ==> r->Some_0.stack == s.push(v2) && !r->Some_0.trace.contains(6) && r->Some_0.trace.contains(14))
        &&& (no_match(m1) && no_match(m2) ==> r->Some_0.stack == s.push(CelValue::Null) && !r->Some_0.trace.contains(6) && !r->Some_0.trace.contains(14))
    })
{
    let cases = seq![Case { pcode: push1(p1) + seq![bc(ByteCode::Eq)], ecode: seq![bc(ByteCode::Pop)] + push1(v1) }, Case { pcode: push1(p2) + seq![bc(ByteCode::Eq)], ecode: seq![bc(ByteCode::Pop)] + push1(v2) }];
    let code = match_code(push1(x), cases, lbl);
    let l_end = lbl; let l1 = (lbl + 1) as u32; let l2 = (lbl + 2) as u32;
    let m1 = cmp_v(ByteCode::Eq, x, p1); let m2 = cmp_v(ByteCode::Eq, x, p2);
    let flat = seq![bc(ByteCode::Push(x)),
        bc(ByteCode::Dup), bc(ByteCode::Push(p1)), bc(ByteCode::Eq), PreResolvedCodePoint::JmpCond { when: JmpWhen::False, label: l1 }, bc(ByteCode::Pop), bc(ByteCode::Push(v1)), PreResolvedCodePoint::Jmp { label: l_end }, PreResolvedCodePoint::Label(l1),
        bc(ByteCode::Dup), bc(ByteCode::Push(p2)), bc(ByteCode::Eq), PreResolvedCodePoint::JmpCond { when: JmpWhen::False, label: l2 }, bc(ByteCode::Pop), bc(ByteCode::Push(v2)), PreResolvedCodePoint::Jmp { label: l_end }, PreResolvedCodePoint::Label(l2),
        bc(ByteCode::Pop), bc(ByteCode::Push(CelValue::Null)), PreResolvedCodePoint::Label(l_end)];
    assert(code =~= flat) by {
        reveal_with_fuel(cases_code, 3);
        assert(cases.len() == 2);
    }
    assert(find_label(flat, l1, 5) == 8) by { reveal_with_fuel(find_label, 6); }
    assert(find_label(flat, l_end, 8) == 19) by { reveal_with_fuel(find_label, 14); }
    assert(find_label(flat, l2, 13) == 16) by { reveal_with_fuel(find_label, 6); }
    assert(find_label(flat, l_end, 16) == 19) by { reveal_with_fuel(find_label, 6); }
    let sx = s.push(x);
    assert(sx.drop_last() =~= s && sx.last() == x);
    assert(sx.push(x).push(p1).drop_last().drop_last() =~= sx && sx.push(x).push(p1)[sx.push(x).push(p1).len() - 2] == x && sx.push(x).push(p1).last() == p1);
    assert(sx.push(x).push(p2).drop_last().drop_last() =~= sx && sx.push(x).push(p2)[sx.push(x).push(p2).len() - 2] == x && sx.push(x).push(p2).last() == p2);
    assert(sx.push(m1).drop_last() =~= sx && sx.push(m1).last() == m1);
    assert(sx.push(m2).drop_last() =~= sx && sx.push(m2).last() == m2);
    assert(start(s) == R { stack: s, trace: Seq::<int>::empty() });
    if m1 == CelValue::Bool(true) {
""" + c1 + r"""
        let tr = """ + t1 + r""";
        assert(tr[6] == 6);
        assert(forall|i: int| 0 <= i < tr.len() ==> tr[i] != 10 && tr[i] != 14);
    } else if m2 == CelValue::Bool(true) {
""" + c2 + r"""
        let tr = """ + t2 + r""";
        assert(tr[11] == 14);
        assert(forall|i: int| 0 <= i < tr.len() ==> tr[i] != 6);
    } else {
""" + c3 + r"""
        let tr = """ + t3 + r""";
        assert(forall|i: int| 0 <= i < tr.len() ==> tr[i] != 6 && tr[i] != 14);
    }
}
"""

LEMMAS = (ternary_lemma() + logic_lemma('law_or_skips_its_right_operand_exactly_when_the_left_is_truthy', 'or_jump', 'Or', 'or_v', 'True')
          + logic_lemma('law_and_skips_its_right_operand_exactly_when_the_left_is_falsy_or_fails', 'and_jump', 'And', 'and_v', 'False') + match_lemma())

LAWS = ['law_ternary_evaluates_exactly_one_clause_chosen_by_truthiness_and_fails_when_the_condition_fails', 'law_or_skips_its_right_operand_exactly_when_the_left_is_truthy',
        'law_and_skips_its_right_operand_exactly_when_the_left_is_falsy_or_fails', 'law_match_runs_only_the_first_matching_arm_and_yields_null_otherwise']


def build():
    U = Unit('semantics')
    U.global_rewrites.append(C.DYN_REWRITE)
    U.raw(C.HEADER, 'header')
    U.raw(C.STANDINS, 'S1 stand-ins')
    C.value_types(U)
    U.extract(S.PR, 'enum PreResolvedCodePoint')
    U.raw(C.DERIVED, 'assumed derived impls')
    U.raw(C.VALUE_SPECS + C.TRUTHY_SPEC, 'shared vocabulary')
    templates = (slice_fn(PE.SPEC, 'bc') + slice_fn(PE.SPEC, 'ternary_code') + slice_fn(P.AND, 'and_jump') + slice_fn(P.OR, 'or_jump') + slice_fn(PM.SPEC, 'any_code')
                 + 'pub struct Case { pub pcode: Seq<PreResolvedCodePoint>, pub ecode: Seq<PreResolvedCodePoint> }   // parser_matchx::Case without its syntax-tree field\n'
                 + slice_fn(PM.SPEC, 'cases_code') + slice_fn(PM.SPEC, 'match_code')
                 + 'pub enum SNode { Const(CelValue), Code(Seq<PreResolvedCodePoint>) }\n' + slice_fn(P.PRELUDE, 'code_of') + slice_fn(P.PRELUDE, 'close_label'))
    U.raw('// ---- spec functions taken verbatim from the parser units (they are the postconditions of the real parse functions) ----\n' + templates + MODEL + LEMMAS, 'model and lemmas')
    U.lemmas = [(n, ('C05',)) for n in LAWS]
    U.raw(C.FOOTER, 'footer')
    return U
