"""unit sortfn: the `sort` built-in (C04, C01) -- rscel/src/context/default_funcs/sort.rs -- on top of unit value_cmp (same spec text,
`ord` known by the contract value_cmp proves for it).

History: until fix 5087773 `sort` called `slice::sort_by` with a comparator that reads a failing or undefined `ord` as Less.  std
demands a total order ("may panic" otherwise, Rust >= 1.81); the stand-in `s_sort_by` states the least of that demand as its
precondition (never a < b and b < a), which the comparator does not meet for values of unrelated types or NaN: the obligation
`sort_ov0::requires@std:never_both_less` failed on the unchanged tree and a 1000-element mixed list panicked on the real code (F21).
`sort` is now a local stable merge sort.  Under contract: `is_less` (ord of the LEFT argument against the RIGHT one, failures read as
less), `merge_sort` (no panic: every index in range; the length is preserved; an element of the right half is taken first only when
it is less than the current element of the left half -- direction and stability of the merge; the result is a permutation), `sort` = `merge_sort`.
Proved as well: the result is a PERMUTATION of the list (multisets).  Not proved: that it is ORDERED (needs `ord` as a function and
its transitivity, which hold only for mutually comparable elements)."""
HAS_LOOP_CONTRACTS = True
from vgen.gen import A
from . import common as C
from . import value_cmp as VC
from . import pshared as S

F = 'rscel/src/context/default_funcs/sort.rs'

PRELUDE = r'''
// ---- slice::sort_by (std): the vector is rearranged according to the comparator's input/output relation; NOTHING is assumed about
// the laws of that relation (for a total order std returns the ordered permutation; otherwise its result is unspecified)
pub open spec fn never_both_less(rel: spec_fn(CelValue, CelValue, Ordering) -> bool) -> bool {
    forall|a: CelValue, b: CelValue| !(#[trigger] rel(a, b, Ordering::Less) && rel(b, a, Ordering::Less))
}
pub uninterp spec fn sorted_rel(before: Seq<CelValue>, after: Seq<CelValue>, rel: spec_fn(CelValue, CelValue, Ordering) -> bool) -> bool;
#[verifier::external_body] pub fn s_sort_by<F: Fn(&CelValue, &CelValue) -> Ordering>(v: &mut Vec<CelValue>, cmp: F)
    requires forall|a: &CelValue, b: &CelValue| call_requires(cmp, (a, b)),
        // std (since Rust 1.81): "may panic if the comparator does not implement a total order"; the part of that law a `<` must
        // satisfy at the very least: never a < b and b < a
        never_both_less(|a: CelValue, b: CelValue, o: Ordering| call_ensures(cmp, (&a, &b), o)),
    ensures sorted_rel(old(v)@, final(v)@, |a: CelValue, b: CelValue, o: Ordering| call_ensures(cmp, (&a, &b), o)) { unimplemented!() }
pub assume_specification<T, E>[ Result::<T, E>::unwrap_or ](r: Result<T, E>, d: T) -> (o: T)
    ensures o == (match r { Ok(x) => x, Err(_) => d });      // std: the Ok value, else the default
/// is_less: `ord` of the left argument against the right one; a failing or undefined comparison reads as less
pub open spec fn less_ok(a: CelValue, b: CelValue, r: bool) -> bool {
    exists|x: CelResult<Option<Ordering>>| ord_ok(a, b, x) && r == ((match x { Ok(Some(o)) => o, _ => Ordering::Less }) == Ordering::Less)
}
#[verifier::external_body] pub fn ord_is(v: Ordering, o: Ordering) -> (r: bool) ensures r == (v == o) { v == o }
#[verifier::external_body] pub fn s_split_off(v: &mut Vec<CelValue>, at: usize) -> (r: Vec<CelValue>)
    requires at <= old(v)@.len()        // std: panics if at > len
    ensures final(v)@ == old(v)@.take(at as int), r@ == old(v)@.skip(at as int) { unimplemented!() }
#[verifier::external_body] pub fn s_extend_from(v: &mut Vec<CelValue>, src: &Vec<CelValue>, from: usize)
    requires from <= src@.len()         // std: slicing panics if from > len
    ensures final(v)@ == old(v)@ + src@.skip(from as int) { unimplemented!() }
/// what the comparator must compute: `ord` of the left element against the right one; a failing or undefined comparison reads as Less
pub open spec fn sort_cmp_ok(a: CelValue, b: CelValue, o: Ordering) -> bool {
    exists|r: CelResult<Option<Ordering>>| ord_ok(a, b, r) && o == (match r { Ok(Some(x)) => x, _ => Ordering::Less })
}
'''


def build():
    U = VC.build()
    U.name = 'sortfn'
    # every function of value_cmp becomes a callee known by contract only (they are verified in unit value_cmp)
    ord_a = None
    for op in U.ops:
        if op[0] == 'extract' and op[1]['fns']:
            op[1]['fns'] = S.stubbed(op[1]['fns'])
            if 'ord' in op[1]['fns']:
                ord_a = op[1]['fns']['ord']
    assert ord_a is not None
    foot = U.ops.pop()          # footer
    assert foot[0] == 'raw'
    # ord's postcondition as one predicate (its clauses, conjoined)
    ord_ok = 'pub open spec fn ord_ok(self_: CelValue, rhs_value: CelValue, r: CelResult<Option<Ordering>>) -> bool {\n    ' + \
        '\n    && '.join('(' + t.replace('*self', 'self_').replace('self', 'self_').replace('self__', 'self_') + ')' for (_n, t, *_r) in ord_a.ensures) + '\n}\n'
    # ... and the stub of `ord` states exactly that predicate (the conjunction of the clauses unit value_cmp proves), as ONE term the
    # comparator's postcondition can be matched against
    ord_a.ensures = [('the_clauses_proved_in_unit_value_cmp', 'ord_ok(self, rhs_value, r)')]
    U.raw(ord_ok + PRELUDE, 'sort: std stand-in and the comparator spec')
    U.raw('pub mod sort { use super::*;\npub mod internal { use super::*;', 'file module + nested helper module (D5)')
    U.extract(F, 'fn is_less', inside='mod methods/mod internal', annot=A(
        ret='r', props=('C04', 'C01'),
        ensures=[('ord_of_the_left_against_the_right_failures_read_as_less', 'less_ok(*a, *b, r)')],
        rewrites=[('a.clone() .ord(b.clone()) .unwrap_or(Some(Ordering::Less)) .unwrap_or(Ordering::Less) == Ordering::Less',
                   'ord_is(a.clone().ord(b.clone()).unwrap_or(Some(Ordering::Less)).unwrap_or(Ordering::Less), Ordering::Less)',
                   'R2: `==` on Ordering (derived PartialEq has no vstd spec) -> trampoline; the compared expression is untouched')]))
    U.extract(F, 'fn merge_sort', inside='mod methods/mod internal', annot=A(
        ret='r', attrs=['#[verifier::exec_allows_no_decreases_clause]'], props=('C04', 'C01'),
        ensures=[('same_number_of_elements', 'r@.len() == list@.len()'),
                 ('a_permutation_of_the_list', 'r@.to_multiset() =~= list@.to_multiset()')],
        rewrites=[('list.split_off(list.len() / 2)', '{ let half = list.len() / 2; s_split_off(&mut list, half) }', 'R2m: Vec::split_off -> trampoline (the argument is evaluated first, as in the two-phase borrow of the method call)'),
                  ('merged.extend_from_slice(&left[i..])', 's_extend_from(&mut merged, &left, i)', 'R2m: extend_from_slice of a tail slice -> trampoline (assumed: appends the elements from that index on, in order)'),
                  ('merged.extend_from_slice(&right[j..])', 's_extend_from(&mut merged, &right, j)', 'R2m: extend_from_slice of a tail slice -> trampoline')],
        body_begin='let ghost l0 = list@;',
        after={('stmt', 'let left =', 0): '''let ghost n0 = left@.len() + right@.len();
proof {
    let h = (l0.len() / 2) as int;
    assert(l0 =~= l0.take(h) + l0.skip(h));
    vstd::seq_lib::lemma_multiset_commutative(l0.take(h), l0.skip(h));
    assert(l0.to_multiset() =~= left@.to_multiset().add(right@.to_multiset()));
    assert(left@.take(0) =~= Seq::<CelValue>::empty() && right@.take(0) =~= Seq::<CelValue>::empty());
    Seq::<CelValue>::empty().to_multiset_ensures();
}''',
               ('stmt', 'merged.extend_from_slice(&right[j..])', 0): '''proof {
    let m0 = left@.take(i as int) + right@.take(j as int);
    assert(left@ =~= left@.take(i as int) + left@.skip(i as int));
    assert(right@ =~= right@.take(j as int) + right@.skip(j as int));
    vstd::seq_lib::lemma_multiset_commutative(left@.take(i as int), left@.skip(i as int));
    vstd::seq_lib::lemma_multiset_commutative(right@.take(j as int), right@.skip(j as int));
    vstd::seq_lib::lemma_multiset_commutative(merged_before_tails, left@.skip(i as int));
    vstd::seq_lib::lemma_multiset_commutative(merged_before_tails + left@.skip(i as int), right@.skip(j as int));
}'''},
        before={'merged.extend_from_slice(&left[i..]);': 'let ghost merged_before_tails = merged@;',
                'merged.push(right[j].clone());': ('the_right_element_goes_first_only_when_it_is_less', 'less_ok(right@[j as int], left@[i as int], true)'),
                'merged.push(left[i].clone());': ('otherwise_the_left_element_keeps_its_place', 'less_ok(right@[j as int], left@[i as int], false)')},
        loops={0: dict(invariant=[('merged_so_far', 'i <= left@.len() && j <= right@.len() && merged@.len() == i + j && left@.len() + right@.len() == n0'),
                                  ('the_elements_taken_so_far', 'merged@.to_multiset() =~= left@.take(i as int).to_multiset().add(right@.take(j as int).to_multiset())')],
                       pre='let ghost i0 = i as int; let ghost j0 = j as int; let ghost m0 = merged@;',
                       post='''proof {
    m0.to_multiset_ensures();
    left@.take(i0).to_multiset_ensures();
    right@.take(j0).to_multiset_ensures();
    if i as int == i0 + 1 { assert(left@.take(i0 + 1) =~= left@.take(i0).push(left@[i0])); } else { assert(right@.take(j0 + 1) =~= right@.take(j0).push(right@[j0])); }
}''')}))
    U.raw('}', 'end helper module')
    U.extract(F, 'mod methods', qual_prefix='sort', fns={'sort#0': A(
        ret='r', props=('C04', 'C01'), ensures=[('the_merge_sort_of_the_list', 'r@.len() == this@.len()')],
        # if `slice::sort_by` ever comes back it meets std's total-order demand again (F21)
        mcalls={'sort_by': ('s_sort_by', 'mut')})})
    U.raw('}', 'end file module')
    U.ops.append(foot)
    return U
