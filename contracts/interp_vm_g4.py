"""run_raw, arm-contract group 4 (see interp_vm.py)"""
from . import interp_vm
HAS_LOOP_CONTRACTS = False


def build():
    return interp_vm.build(group=4)
