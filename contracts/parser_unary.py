"""unit parser_unary: the unary level (runs of `!` / `-` in front of a member expression) and the primaries of the recursive-descent
compiler -- parse_unary, parse_not_list, parse_neg_list, parse_primary -- against the grammar over the ghost token stream.
C02 (prefix runs bind tighter than every binary operator, parentheses), C18 (spans incl. the zero-width list end taken from the scanner
position after a look-ahead), C17 (an identifier primary reports its name), C13 (a literal token becomes the constant it carries), C10/C09."""
from vgen.gen import Unit, A
from . import common as C
from . import parser as P
from . import pshared as S
from .parser_expr import result_clause, UNTOUCHED, CURSOR, HERE

HAS_LOOP_CONTRACTS = False

SPEC = r'''
pub uninterp spec fn sp_member(toks: Seq<TokenWithLoc>, pos: nat, lbl: u32) -> Option<P<Member>>;     // unit parser_member
pub uninterp spec fn sp_expr(toks: Seq<TokenWithLoc>, pos: nat, lbl: u32) -> Option<P<Expr>>;         // unit parser_expr
pub open spec fn bc(b: ByteCode) -> PreResolvedCodePoint { PreResolvedCodePoint::Bytecode(b) }
pub open spec fn zero_width(l: SourceLocation) -> SourceRange { mk_range(l, l) }

/// the number of consecutive `!` (or `-`) tokens from pos
pub open spec fn run_len(toks: Seq<TokenWithLoc>, pos: nat, nots: bool) -> nat
    decreases toks.len() - pos
{
    if pos < toks.len() && (if nots { toks[pos as int].token is Not } else { toks[pos as int].token is Minus }) { 1 + run_len(toks, pos + 1, nots) } else { 0 }
}
/// n times the operator's instruction
pub open spec fn rep_code(op: ByteCode, n: nat) -> Seq<PreResolvedCodePoint>
    decreases n
{
    if n == 0 { Seq::empty() } else { rep_code(op, (n - 1) as nat) + seq![bc(op)] }
}
/// the tree of a run of n `!`: one List node per token, each spanning from its token to the (zero-width) end of the run
pub closed spec fn sp_not_ast(toks: Seq<TokenWithLoc>, pos: nat, n: nat, empty: SourceRange) -> AstNode<NotList>
    decreases n
{
    if n == 0 { mk_ast(NotList::EmptyList, empty) } else {
        let tail = sp_not_ast(toks, pos + 1, (n - 1) as nat, empty);
        mk_ast(NotList::List { tail: Box::new(tail) }, hull(a_loc(tail), toks[pos as int].loc))
    }
}
pub closed spec fn sp_neg_ast(toks: Seq<TokenWithLoc>, pos: nat, n: nat, empty: SourceRange) -> AstNode<NegList>
    decreases n
{
    if n == 0 { mk_ast(NegList::EmptyList, empty) } else {
        let tail = sp_neg_ast(toks, pos + 1, (n - 1) as nat, empty);
        mk_ast(NegList::List { tail: Box::new(tail) }, hull(a_loc(tail), toks[pos as int].loc))
    }
}
/// Unary = `!`+ Member | `-`+ Member | Member : the whole run applies to ONE member expression (postfix chains bind tighter), the
/// member's code runs first, then one instruction per prefix token
pub closed spec fn sp_unary(toks: Seq<TokenWithLoc>, pos: nat, lbl: u32) -> Option<P<Unary>> {
    if pos < toks.len() && toks[pos as int].token is Not {
        let n = run_len(toks, pos, true);
        match sp_member(toks, pos + n, lbl) {
            Some(m) => if pos + n < toks.len() {
                    let na = sp_not_ast(toks, pos, n, zero_width(r_end(toks[(pos + n) as int].loc)));
                    Some(P { ast: mk_ast(Unary::NotMember { nots: na, member: m.ast }, hull(a_loc(na), a_loc(m.ast))), end: m.end, lbl: m.lbl, details: m.details,
                             node: SNode::Code(code_of(m.node) + rep_code(ByteCode::Not, n)) })
                } else { None },
            None => None,
        }
    } else if pos < toks.len() && toks[pos as int].token is Minus {
        let n = run_len(toks, pos, false);
        match sp_member(toks, pos + n, lbl) {
            Some(m) => if pos + n < toks.len() {
                    let na = sp_neg_ast(toks, pos, n, zero_width(r_end(toks[(pos + n) as int].loc)));
                    Some(P { ast: mk_ast(Unary::NegMember { negs: na, member: m.ast }, hull(a_loc(na), a_loc(m.ast))), end: m.end, lbl: m.lbl, details: m.details,
                             node: SNode::Code(code_of(m.node) + rep_code(ByteCode::Neg, n)) })
                } else { None },
            None => None,
        }
    } else {
        match sp_member(toks, pos, lbl) {
            Some(m) => Some(P { ast: mk_ast(Unary::Member(m.ast), a_loc(m.ast)), end: m.end, lbl: m.lbl, details: m.details, node: m.node }),
            None => None,
        }
    }
}

impl vstd::std_specs::convert::FromSpecImpl<String> for CelValue { open spec fn obeys_from_spec() -> bool { true } open spec fn from_spec(v: String) -> Self { CelValue::String(v) } }
impl vstd::std_specs::convert::FromSpecImpl<CelBytes> for CelValue { open spec fn obeys_from_spec() -> bool { true } open spec fn from_spec(v: CelBytes) -> Self { CelValue::Bytes(v) } }
impl vstd::std_specs::convert::IntoSpecImpl<Vec<u8>> for CelBytes { open spec fn obeys_into_spec() -> bool { true } closed spec fn into_spec(self) -> Vec<u8> { self.inner } }
/// ARM BODY DROPPED stand-in (list / map / f-string primaries are not verified here)
#[verifier::external_body] pub fn unverified_primary_arm() -> CelResult<(CompiledProg, AstNode<Primary>)> { unimplemented!() }
pub open spec fn simple_primary(r: (CompiledProg, AstNode<Primary>), t: TokenWithLoc, p: Primary, c: CelValue) -> bool {
    r.1 == mk_ast(p, t.loc) && node_view(r.0.inner) == SNode::Const(c) && r.0.details@ == Set::<Seq<char>>::empty()
}




// ---- format strings ---------------------------------------------------------------------------------------------------------------
/// the token sequence of a source text (unit tokenizer specifies the tokens themselves; here only: one fixed sequence per text)
pub uninterp spec fn tokens_of(src: Seq<char>) -> Seq<TokenWithLoc>;
// S1: the tokenizer the compiler creates for an embedded expression
#[verifier::external_body] pub struct StringTokenizer<'l> { _p: &'l u8 }
impl<'l> StringTokenizer<'l> {
    pub uninterp spec fn t_toks(&self) -> Seq<TokenWithLoc>;
    pub uninterp spec fn t_pos(&self) -> nat;
    pub uninterp spec fn t_scanned(&self) -> nat;
    /// ASSUMED: a fresh tokenizer stands before the first token of its text
    #[verifier::external_body] pub fn with_input(input: &'l str) -> (r: StringTokenizer<'l>) ensures r.t_toks() == tokens_of(input@), r.t_pos() == 0 { unimplemented!() }
}
impl<'l> Tokenizer for StringTokenizer<'l> {
    open spec fn toks(&self) -> Seq<TokenWithLoc> { self.t_toks() }
    open spec fn pos(&self) -> nat { self.t_pos() }
    open spec fn scanned(&self) -> nat { self.t_scanned() }
    #[verifier::external_body] fn peek(&mut self) -> (r: Result<Option<&TokenWithLoc>, SyntaxError>) { unimplemented!() }
    #[verifier::external_body] fn next(&mut self) -> (r: Result<Option<TokenWithLoc>, SyntaxError>) { unimplemented!() }
    #[verifier::external_body] fn location(&self) -> (r: SourceLocation) { unimplemented!() }
}
pub uninterp spec fn resolved(code: Seq<PreResolvedCodePoint>) -> Seq<ByteCode>;      // PreResolvedByteCode::resolve
impl<'a> BindContext<'a> { #[verifier::external_body] pub fn for_compile() -> (r: BindContext<'a>) { unimplemented!() } }
/// the three code points of one segment: the text (or the unevaluated block of the embedded expression, compiled on its own from label 0),
/// then `string` and CALL 1 -- every segment is converted with string()
pub open spec fn seg_ok(c0: PreResolvedCodePoint, c1: PreResolvedCodePoint, c2: PreResolvedCodePoint, seg: FStringSegment) -> bool {
    &&& (match seg {
            FStringSegment::Lit(t) => c0 == bc(ByteCode::Push(CelValue::String(t))),
            FStringSegment::Expr(e) => {
                let p = sp_expr(tokens_of(e@), 0, 0);
                p is Some && c0 is Bytecode && c0->Bytecode_0 is Push && c0->Bytecode_0->Push_0 is ByteCode && c0->Bytecode_0->Push_0->ByteCode_0@ == resolved(code_of(p->Some_0.node))
            },
        })
    &&& c1 is Bytecode && c1->Bytecode_0 is Push && c1->Bytecode_0->Push_0 is Ident && c1->Bytecode_0->Push_0->Ident_0@ == "string"@
    &&& c2 == bc(ByteCode::Call(1))
}
pub open spec fn fstr_details(segs: Seq<FStringSegment>, k: int) -> Set<Seq<char>> decreases k {
    if k <= 0 { Set::empty() } else {
        fstr_details(segs, k - 1) + (match segs[k - 1] { FStringSegment::Expr(e) => sp_expr(tokens_of(e@), 0, 0)->Some_0.details, FStringSegment::Lit(_) => Set::empty() })
    }
}
impl Clone for FStringSegment { #[verifier::external_body] fn clone(&self) -> (r: Self) ensures r == *self { unimplemented!() } }
/// R2: `CelCompiler::with_tokenizer(&mut tok)` -- the unsizing `&mut StringTokenizer -> &mut dyn Tokenizer` is outside Verus; with_tokenizer itself is verified
impl<'l> CelCompiler<'l> {
    pub closed spec fn c_toks(&self) -> Seq<TokenWithLoc> { self.tokenizer.toks() }
    pub closed spec fn c_pos(&self) -> nat { self.tokenizer.pos() }
    pub closed spec fn c_lbl(&self) -> u32 { self.next_label }
}
#[verifier::external_body] fn s_compiler_for<'l, 'x>(tok: &'l mut StringTokenizer<'x>) -> (r: CelCompiler<'l>)
    ensures r.tokenizer.toks() == old(tok).t_toks() && r.tokenizer.pos() == old(tok).t_pos() && r.next_label == 0 { unimplemented!() }
#[verifier::external_body] pub fn s_collect_points(v: Vec<PreResolvedCodePoint>) -> (r: PreResolvedByteCode) ensures r@ == v@ { unimplemented!() }
// ---- map literals -----------------------------------------------------------------------------------------------------------------
pub struct OL { pub pairs: Seq<(P<Expr>, P<Expr>)>, pub end: nat, pub lbl: u32 }      // (key, value) in source order
/// Expr `:` Expr (`,` Expr `:` Expr)* [`,`]  up to (not including) the closing brace; an empty map is allowed
pub closed spec fn sp_oi_loop(toks: Seq<TokenWithLoc>, acc: OL) -> Option<OL>
    decreases toks.len() - acc.end
{
    if acc.end < toks.len() && toks[acc.end as int].token is RBrace { Some(acc) } else {
        match sp_expr(toks, acc.end, acc.lbl) {
            Some(k) => if k.end > acc.end && k.end < toks.len() && toks[k.end as int].token is Colon {
                    match sp_expr(toks, k.end + 1, k.lbl) {
                        Some(v) => if v.end > k.end && v.end <= toks.len() {
                                if v.end < toks.len() && toks[v.end as int].token is Comma { sp_oi_loop(toks, OL { pairs: acc.pairs.push((k, v)), end: v.end + 1, lbl: v.lbl }) }
                                else { Some(OL { pairs: acc.pairs.push((k, v)), end: v.end, lbl: v.lbl }) }
                            } else { None },
                        None => None,
                    }
                } else { None },
            None => None,
        }
    }
}
pub closed spec fn sp_obj_inits(toks: Seq<TokenWithLoc>, pos: nat, lbl: u32) -> Option<OL> { sp_oi_loop(toks, OL { pairs: Seq::empty(), end: pos, lbl: lbl }) }
/// what MkDict pops: for every entry the VALUE is pushed first, then the KEY
pub open spec fn flat_items(pairs: Seq<(P<Expr>, P<Expr>)>) -> Seq<P<Expr>> { Seq::new(2 * pairs.len(), |i: int| if i % 2 == 0 { pairs[i / 2].1 } else { pairs[i / 2].0 }) }
pub open spec fn pair_asts(pairs: Seq<(P<Expr>, P<Expr>)>) -> Seq<AstNode<ObjInit>> {
    pairs.map_values(|kv: (P<Expr>, P<Expr>)| mk_ast(ObjInit { key: kv.0.ast, value: kv.1.ast }, hull(a_loc(kv.0.ast), a_loc(kv.1.ast))))
}
pub mod axo { use super::*; use vstd::prelude::*;
pub uninterp spec fn vec_of_inits(s: Seq<AstNode<ObjInit>>) -> Vec<AstNode<ObjInit>>;
/// ASSUMED: a Vec is determined by its elements
pub broadcast axiom fn axiom_vec_of_inits(v: Vec<AstNode<ObjInit>>) ensures #[trigger] vec_of_inits(v@) == v;
}
pub use axo::vec_of_inits;
// S1: std::vec::IntoIter<AstNode<Expr>> driven by hand (`children_ast.into_iter()` then `.next()`)
#[verifier::external_body] pub struct AstIter { _p: u8 }
impl AstIter {
    pub uninterp spec fn rest(&self) -> Seq<AstNode<Expr>>;
    /// ASSUMED std: yields the elements in order, then None
    #[verifier::external_body] pub fn next(&mut self) -> (r: Option<AstNode<Expr>>)
        ensures
            old(self).rest().len() > 0 ==> r == Some(old(self).rest()[0]) && final(self).rest() == old(self).rest().skip(1),
            old(self).rest().len() == 0 ==> r is None && final(self).rest() == old(self).rest(),
    { unimplemented!() }
}
#[verifier::external_body] pub fn s_ast_iter(v: Vec<AstNode<Expr>>) -> (r: AstIter) ensures r.rest() == v@ { unimplemented!() }
// ---- the compile-time value of a map literal (the resolver closure of the map arm; the run-time value is the VM's MkDict arm) ----
/// the resolver receives the constants in emission order: value, key, value, key, ...
pub open spec fn key_at(vals: Seq<CelValue>, j: int) -> CelValue { vals[2 * j + 1] }
pub open spec fn val_at(vals: Seq<CelValue>, j: int) -> CelValue { vals[2 * j] }
/// the map holds exactly the keys of the first n entries, and for a repeated key the entry written LAST wins
pub open spec fn lit_map_ok(m: Map<String, CelValue>, vals: Seq<CelValue>, n: int) -> bool {
    &&& forall|j: int| 0 <= j < n ==> (#[trigger] key_at(vals, j)) is String && m.contains_key(key_at(vals, j)->String_0)
    &&& forall|k: String| #[trigger] m.contains_key(k) ==> exists|j: int| 0 <= j < n && (#[trigger] key_at(vals, j)) == CelValue::String(k)
    &&& forall|j: int| 0 <= j < n && (forall|j2: int| j < j2 < n ==> (#[trigger] key_at(vals, j2)) != key_at(vals, j)) ==> m[key_at(vals, j)->String_0] == #[trigger] val_at(vals, j)
}
/// a map literal of constants folds to that map when every key is a string, and to a failure otherwise
pub open spec fn lit_map_result(vals: Seq<CelValue>, res: CelValue) -> bool {
    &&& (forall|j: int| 0 <= j < vals.len() / 2 ==> (#[trigger] key_at(vals, j)) is String) ==> res is Map && lit_map_ok(res->Map_0@, vals, vals.len() as int / 2)
    &&& (exists|j: int| 0 <= j < vals.len() / 2 && !((#[trigger] key_at(vals, j)) is String)) ==> res is Err
}
/// `(a..b).step_by(k)`, materialized: a, a + k, a + 2k, ... below b (assumed std behaviour)
#[verifier::external_body] pub fn s_step_by(r: std::ops::Range<usize>, step: usize) -> (o: Vec<usize>)
    requires step > 0
    ensures o@.len() == (if r.end > r.start { (r.end - r.start + step - 1) / step as int } else { 0 }), forall|j: int| 0 <= j < o@.len() ==> o@[j] == r.start + j * step
{ unimplemented!() }
/// `next_token != Some(Token::Colon)` on Option<Token>
#[verifier::external_body] pub fn opt_tok_is_colon(a: &Option<Token>) -> (r: bool) ensures r == (*a is Some && a->Some_0 is Colon) { unimplemented!() }
#[verifier::external_body] pub fn opt_ref_tok_is_rbrace(a: Option<&Token>) -> (r: bool) ensures r == (a is Some && *a->Some_0 is RBrace) { unimplemented!() }
// ---- list literals ---------------------------------------------------------------------------------------------------------------
pub open spec fn lift(s: Seq<ByteCode>) -> Seq<PreResolvedCodePoint> { s.map_values(|b: ByteCode| PreResolvedCodePoint::Bytecode(b)) }
pub open spec fn items_details(items: Seq<P<Expr>>, n: int) -> Set<Seq<char>> decreases n { if n <= 0 { Set::empty() } else { items_details(items, n - 1) + items[n - 1].details } }
pub open spec fn items_all_const(items: Seq<P<Expr>>, n: int) -> bool decreases n { if n <= 0 { true } else { items_all_const(items, n - 1) && items[n - 1].node is Const } }
pub open spec fn items_code(items: Seq<P<Expr>>, n: int) -> Seq<PreResolvedCodePoint> decreases n { if n <= 0 { Seq::empty() } else { items_code(items, n - 1) + code_of(items[n - 1].node) } }
pub open spec fn items_asts(items: Seq<P<Expr>>) -> Seq<AstNode<Expr>> { items.map_values(|p: P<Expr>| p.ast) }
pub mod axl { use super::*; use vstd::prelude::*;
/// the list value holding these elements (From<Vec<CelValue>> for CelValue: ASSUMED element-wise, in order)
pub uninterp spec fn list_val(v: Seq<CelValue>) -> CelValue;
pub uninterp spec fn vec_of_exprs(s: Seq<AstNode<Expr>>) -> Vec<AstNode<Expr>>;
pub uninterp spec fn list_from<T>(v: Vec<T>) -> CelValue;
pub broadcast axiom fn axiom_list_from_values(v: Vec<CelValue>) ensures #[trigger] list_from::<CelValue>(v) == list_val(v@);
/// ASSUMED: a Vec is determined by its elements
pub broadcast axiom fn axiom_vec_of_exprs(v: Vec<AstNode<Expr>>) ensures #[trigger] vec_of_exprs(v@) == v;
}
pub use axl::{list_val, vec_of_exprs};
impl<T: Into<CelValue>> vstd::std_specs::convert::FromSpecImpl<Vec<T>> for CelValue { open spec fn obeys_from_spec() -> bool { true } open spec fn from_spec(v: Vec<T>) -> Self { axl::list_from(v) } }
/// `v.into_iter().unzip()`
#[verifier::external_body] pub fn s_unzip<X, Y>(v: Vec<(X, Y)>) -> (r: (Vec<X>, Vec<Y>))
    ensures r.0@.len() == v@.len(), r.1@.len() == v@.len(), forall|i: int| 0 <= i < v@.len() ==> #[trigger] r.0@[i] == v@[i].0, forall|i: int| 0 <= i < v@.len() ==> #[trigger] r.1@[i] == v@[i].1 { unimplemented!() }
/// `*val == ending` (derived PartialEq on Token) for the two closing tokens lists end with
#[verifier::external_body] pub fn token_is(a: &Token, b: &Token) -> (r: bool)
    ensures *b is RParen ==> r == (*a is RParen), *b is RBracket ==> r == (*a is RBracket) { unimplemented!() }
pub proof fn lemma_children_items(ch: Seq<CompiledProg>, items: Seq<P<Expr>>, k: int)
    requires 0 <= k <= ch.len(), ch.len() == items.len(), forall|i: int| 0 <= i < ch.len() ==> (#[trigger] ch[i]).details@ == items[i].details && node_view(ch[i].inner) == items[i].node
    ensures all_details(ch, k) == items_details(items, k), all_consts(ch, k) == items_all_const(items, k), flat_code(ch, k) == items_code(items, k)
    decreases k
{ if k > 0 { lemma_children_items(ch, items, k - 1); } }

// unary operators on constants are functions of their operand (their own contracts: units value_arith / value_cmp)
pub uninterp spec fn op1(op: ByteCode, a: CelValue) -> CelValue;
impl vstd::std_specs::ops::NegSpecImpl for CelValue { open spec fn obeys_neg_spec() -> bool { true } open spec fn neg_req(self) -> bool { true } open spec fn neg_spec(self) -> CelValue { op1(ByteCode::Neg, self) } }
impl vstd::std_specs::ops::NotSpecImpl for CelValue { open spec fn obeys_not_spec() -> bool { true } open spec fn not_req(self) -> bool { true } open spec fn not_spec(self) -> CelValue { op1(ByteCode::Not, self) } }
impl std::ops::Neg for CelValue { type Output = CelValue; #[verifier::external_body] fn neg(self) -> CelValue { unimplemented!() } }
impl std::ops::Not for CelValue { type Output = CelValue; #[verifier::external_body] fn not(self) -> CelValue { unimplemented!() } }
impl SyntaxError {
    #[verifier::external_body] pub fn from_location(loc: SourceLocation) -> SyntaxError { unimplemented!() }
    #[verifier::external_body] pub fn with_message(self, msg: String) -> SyntaxError { unimplemented!() }
}
impl std::fmt::Debug for TokenWithLoc { #[verifier::external_body] fn fmt(&self, f: &mut std::fmt::Formatter<'_>) -> std::fmt::Result { unimplemented!() } }
impl std::fmt::Debug for SyntaxError { #[verifier::external_body] fn fmt(&self, f: &mut std::fmt::Formatter<'_>) -> std::fmt::Result { unimplemented!() } }
impl std::fmt::Debug for Token { #[verifier::external_body] fn fmt(&self, f: &mut std::fmt::Formatter<'_>) -> std::fmt::Result { unimplemented!() } }
'''


def run_contract(nots):
    T, tok, op, sp = ('NotList', 'Not', 'Not', 'sp_not_ast') if nots else ('NegList', 'Minus', 'Neg', 'sp_neg_ast')
    flag = 'true' if nots else 'false'
    props = ('C02', 'C18', 'C10')
    n = f'run_len(old(self).tokenizer.toks(), old(self).tokenizer.pos(), {flag})'
    return A(
        ret='r', attrs=['#[verifier::exec_allows_no_decreases_clause]'], requires=[CURSOR],
        ensures=[UNTOUCHED,
                 ('consumes_exactly_the_run', f'r is Ok ==> final(self).tokenizer.pos() == old(self).tokenizer.pos() + {n} && final(self).next_label == old(self).next_label', props),
                 ('look_ahead_scanned', 'r is Ok ==> final(self).tokenizer.scanned() == final(self).tokenizer.pos() + 1', ('C18',)),
                 ('one_instruction_per_token_no_identifiers', f'r is Ok ==> node_view(r->Ok_0.0.inner) == SNode::Code(rep_code(ByteCode::{op}, {n})) && r->Ok_0.0.details@ == {S.EMPTY}', ('C10', 'C17')),
                 ('one_node_per_token_spanning_to_the_end_of_the_run', f'''r is Ok && final(self).tokenizer.pos() < final(self).tokenizer.toks().len() ==>
                    r->Ok_0.1 == {sp}(old(self).tokenizer.toks(), old(self).tokenizer.pos(), {n}, zero_width(r_end(final(self).tokenizer.toks()[final(self).tokenizer.pos() as int].loc)))''', ('C02', 'C18'))],
        before={('Ok((node,', 0): f'''proof {{
    let toks = self.tokenizer.toks();
    let p0 = old(self).tokenizer.pos();
    assert(run_len(toks, p0, {flag}) == 1 + run_len(toks, p0 + 1, {flag}));
    assert(node_view(node.inner)->Code_0 =~= rep_code(ByteCode::{op}, run_len(toks, p0 + 1, {flag})) + seq![bc(ByteCode::{op})]);
    assert(node.details@ =~= {S.EMPTY});
}}'''},
        rewrites=[('Some(&TokenWithLoc {', 'Some(TokenWithLoc {', 'R5: Verus has no `&` patterns: the pattern uses the default binding mode instead (loc is then a reference, copied out at the start of the arm as the `&` pattern did)'),
                  ],
        arm_begin={'Some(&TokenWithLoc { token: Token::%s, loc, })' % tok: 'let loc: SourceRange = *loc;   /* R5: the `&` pattern copied the span */'},
        props=props + ('C17', 'C01'))


UNARY_PROPS = ('C02', 'C18', 'C17', 'C09', 'C10')


def unary_contract(stub=False):
    return A(stub=stub, ret='r', attrs=[] if stub else ['#[verifier::exec_allows_no_decreases_clause]'], requires=[CURSOR],
             ensures=P.parse_level('unary', 'Unary', None, UNARY_PROPS).ensures, props=UNARY_PROPS + ('C01',))


PRIMARY_PROPS = ('C02', 'C18', 'C17', 'C13', 'C09', 'C10', 'C14')
T0 = 'old(self).tokenizer.toks()[old(self).tokenizer.pos() as int]'
ONE = 'final(self).tokenizer.pos() == old(self).tokenizer.pos() + 1 && final(self).next_label == old(self).next_label'


def primary_contract(stub=False):
    def lit(variant, prim, val):
        v = f'{T0}.token->{variant}_0'
        return f"""r is Ok && {T0}.token is {variant} ==> {ONE} && simple_primary(r->Ok_0, {T0}, {prim.replace('(v)', '(' + v + ')')}, {val.replace('(v)', '(' + v + ')')})"""
    ens = [
        UNTOUCHED,
        ('consumes_a_token', 'r is Ok ==> old(self).tokenizer.pos() < old(self).tokenizer.toks().len() && final(self).tokenizer.pos() > old(self).tokenizer.pos()', ('C02',)),
        ('identifier_reads_the_variable_and_reports_its_name', f"""r is Ok && {T0}.token is Ident ==> ({{
            let name = {T0}.token->Ident_0;
            &&& {ONE}
            &&& a_loc(r->Ok_0.1) == {T0}.loc
            &&& a_node(r->Ok_0.1) is Ident && a_node(r->Ok_0.1)->Ident_0.0@ == name@
            &&& r->Ok_0.0.details@ == Set::<Seq<char>>::empty().insert(name@)
            &&& node_view(r->Ok_0.0.inner) is Code && node_view(r->Ok_0.0.inner)->Code_0.len() == 1
            &&& node_view(r->Ok_0.0.inner)->Code_0[0] is Bytecode && node_view(r->Ok_0.0.inner)->Code_0[0]->Bytecode_0 is Push
            &&& node_view(r->Ok_0.0.inner)->Code_0[0]->Bytecode_0->Push_0 is Ident && node_view(r->Ok_0.0.inner)->Code_0[0]->Bytecode_0->Push_0->Ident_0@ == name@
        }})""", ('C17', 'C18', 'C10')),
        ('parentheses_are_the_enclosed_expression', f"""r is Ok && {T0}.token is LParen ==> ({{
            let toks = old(self).tokenizer.toks();
            let e = sp_expr(toks, old(self).tokenizer.pos() + 1, old(self).next_label);
            &&& e is Some && e->Some_0.end < toks.len() && toks[e->Some_0.end as int].token is RParen
            &&& final(self).tokenizer.pos() == e->Some_0.end + 1 && final(self).next_label == e->Some_0.lbl
            &&& r->Ok_0.1 == mk_ast(Primary::Parens(e->Some_0.ast), hull({T0}.loc, toks[e->Some_0.end as int].loc))
            &&& node_view(r->Ok_0.0.inner) == e->Some_0.node && r->Ok_0.0.details@ == e->Some_0.details
        }})""", ('C02', 'C18', 'C17', 'C09')),
        ('uint_literal', lit('UIntLit', 'Primary::Literal(LiteralsAndKeywords::UnsignedLit(v))', 'CelValue::UInt(v)'), ('C13', 'C18')),
        ('int_literal_in_range', f"r is Ok && {T0}.token is IntLit && {T0}.token->IntLit_0 <= i64::MAX ==> {ONE} && simple_primary(r->Ok_0, {T0}, Primary::Literal(LiteralsAndKeywords::IntegerLit({T0}.token->IntLit_0 as i64)), CelValue::Int({T0}.token->IntLit_0 as i64))", ('C13', 'C18')),
        ('float_literal', lit('FloatLit', 'Primary::Literal(LiteralsAndKeywords::FloatingLit(v))', 'CelValue::Float(v)'), ('C13', 'C18')),
        ('bool_literal', lit('BoolLit', 'Primary::Literal(LiteralsAndKeywords::BooleanLit(v))', 'CelValue::Bool(v)'), ('C13', 'C18')),
        ('null_literal', f"r is Ok && {T0}.token is Null ==> {ONE} && simple_primary(r->Ok_0, {T0}, Primary::Literal(LiteralsAndKeywords::NullLit), CelValue::Null)", ('C13', 'C18')),
        ('string_literal', f"""r is Ok && {T0}.token is StringLit ==> {ONE} && a_loc(r->Ok_0.1) == {T0}.loc && r->Ok_0.0.details@ == Set::<Seq<char>>::empty()
            && a_node(r->Ok_0.1) is Literal && a_node(r->Ok_0.1)->Literal_0 is StringLit && a_node(r->Ok_0.1)->Literal_0->StringLit_0@ == {T0}.token->StringLit_0@
            && node_view(r->Ok_0.0.inner) is Const && node_view(r->Ok_0.0.inner)->Const_0 is String && node_view(r->Ok_0.0.inner)->Const_0->String_0@ == {T0}.token->StringLit_0@""", ('C13', 'C18')),
        ('bytes_literal', f"""r is Ok && {T0}.token is ByteStringLit ==> {ONE} && a_loc(r->Ok_0.1) == {T0}.loc && r->Ok_0.0.details@ == Set::<Seq<char>>::empty()
            && a_node(r->Ok_0.1) is Literal && a_node(r->Ok_0.1)->Literal_0 is ByteStringLit && a_node(r->Ok_0.1)->Literal_0->ByteStringLit_0@ == {T0}.token->ByteStringLit_0@
            && node_view(r->Ok_0.0.inner) is Const && node_view(r->Ok_0.0.inner)->Const_0 is Bytes && node_view(r->Ok_0.0.inner)->Const_0->Bytes_0@ == {T0}.token->ByteStringLit_0@""", ('C13', 'C18')),
    ]
    ens.append(('list_literal_holds_its_elements_in_order', f"""r is Ok && {T0}.token is LBracket ==> ({{
            let toks = old(self).tokenizer.toks();
            let l = sp_expr_list(toks, old(self).tokenizer.pos() + 1, old(self).next_label, Token::RBracket);
            &&& l is Some && l->Some_0.end < toks.len() && toks[l->Some_0.end as int].token is RBracket
            &&& final(self).tokenizer.pos() == l->Some_0.end + 1 && final(self).next_label == l->Some_0.lbl
            &&& ({{ let items = l->Some_0.items; let n = items.len() as int; let span = hull({T0}.loc, toks[l->Some_0.end as int].loc);
                &&& r->Ok_0.1 == mk_ast(Primary::ListConstruction(mk_ast(ExprList {{ exprs: vec_of_exprs(items_asts(items)) }}, span)), span)
                &&& r->Ok_0.0.details@ == items_details(items, n)
                &&& (if items_all_const(items, n) {{
                        exists|vals: Seq<CelValue>| vals.len() == n && (forall|i: int| 0 <= i < n ==> items[i].node == SNode::Const(#[trigger] vals[i])) && node_view(r->Ok_0.0.inner) == SNode::Const(list_val(vals))
                    }} else {{
                        node_view(r->Ok_0.0.inner) is Code && node_view(r->Ok_0.0.inner)->Code_0 =~= items_code(items, n) + lift(seq![ByteCode::MkList(n as u32)])
                    }})
            }})
        }})""", ('C06', 'C09', 'C17', 'C18', 'C02', 'C10')))
    ens.append(('format_string_converts_every_segment_with_string_and_joins_them', f"""r is Ok && {T0}.token is FStringLit ==> ({{
            let segs = {T0}.token->FStringLit_0@;
            let n = segs.len() as int;
            &&& {ONE}
            &&& a_loc(r->Ok_0.1) == {T0}.loc && a_node(r->Ok_0.1) is Literal && a_node(r->Ok_0.1)->Literal_0 is FStringList
            &&& r->Ok_0.0.details@ == fstr_details(segs, n)
            &&& node_view(r->Ok_0.0.inner) is Code && ({{ let code = node_view(r->Ok_0.0.inner)->Code_0;
                &&& code.len() == 3 * n + 1 && code[3 * n] == bc(ByteCode::FmtString(n as u32))
                &&& forall|i: int| 0 <= i < n ==> seg_ok(#[trigger] code[3 * i], code[3 * i + 1], code[3 * i + 2], segs[i])
            }})
        }})""", ('C14', 'C17', 'C10', 'C18')))
    ens.append(('map_literal_holds_its_entries_in_order', f"""r is Ok && {T0}.token is LBrace ==> ({{
            let toks = old(self).tokenizer.toks();
            let l = sp_obj_inits(toks, old(self).tokenizer.pos() + 1, old(self).next_label);
            &&& l is Some && l->Some_0.end < toks.len() && toks[l->Some_0.end as int].token is RBrace
            &&& final(self).tokenizer.pos() == l->Some_0.end + 1 && final(self).next_label == l->Some_0.lbl
            &&& ({{ let pairs = l->Some_0.pairs; let items = flat_items(pairs); let n = items.len() as int; let span = hull({T0}.loc, toks[l->Some_0.end as int].loc);
                &&& r->Ok_0.1 == mk_ast(Primary::ObjectInit(mk_ast(ObjInits {{ inits: vec_of_inits(pair_asts(pairs)) }}, span)), span)
                &&& r->Ok_0.0.details@ == items_details(items, n)
                &&& (if items_all_const(items, n) {{
                        exists|vals: Seq<CelValue>| vals.len() == n && (forall|i: int| 0 <= i < n ==> items[i].node == SNode::Const(#[trigger] vals[i]))
                            && node_view(r->Ok_0.0.inner) is Const && lit_map_result(vals, node_view(r->Ok_0.0.inner)->Const_0)
                    }} else {{
                        node_view(r->Ok_0.0.inner) is Code && node_view(r->Ok_0.0.inner)->Code_0 =~= items_code(items, n) + lift(seq![ByteCode::MkDict(((2 * pairs.len()) as u32 / 2) as u32)])
                    }})
            }})
        }})""", ('C06', 'C09', 'C17', 'C18', 'C02', 'C10')))
    if stub:
        return A(stub=True, ret='r', requires=[CURSOR], ensures=ens)
    drop = lambda what: ('{ unverified_primary_arm() }', f'{what}: iterator unzip / step_by / a nested compiler, outside what Verus accepts; NOT VERIFIED')
    return A(ret='r', attrs=['#[verifier::exec_allows_no_decreases_clause]'], requires=[CURSOR], ensures=ens,
             arm_replace={},
             closures={0: dict(types=['Vec<CelValue>'], ret='res: CelValue', ensures=[('the_list_of_the_values', 'res == list_val(c@)', ('C06', 'C09'))]),
                       1: dict(types=['Vec<CelValue>'], ret='res: CelValue', requires=[('value_then_key_per_entry', 'vals@.len() % 2 == 0')],
                               ensures=[('last_entry_wins_for_a_repeated_key_and_keys_must_be_strings', 'lit_map_result(vals@, res)', ('C06', 'C09'))])},
             loops={2: dict(header='for i in (0..vals.len()).step_by(2)', ghost='it2', invariant=[
                 ('even_indices', 'vals@.len() % 2 == 0 && it2.seq().len() == vals@.len() / 2 && forall|j: int| 0 <= j < it2.seq().len() ==> it2.seq()[j] == 2 * j'),
                 ('entries_so_far_last_one_wins', 'lit_map_ok(obj_map@, vals@, it2.index@ as int)', ('C06', 'C09'))],
                 pre='let ghost j0 = it2.index@ as int; let ghost om = obj_map@; assert(i == 2 * j0);',
                 post='''proof {
    assert(key_at(vals@, j0) == CelValue::String(*key));
    assert(val_at(vals@, j0) == vals@[i as int]);
    assert forall|k: String| #[trigger] obj_map@.contains_key(k) implies exists|j: int| 0 <= j < j0 + 1 && (#[trigger] key_at(vals@, j)) == CelValue::String(k) by {
        if om.contains_key(k) { let j = choose|j: int| 0 <= j < j0 && (#[trigger] key_at(vals@, j)) == CelValue::String(k); assert(key_at(vals@, j) == CelValue::String(k)); } else { assert(k == *key); }
    }
    assert forall|j: int| 0 <= j < j0 + 1 && (forall|j2: int| j < j2 < j0 + 1 ==> (#[trigger] key_at(vals@, j2)) != key_at(vals@, j)) implies obj_map@[key_at(vals@, j)->String_0] == #[trigger] val_at(vals@, j) by {
        if j < j0 { assert(key_at(vals@, j0) != key_at(vals@, j)); assert(forall|j2: int| j < j2 < j0 ==> (#[trigger] key_at(vals@, j2)) != key_at(vals@, j)); }
    }
}'''),
                    1: dict(header='for segment in segments.iter()', ghost='it', invariant=[
                 ('segments_so_far', '''self.tokenizer.toks() == old(self).tokenizer.toks() && self.tokenizer.pos() == old(self).tokenizer.pos() + 1 && self.tokenizer.pos() <= self.tokenizer.toks().len() && self.next_label == old(self).next_label && self.bindings == old(self).bindings
                    && bytecode@.len() == 3 * it.index@ && details@ == fstr_details(segments@, it.index@ as int)
                    && (forall|i: int| 0 <= i < it.index@ ==> seg_ok(#[trigger] bytecode@[3 * i], bytecode@[3 * i + 1], bytecode@[3 * i + 2], segments@[i]))''', ('C14', 'C17', 'C10'))],
                 pre='let ghost b0 = bytecode@; let ghost k0 = it.index@ as int;',
                 post='''proof {
    assert(bytecode@.len() == 3 * (k0 + 1));
    assert forall|i: int| 0 <= i < k0 + 1 implies seg_ok(#[trigger] bytecode@[3 * i], bytecode@[3 * i + 1], bytecode@[3 * i + 2], segments@[i]) by {
        if i < k0 { assert(bytecode@[3 * i] == b0[3 * i] && bytecode@[3 * i + 1] == b0[3 * i + 1] && bytecode@[3 * i + 2] == b0[3 * i + 2]); }
    }
}'''),
                    0: dict(header='while let Some(val_ast) = children_ast_iter.next()', invariant=[
                 ('entries_paired_key_then_value', '''init_asts@.len() <= l1.pairs.len() && init_asts@ =~= pair_asts(l1.pairs).take(init_asts@.len() as int)
                    && children_ast_iter.rest() =~= items_asts(flat_items(l1.pairs)).skip(2 * init_asts@.len() as int)''', ('C02', 'C18'))],
                 ensures=[('all_entries_consumed', 'children_ast_iter.rest().len() == 0', ('C02',))],
                 pre='''let ghost j0 = init_asts@.len() as int; let ghost fa = items_asts(flat_items(l1.pairs));
proof {
    assert(fa.len() == 2 * l1.pairs.len());
    assert(fa.skip(2 * j0).len() > 0 ==> j0 < l1.pairs.len());
    if j0 < l1.pairs.len() {
        assert(fa.skip(2 * j0)[0] == fa[2 * j0] && fa[2 * j0] == l1.pairs[j0].1.ast);
        assert(fa.skip(2 * j0).skip(1)[0] == fa[2 * j0 + 1] && fa[2 * j0 + 1] == l1.pairs[j0].0.ast);
        assert(fa.skip(2 * j0).skip(1).skip(1) =~= fa.skip(2 * (j0 + 1)));
    }
}''',
                 post='''proof {
    assert(pair_asts(l1.pairs).take(j0 + 1) =~= pair_asts(l1.pairs).take(j0).push(pair_asts(l1.pairs)[j0]));
}''')},
             rewrites=[('Some(&TokenWithLoc { token: Token::RBrace, loc: rbrace_loc, })', 'Some(TokenWithLoc { token: Token::RBrace, loc: rbrace_loc, })', 'R5: `&` pattern -> default binding mode (the span is copied out before the tokenizer is used again)'),
                       ('self.tokenizer.next()?; loc.surrounding(rbrace_loc)', 'let rbrace_loc: SourceRange = *rbrace_loc; self.tokenizer.next()?; loc.surrounding(rbrace_loc)', 'R5: the copy the `&` pattern made'),
                       ('CelCompiler::with_tokenizer(&mut tok)', 's_compiler_for(&mut tok)', 'R2: unsizing &mut StringTokenizer -> &mut dyn Tokenizer is outside Verus: trampoline with the contract of with_tokenizer'),
                       ('bytecode.into_iter().collect()', 's_collect_points(bytecode)', 'R2m: Vec::into_iter().collect() into pre-resolved code -> trampoline (assumed: the same points in order)'),
                       ('obj_init.into_iter().unzip()', 's_unzip(obj_init)', 'R2m: Vec::into_iter().unzip() -> trampoline'),
                       ('(0..vals.len()).step_by(2)', 's_step_by(0..vals.len(), 2)', 'R2m: Range::step_by -> materialized stand-in (assumed: start, start + step, ... below the end)'),
                       ('children_ast.into_iter()', 's_ast_iter(children_ast)', 'R2m: a vec::IntoIter driven by hand -> stand-in iterator (assumed: yields the elements in order)'),
                       ('expr_node_list.into_iter().unzip()', 's_unzip(expr_node_list)', 'R2m: Vec::into_iter().unzip() -> trampoline (assumed: the two component vectors, in order)')],
             before={'return CelValue::from_err(CelError::value( "Only strings can be object keys"': 'proof { assert(!(key_at(vals@, j0) is String)); }',
                     'let new_ast = AstNode::new(': '''proof {
    let fa = items_asts(flat_items(l1.pairs));
    assert(fa.skip(2 * init_asts@.len() as int).len() == 0);
    assert(init_asts@.len() == l1.pairs.len());
    assert(init_asts@ =~= pair_asts(l1.pairs));
}'''},
             after={('stmt', 'let obj_init =', 0): 'let ghost l1 = sp_obj_inits(self.tokenizer.toks(), old(self).tokenizer.pos() + 1, old(self).next_label)->Some_0;',
                    ('stmt', 'let (compiled_children, children_ast): (Vec<_>, Vec<_>) =', 0): '''proof {
    lemma_children_items(compiled_children@, flat_items(l1.pairs), 2 * l1.pairs.len() as int);
    assert(children_ast@ =~= items_asts(flat_items(l1.pairs)));
}''',

                    ('stmt', 'let expr_node_list =', 0): 'let ghost l0 = sp_expr_list(self.tokenizer.toks(), old(self).tokenizer.pos() + 1, old(self).next_label, Token::RBracket)->Some_0;',
                    ('stmt', 'let (expr_list, expr_list_ast): (Vec<_>, Vec<_>) =', 0): '''proof {
    lemma_children_items(expr_list@, l0.items, l0.items.len() as int);
    assert(expr_list_ast@ =~= items_asts(l0.items));
}'''},
             props=PRIMARY_PROPS + ('C06', 'C01'))


def expr_list_contract():
    STATE = 'EL { items: items0, end: self.tokenizer.pos(), lbl: self.next_label }'
    EL0 = 'EL { items: Seq::empty(), end: old(self).tokenizer.pos(), lbl: old(self).next_label }'
    REL = '(forall|i: int| 0 <= i < exprs@.len() ==> (#[trigger] exprs@[i]).1 == items0[i].ast && exprs@[i].0.details@ == items0[i].details && node_view(exprs@[i].0.inner) == items0[i].node)'
    return A(
        ret='r', attrs=['#[verifier::exec_allows_no_decreases_clause]'], requires=[CURSOR, S.ENDING_REQ], ensures=[UNTOUCHED, S.EXPR_LIST_CLAUSE],
        body_begin='let ghost mut items0: Seq<P<Expr>> = Seq::empty();',
        loops={0: dict(
            invariant=[('token_stream_untouched', 'self.tokenizer.toks() == old(self).tokenizer.toks() && self.tokenizer.pos() <= self.tokenizer.toks().len() && self.bindings == old(self).bindings && self.tokenizer.pos() >= old(self).tokenizer.pos() && (ending is RParen || ending is RBracket)'),
                       ('elements_so_far', f'exprs@.len() == items0.len() && {REL}', ('C02', 'C17'))],
            invariant_except_break=[('prefix_parsed', f'sp_el_loop(self.tokenizer.toks(), {EL0}, ending) == sp_el_loop(self.tokenizer.toks(), {STATE}, ending)', ('C02',))],
            ensures=[('list_complete', f'sp_el_loop(self.tokenizer.toks(), {EL0}, ending) == Some({STATE})', ('C02',))],
            pre=f'let ghost acc0 = {STATE};')},
        after={('stmt', 'let compiled =', 0): 'let ghost e1 = P { ast: compiled.1, end: self.tokenizer.pos(), lbl: self.next_label, details: compiled.0.details@, node: node_view(compiled.0.inner) };',
               ('stmt', 'exprs.push(compiled)', 0): 'proof { items0 = items0.push(e1); assert(sp_expr(self.tokenizer.toks(), acc0.end, acc0.lbl) == Some(e1)); }'},
        rewrites=[('let mut exprs = Vec::new();', 'let mut exprs: Vec<(CompiledProg, AstNode<Expr>)> = Vec::new();', 'R9: inferred type of a local made explicit (the invariant mentions it before its first use)'),
                  ('*val == ending', 'token_is(val, &ending)', 'R2: derived PartialEq on Token -> token_is (assumed: equality with a closing bracket token is a variant test)')],
        props=('C02', 'C17', 'C18', 'C01'))


def obj_inits_contract():
    STATE = 'OL { pairs: pairs0, end: self.tokenizer.pos(), lbl: self.next_label }'
    OL0 = 'OL { pairs: Seq::empty(), end: old(self).tokenizer.pos(), lbl: old(self).next_label }'
    REL = '(forall|i: int| 0 <= i < pairs0.len() ==> (#[trigger] inits@[2 * i]).1 == pairs0[i].1.ast && inits@[2 * i].0.details@ == pairs0[i].1.details && node_view(inits@[2 * i].0.inner) == pairs0[i].1.node && inits@[2 * i + 1].1 == pairs0[i].0.ast && inits@[2 * i + 1].0.details@ == pairs0[i].0.details && node_view(inits@[2 * i + 1].0.inner) == pairs0[i].0.node)'
    return A(
        ret='r', attrs=['#[verifier::exec_allows_no_decreases_clause]'], requires=[CURSOR],
        ensures=[UNTOUCHED, ('entries_value_then_key', """r is Ok ==> ({
                let l = sp_obj_inits(old(self).tokenizer.toks(), old(self).tokenizer.pos(), old(self).next_label);
                &&& l is Some && final(self).tokenizer.pos() == l->Some_0.end && final(self).next_label == l->Some_0.lbl && final(self).tokenizer.pos() >= old(self).tokenizer.pos()
                &&& r->Ok_0@.len() == 2 * l->Some_0.pairs.len()
                &&& forall|i: int| 0 <= i < r->Ok_0@.len() ==> (#[trigger] r->Ok_0@[i]).1 == flat_items(l->Some_0.pairs)[i].ast && r->Ok_0@[i].0.details@ == flat_items(l->Some_0.pairs)[i].details && node_view(r->Ok_0@[i].0.inner) == flat_items(l->Some_0.pairs)[i].node
            })""", ('C02', 'C06', 'C17'))],
        body_begin='let ghost mut pairs0: Seq<(P<Expr>, P<Expr>)> = Seq::empty();',
        loops={0: dict(
            invariant=[('token_stream_untouched', 'self.tokenizer.toks() == old(self).tokenizer.toks() && self.tokenizer.pos() <= self.tokenizer.toks().len() && self.bindings == old(self).bindings && self.tokenizer.pos() >= old(self).tokenizer.pos()'),
                       ('entries_so_far', f'inits@.len() == 2 * pairs0.len() && {REL}', ('C02', 'C17'))],
            invariant_except_break=[('prefix_parsed', f'sp_oi_loop(self.tokenizer.toks(), {OL0}) == sp_oi_loop(self.tokenizer.toks(), {STATE})', ('C02',))],
            ensures=[('map_complete', f'sp_oi_loop(self.tokenizer.toks(), {OL0}) == Some({STATE})', ('C02',))],
            pre=f'let ghost acc0 = {STATE};')},
        after={('stmt', 'let compiled_key =', 0): 'let ghost k1 = P { ast: compiled_key.1, end: self.tokenizer.pos(), lbl: self.next_label, details: compiled_key.0.details@, node: node_view(compiled_key.0.inner) };',
               ('stmt', 'let compiled_value =', 0): 'let ghost v1 = P { ast: compiled_value.1, end: self.tokenizer.pos(), lbl: self.next_label, details: compiled_value.0.details@, node: node_view(compiled_value.0.inner) };',
               ('stmt', 'inits.push(compiled_key)', 0): 'proof { pairs0 = pairs0.push((k1, v1)); assert(sp_expr(self.tokenizer.toks(), acc0.end, acc0.lbl) == Some(k1)); assert(sp_expr(self.tokenizer.toks(), k1.end + 1, k1.lbl) == Some(v1)); }'},
        before={'Ok(inits)': '''proof {
    let fl = flat_items(pairs0);
    assert forall|i: int| 0 <= i < inits@.len() implies (#[trigger] inits@[i]).1 == fl[i].ast && inits@[i].0.details@ == fl[i].details && node_view(inits@[i].0.inner) == fl[i].node by {
        let q = i / 2;
        assert(0 <= q < pairs0.len());
        assert(inits@[2 * q].1 == pairs0[q].1.ast);
        if i % 2 == 0 { assert(i == 2 * q); assert(fl[i] == pairs0[q].1); } else { assert(i == 2 * q + 1); assert(fl[i] == pairs0[q].0); }
    }
}'''},
        rewrites=[('let mut inits = Vec::new();', 'let mut inits: Vec<(CompiledProg, AstNode<Expr>)> = Vec::new();', 'R9: inferred type of a local made explicit'),
                  ('self.tokenizer.peek()?.as_token() == Some(&Token::RBrace)', 'opt_ref_tok_is_rbrace(self.tokenizer.peek()?.as_token())', 'R2: derived PartialEq on Option<&Token> -> variant test'),
                  ('next_token != Some(Token::Colon)', '!opt_tok_is_colon(&next_token)', 'R2: derived PartialEq on Option<Token> -> variant test')],
        props=('C02', 'C06', 'C17', 'C18', 'C01'))



MAP_LEMMAS = r"""
// ---- a folded map literal is the map the VM would build (C06: "identically at compile time and run time") -------------------------
// dict_state is the postcondition of the VM's MkDict arm (unit interp_vm_g6), its text is taken from there at generation time
%s
/// the VM pops the n (value, key) pairs last-written first: keys[t] / rvals[t] are entry n-1-t of the source
pub open spec fn popped_order(vals: Seq<CelValue>, n: int, keys: Seq<String>, rvals: Seq<CelValue>) -> bool {
    &&& n >= 0 && vals.len() == 2 * n && keys.len() == n && rvals.len() == n
    &&& forall|t: int| 0 <= t < n ==> key_at(vals, n - 1 - t) == CelValue::String(#[trigger] keys[t]) && val_at(vals, n - 1 - t) == rvals[t]
}
pub proof fn lemma_folded_map_is_the_runtime_map(m: Map<String, CelValue>, vals: Seq<CelValue>, n: int, keys: Seq<String>, rvals: Seq<CelValue>)
    requires popped_order(vals, n, keys, rvals), lit_map_ok(m, vals, n)
    ensures dict_state(m, keys, rvals)
{
    assert forall|t: int| 0 <= t < keys.len() implies m.contains_key(#[trigger] keys[t]) by {
        assert(key_at(vals, n - 1 - t) == CelValue::String(keys[t]));
    }
    assert forall|k: String| #[trigger] m.contains_key(k) implies exists|t: int| 0 <= t < keys.len() && keys[t] == k by {
        let j = choose|j: int| 0 <= j < n && (#[trigger] key_at(vals, j)) == CelValue::String(k);
        let t = n - 1 - j;
        assert(key_at(vals, n - 1 - t) == CelValue::String(keys[t]));
        assert(keys[t] == k);
    }
    assert forall|t: int| 0 <= t < keys.len() && (forall|t2: int| 0 <= t2 < t ==> keys[t2] != keys[t]) implies m[#[trigger] keys[t]] == rvals[t] by {
        let j = n - 1 - t;
        assert(key_at(vals, j) == CelValue::String(keys[t]));
        assert forall|j2: int| j < j2 < n implies (#[trigger] key_at(vals, j2)) != key_at(vals, j) by {
            let t2 = n - 1 - j2;
            assert(key_at(vals, n - 1 - t2) == CelValue::String(keys[t2]));
            assert(keys[t2] != keys[t]);
        }
        assert(m[key_at(vals, j)->String_0] == val_at(vals, j));
    }
}
pub proof fn lemma_runtime_map_is_the_folded_map(m: Map<String, CelValue>, vals: Seq<CelValue>, n: int, keys: Seq<String>, rvals: Seq<CelValue>)
    requires popped_order(vals, n, keys, rvals), dict_state(m, keys, rvals)
    ensures lit_map_ok(m, vals, n)
{
    assert forall|j: int| 0 <= j < n implies (#[trigger] key_at(vals, j)) is String && m.contains_key(key_at(vals, j)->String_0) by {
        let t = n - 1 - j; assert(key_at(vals, n - 1 - t) == CelValue::String(keys[t]));
    }
    assert forall|k: String| #[trigger] m.contains_key(k) implies exists|j: int| 0 <= j < n && (#[trigger] key_at(vals, j)) == CelValue::String(k) by {
        let t = choose|t: int| 0 <= t < keys.len() && keys[t] == k;
        assert(key_at(vals, n - 1 - t) == CelValue::String(keys[t]));
    }
    assert forall|j: int| 0 <= j < n && (forall|j2: int| j < j2 < n ==> (#[trigger] key_at(vals, j2)) != key_at(vals, j)) implies m[key_at(vals, j)->String_0] == #[trigger] val_at(vals, j) by {
        let t = n - 1 - j;
        assert(key_at(vals, n - 1 - t) == CelValue::String(keys[t]));
        assert forall|t2: int| 0 <= t2 < t implies keys[t2] != keys[t] by {
            let j2 = n - 1 - t2;
            assert(key_at(vals, n - 1 - t2) == CelValue::String(keys[t2]));
            assert(key_at(vals, j2) != key_at(vals, j));
        }
        assert(m[keys[t]] == rvals[t]);
    }
}
"""

def build():
    U = Unit('parser_unary')
    U.global_rewrites.append(C.DYN_REWRITE)
    U.raw(C.HEADER, 'header')
    U.raw(C.STANDINS, 'S1 stand-ins')
    C.value_types(U)
    S.compiler_types(U, grammar='all')
    U.extract(S.CPR, 'macro_rules compile')
    U.extract(S.CP, 'struct CelCompiler')
    U.raw(C.DERIVED, 'assumed derived impls')
    U.raw(C.VALUE_SPECS + C.TRUTHY_SPEC, 'shared vocabulary')
    U.raw(C.TRAIT_FULL, 'CelValueDyn restated')
    U.raw('impl View for CelByteCode { type V = Seq<ByteCode>; closed spec fn view(&self) -> Seq<ByteCode> { self.inner@ } }\n' + S.core_with_full_tokenizer() + S.ITER + S.FCWB_SPEC + SPEC.replace('// ---- list literals', S.EXPR_LIST_SPEC + '// ---- list literals') + S.BINDCTX_AMBIENT, 'grammar specs')
    U.raw(C.STD_SPECS, 'assumed std specs')
    U.raw(S.axioms().replace('ax::axiom_vec_bytecode_len, ', 'ax::axiom_vec_bytecode_len, axl::axiom_vec_of_exprs, axl::axiom_list_from_values, axo::axiom_vec_of_inits, '), 'axioms')
    U.extract(C.CE, 'impl From<SyntaxError> for CelError', fns={'from': A(ret='r', ensures=[('def', 'r == CelError::Syntax(value)')], props=('C01',))})
    U.extract('rscel/src/compiler/tokenizer.rs', 'impl AsToken for Option<&TokenWithLoc>', fns={
        'as_token': A(ret='r', ensures=[('def', '(match *self { Some(s) => r == Some(&s.token), None => r is None })')], props=('C02', 'C01'))})
    U.extract('rscel/src/compiler/tokens.rs', 'trait IntoToken')
    U.extract('rscel/src/compiler/tokenizer.rs', 'impl TokenWithLoc', fns={'into_token': A(ret='r', ensures=[('def', 'r == self.token')], props=('C01',))}, others='stub')
    U.extract('rscel/src/compiler/tokenizer.rs', 'impl IntoToken for Option<TokenWithLoc>', fns={'into_token': A(ret='r', ensures=[('def', '(match self { Some(t) => r == Some(t.token), None => r is None })')], props=('C02', 'C01'))})
    U.extract('rscel/src/compiler/tokenizer.rs', 'impl AsToken for &TokenWithLoc', fns={'as_token': A(ret='r', ensures=[('def', 'r == Some(&self.token)')], props=('C01',))})
    U.extract('rscel/src/compiler/tokenizer.rs', 'impl AsToken for TokenWithLoc', fns={'as_token': A(ret='r', ensures=[('def', 'r == Some(&self.token)')], props=('C01',))})
    U.extract('rscel/src/compiler/source_range.rs', 'impl SourceRange', fns={
        'new': A(ret='r', ensures=[('def', 'r == mk_range(start, end)')], props=('C18', 'C01')),
        'start': A(ret='r', ensures=[('def', 'r == r_start(*self)')], props=('C18', 'C01')),
        'end': A(ret='r', ensures=[('def', 'r == r_end(*self)')], props=('C18', 'C01')),
        'surrounding': A(stub=True, ret='r', ensures=[('smallest_span_containing_both', 'r == hull(self, other)')]),
    }, others='stub')
    U.extract('rscel/src/compiler/ast_node.rs', 'impl<T> AstNode<T>', fns={
        'new': A(ret='r', ensures=[('def', 'r == mk_ast(node, loc)')], props=('C18', 'C01')),
        'range': A(ret='r', ensures=[('def', 'r == a_loc(*self)')], props=('C18', 'C01')),
    }, others='stub')
    U.extract(S.GR, 'impl FromUnary for Unary', fns={'from_unary': A(ret='r', ensures=[('def', 'r == Unary::Member(inner)')], props=('C02', 'C01'))})
    U.extract(S.GR, 'fn into_unary', annot=A(stub=True, ret='r', ensures=[('wraps', 'r.0 == v.0 && exists|n: U| call_ensures(U::from_unary, (v.1,), n) && r.1 == mk_ast(n, a_loc(v.1))')]))
    U.extract('rscel/src/program/program_details.rs', 'impl ProgramDetails', fns=S.stubbed(S.DETAILS))
    U.extract(S.PR, 'impl From<ByteCode> for PreResolvedCodePoint', fns={'from': A(ret='r', ensures=[('def', 'r == PreResolvedCodePoint::Bytecode(value)')], props=('C10', 'C01'))})
    U.extract(S.PR, 'impl PreResolvedByteCode', fns={
        'new': A(stub=True, ret='r', ensures=[('empty', 'r@.len() == 0')]),
        'extend': A(stub=True, ensures=[('appends_in_order', 'final(self)@ == old(self)@ + points_of(byte_codes)')]),
        'into_iter': A(external_body=True, ret='r', ensures=[('yields_the_points_in_order', 'points_of(r) == self@')]),
        'resolve': A(stub=True, ret='r', ensures=[('the_resolved_block', 'r@ == resolved(self@)'), ('ASSUMED_labels_of_compiler_output_are_unique_and_defined', 'true')]),
    }, others='stub')
    U.extract(C.CE, 'impl CelError', fns={}, others='stub')
    U.extract(C.CV, 'impl CelValue', fns={
        'from_ident': A(stub=True, ret='r', ensures=[('def', 'r is Ident && r->Ident_0@ == val@')]),
        'from_null': C.simple_ctor(C.CTORS['from_null'], stub=True),
        'from_int': C.simple_ctor(C.CTORS['from_int'], stub=True), 'from_uint': C.simple_ctor(C.CTORS['from_uint'], stub=True),
        'from_float': C.simple_ctor(C.CTORS['from_float'], stub=True), 'from_bool': C.simple_ctor(C.CTORS['from_bool'], stub=True),
        'from_string': C.simple_ctor(C.CTORS['from_string'], stub=True), 'from_map': C.simple_ctor(C.CTORS['from_map'], stub=True), 'from_err': C.simple_ctor(C.CTORS['from_err'], stub=True),
    }, others='stub')
    U.raw(C.FROM_SPEC_IMPLS, 'From spec impls')
    C.from_impls(U, which=('i64', 'u64', 'f64', 'bool', 'CelError'))
    U.extract(C.CV, 'impl From<String> for CelValue', fns={'from': C.simple_ctor('r == CelValue::String(val)')})
    U.extract(C.CV, 'impl From<CelBytes> for CelValue', fns={'from': C.simple_ctor('r == CelValue::Bytes(value)')})
    U.extract(C.CV, 'impl From<HashMap<String, CelValue>> for CelValue', fns={'from': C.simple_ctor('r == CelValue::Map(val)')})
    U.raw('impl vstd::std_specs::convert::FromSpecImpl<HashMap<String, CelValue>> for CelValue { open spec fn obeys_from_spec() -> bool { true } open spec fn from_spec(v: HashMap<String, CelValue>) -> Self { CelValue::Map(v) } }', 'From spec impl (maps)')
    U.extract('rscel/src/types/cel_bytes.rs', 'impl Into<Vec<u8>> for CelBytes', fns={'into': A(props=('C13', 'C01'))})
    cp = S.stubbed(S.compprog_contracts())
    cp['from_children_w_bytecode'] = S.stubbed({'x': S.FCWB})['x']
    U.extract(S.CPR, 'impl CompiledProg', fns=cp, others='stub', skip=('into_program',))
    U.extract(C.CV, 'impl<T: Into<CelValue>> From<Vec<T>> for CelValue', fns={'from': A(stub=True)})
    U.extract(S.CPR, 'impl NodeValue', fns=S.stubbed(S.NODEVALUE))
    U.extract(S.CP, "impl<'l> CelCompiler<'l>", fns={
        'parse_member': A(stub=True, ret='r', requires=[CURSOR], ensures=[UNTOUCHED, result_clause(f'sp_member({HERE})', ())]),
        'parse_expression': A(stub=True, ret='r', requires=[CURSOR], ensures=[UNTOUCHED, result_clause(f'sp_expr({HERE})', ())]),
        'parse_not_list': run_contract(True),
        'parse_neg_list': run_contract(False),
        'parse_unary': unary_contract(),
        'parse_primary': primary_contract(),
        'parse_expression_list': expr_list_contract(),
        'parse_obj_inits': obj_inits_contract(),
        'with_tokenizer': A(ret='r', ensures=[('fresh_compiler_on_that_tokenizer', 'r.c_toks() == old(tokenizer).toks() && r.c_pos() == old(tokenizer).pos() && r.c_lbl() == 0')], props=('C10', 'C01')),
    }, others='stub', skip=('compile',))
    from . import interp_vm as VM
    from .balance import slice_fn
    U.raw(MAP_LEMMAS % slice_fn(VM.SPECS, 'dict_state'), 'folded map = run-time map (lemmas)')
    U.lemmas = [('lemma_folded_map_is_the_runtime_map', ('C06', 'C09')), ('lemma_runtime_map_is_the_folded_map', ('C06', 'C09'))]
    U.raw(C.FOOTER, 'footer')
    return U
