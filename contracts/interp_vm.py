"""unit interp_vm: Interpreter::run_raw (pc bounds, depth guard, per-opcode arm contracts), call_macro, resolve_args, run_program.
The stack operations and lookups are known here by the contracts verified in unit interp."""
from vgen.gen import A

HAS_LOOP_CONTRACTS = True

SPECS = r'''
#[verifier::external_body] pub fn map_get<'a>(m: &'a HashMap<String, CelValue>, k: &str) -> (r: Option<&'a CelValue>)
    ensures (r is Some) == (map_lookup(m@, k@) is Some), r is Some ==> *r->Some_0 == map_lookup(m@, k@)->Some_0 { m.get(k) }
pub open spec fn top<'b>(st: Seq<CelStackValue<'b>>, k: int) -> CelStackValue<'b> { st[st.len() - 1 - k] }

/// a binary instruction pops the right operand (top) and then the left operand, resolves both, and pushes op(left, right)
pub open spec fn binop_arm<'b>(env: Env, st0: Seq<CelStackValue<'b>>, st: Seq<CelStackValue<'b>>, op: ByteCode, lhs: CelValue, rhs: CelValue) -> bool {
    &&& st0.len() >= 2
    &&& val_ok(env, st0.last(), Ok(rhs))
    &&& val_ok(env, st0.drop_last().last(), Ok(lhs))
    &&& st == st0.drop_last().drop_last().push(CelStackValue::Value(op2(op, lhs, rhs)))
}
pub open spec fn unop_arm<'b>(env: Env, st0: Seq<CelStackValue<'b>>, st: Seq<CelStackValue<'b>>, op: ByteCode, v: CelValue) -> bool {
    &&& st0.len() >= 1
    &&& val_ok(env, st0.last(), Ok(v))
    &&& st == st0.drop_last().push(CelStackValue::Value(op1(op, v)))
}
/// the k topmost entries were popped one by one, each resolved to a value: v[j] is the value of the j-th entry from the top
pub open spec fn popped<'b>(env: Env, st0: Seq<CelStackValue<'b>>, v: Seq<CelValue>) -> bool {
    &&& v.len() <= st0.len()
    &&& forall|j: int| 0 <= j < v.len() ==> val_ok(env, #[trigger] st0[st0.len() - 1 - j], Ok(v[j]))
}
/// MKLIST n builds a list of the n topmost values in the order they were pushed
pub open spec fn mklist_arm<'b>(env: Env, st0: Seq<CelStackValue<'b>>, st: Seq<CelStackValue<'b>>, size: u32, l: Seq<CelValue>) -> bool {
    &&& size <= st0.len()
    &&& l.len() == size
    &&& forall|j: int| 0 <= j < size ==> val_ok(env, #[trigger] st0[st0.len() - size + j], Ok(l[j]))
    &&& st.len() == st0.len() - size + 1
    &&& st.last() is Value && st.last()->Value_0 is List && st.last()->Value_0->List_0@ == l
    &&& forall|i: int| 0 <= i < st0.len() - size ==> st[i] == st0[i]
}
/// MKDICT n: the 2n topmost entries are n (value, key) pairs; keys[t] / vals[t] are the t-th pair FROM THE TOP, i.e. t = 0 is
/// the pair written last in the source.  The map holds exactly those keys, and for a repeated key the last entry written wins.
pub open spec fn dict_state(m: Map<String, CelValue>, keys: Seq<String>, vals: Seq<CelValue>) -> bool {
    &&& keys.len() == vals.len()
    &&& forall|t: int| 0 <= t < keys.len() ==> m.contains_key(#[trigger] keys[t])
    &&& forall|k: String| #[trigger] m.contains_key(k) ==> exists|t: int| 0 <= t < keys.len() && keys[t] == k
    &&& forall|t: int| 0 <= t < keys.len() && (forall|t2: int| 0 <= t2 < t ==> keys[t2] != keys[t]) ==> m[#[trigger] keys[t]] == vals[t]
}
pub open spec fn dict_popped<'b>(env: Env, st0: Seq<CelStackValue<'b>>, keys: Seq<String>, vals: Seq<CelValue>) -> bool {
    &&& keys.len() == vals.len() && 2 * keys.len() <= st0.len()
    &&& forall|t: int| 0 <= t < keys.len() ==> val_ok(env, #[trigger] st0[st0.len() - 1 - 2 * t], Ok(CelValue::String(keys[t])))
    &&& forall|t: int| 0 <= t < keys.len() ==> val_ok(env, #[trigger] st0[st0.len() - 2 - 2 * t], Ok(vals[t]))
}
pub open spec fn mkdict_arm<'b>(env: Env, st0: Seq<CelStackValue<'b>>, st: Seq<CelStackValue<'b>>, size: u32, keys: Seq<String>, vals: Seq<CelValue>) -> bool {
    &&& keys.len() == size && dict_popped(env, st0, keys, vals)
    &&& st.len() == st0.len() - 2 * size + 1
    &&& st.last() is Value && st.last()->Value_0 is Map && dict_state(st.last()->Value_0->Map_0@, keys, vals)
    &&& forall|i: int| 0 <= i < st0.len() - 2 * size ==> st[i] == st0[i]
}
/// the concatenation of string values, in order; None if one of them is not a string
pub open spec fn concat_strings(vals: Seq<CelValue>, upto: int) -> Option<Seq<char>>
    decreases upto
{
    if upto <= 0 { Some(Seq::empty()) } else {
        match (concat_strings(vals, upto - 1), vals[upto - 1]) {
            (Some(p), CelValue::String(s)) => Some(p + s@),
            _ => None,
        }
    }
}
/// FMT n concatenates the n topmost values (strings) in the order they were pushed
pub open spec fn fmt_arm<'b>(env: Env, st0: Seq<CelStackValue<'b>>, st: Seq<CelStackValue<'b>>, n: u32, segs: Seq<CelValue>) -> bool {
    &&& n <= st0.len() && segs.len() == n
    &&& popped(env, st0, segs)
    &&& concat_strings(segs.reverse(), n as int) is Some
    &&& st.len() == st0.len() - n + 1
    &&& st.last() is Value && st.last()->Value_0 is String && st.last()->Value_0->String_0@ == concat_strings(segs.reverse(), n as int)->Some_0
    &&& forall|i: int| 0 <= i < st0.len() - n ==> st[i] == st0[i]
}
/// TEST maps a value to its truthiness and keeps a failure
pub open spec fn test_arm<'b>(env: Env, st0: Seq<CelStackValue<'b>>, st: Seq<CelStackValue<'b>>, v: CelValue) -> bool {
    &&& st0.len() >= 1
    &&& val_ok(env, st0.last(), Ok(v))
    &&& st == st0.drop_last().push(CelStackValue::Value(if v is Err { v } else { CelValue::Bool(spec_truthy(v)) }))
}
/// JMPCOND pops a value; a bool jumps iff it equals `when`; a failure jumps iff `when` is False (so a failing left operand of
/// `&&` short-circuits and a failing left operand of `||` does not); anything else is a run-time error
pub open spec fn jmpcond_arm<'b>(env: Env, st0: Seq<CelStackValue<'b>>, st: Seq<CelStackValue<'b>>, v: CelValue, when: JmpWhen, dist: i32, oldpc: usize, pc: usize) -> bool {
    &&& st0.len() >= 1
    &&& val_ok(env, st0.last(), Ok(v))
    &&& st == st0.drop_last()
    &&& match v {
        CelValue::Bool(b) => pc == (if b == (when is True) { oldpc + 1 + dist } else { oldpc + 1 }),
        CelValue::Err(_) => pc == (if when is False { oldpc + 1 + dist } else { oldpc + 1 }),
        _ => false,
    }
}
'''


GROUPS = {
    0: ['ByteCode::Push(val)', 'ByteCode::Pop', 'ByteCode::Test', 'ByteCode::Dup', 'ByteCode::Jmp(dist)', 'ByteCode::JmpCond { when, dist }', 'ByteCode::Not', 'ByteCode::Neg'],
    1: ['ByteCode::Or', 'ByteCode::And', 'ByteCode::Add', 'ByteCode::Sub'],
    2: ['ByteCode::Mul', 'ByteCode::Div', 'ByteCode::Mod', 'ByteCode::Lt'],
    3: ['ByteCode::Le', 'ByteCode::Eq', 'ByteCode::Ne', 'ByteCode::Ge'],
    4: ['ByteCode::Gt', 'ByteCode::In', 'ByteCode::Index'],
    5: ['ByteCode::MkList(size)', 'ByteCode::FmtString(nsegments)'],
    6: ['ByteCode::MkDict(size)'],
    7: ['Some(val)', 'Ok(callable)'],
}


def vm_contracts(group=0):
    """run_raw is verified once per group of opcode arms: the whole loop body is one SMT query, and more than ~6 arm contracts in
    one query exceed the solver's resource limit.  Every run re-proves all safety obligations of the function; each arm contract is
    proved in exactly one run."""
    d = _vm_contracts()
    a = d['run_raw']
    a.arm_end = {k: v for k, v in a.arm_end.items() if k in GROUPS[group]}
    if group == 7:
        a.before = {
            'stack.push_val(self.call_macro(&CelValue::from_null()': [('a_bound_function_wins_over_a_macro', 'self@.has_bindings && func_of(self@.bind, func_name@) is None && macro_of(self@.bind, func_name@) == Some(macro_)', ('C12', 'C01'))],
            'stack.push_val(construct_type(type_name, arg_values));': [('functions_and_macros_win_over_type_constructors', 'func_of(self@.bind, func_name@) is None && macro_of(self@.bind, func_name@) is None', ('C12', 'C01'))],
            'stack.push_val(func(CelValue::from_null(), arg_values));': [('the_bound_function_is_called', 'self@.has_bindings && func_of(self@.bind, func_name@) == Some(func)', ('C12', 'C01'))],
            ('stack.push( CelValue::from_err(CelError::attribute( "obj", ident.as_str(), ))', 1): [('a_failed_object_is_not_replaced_by_an_absent_field_error', '!(obj is Err)', ('C08', 'C09', 'C01'))],
            'stack.push(obj.into());': [('a_failed_object_stays_the_failure_it_is', 'obj is Err', ('C08', 'C09', 'C01'))],
        }
    if group == 6:
        a.loops[2] = dict(ghost='it2', invariant=[('stack_context', 'stack.ctx == self'),
            ('pairs_popped_so_far', 'gkeys.len() == it2.index@ && dict_popped(self@, st0, gkeys, gvals)'),
            ('rest_of_the_stack', 'stack.stack@ =~= st0.subrange(0, st0.len() - 2 * gkeys.len())'),
            ('map_holds_the_last_written_entries', 'dict_state(map@, gkeys, gvals)')],
            post='''proof {
    let T = okeys.len() as int;
    assert(gkeys == okeys.push(gk) && gvals == ovals.push(gv));
    assert forall|t: int| 0 <= t < gkeys.len() implies map@.contains_key(#[trigger] gkeys[t]) by {
        if t < T { assert(omap.contains_key(okeys[t])); }
    }
    assert forall|k: String| #[trigger] map@.contains_key(k) implies exists|t: int| 0 <= t < gkeys.len() && gkeys[t] == k by {
        if omap.contains_key(k) { let t0 = choose|t: int| 0 <= t < okeys.len() && okeys[t] == k; assert(gkeys[t0] == k); } else { assert(k == gk); assert(gkeys[T] == k); }
    }
    assert forall|t: int| 0 <= t < gkeys.len() && (forall|t2: int| 0 <= t2 < t ==> gkeys[t2] != gkeys[t]) implies map@[#[trigger] gkeys[t]] == gvals[t] by {
        if t < T {
            assert(forall|t2: int| 0 <= t2 < t ==> okeys[t2] == gkeys[t2]);
            assert(omap.contains_key(okeys[t]));
            assert(omap[okeys[t]] == ovals[t]);
        } else {
            if omap.contains_key(gk) { let t0 = choose|t0: int| 0 <= t0 < okeys.len() && okeys[t0] == gk; assert(gkeys[t0] == gkeys[T]); assert(false); }
        }
    }
}''')
        a.after = {'let mut map = HashMap::new();': 'let ghost mut gkeys = Seq::<String>::empty(); let ghost mut gvals = Seq::<CelValue>::empty();',
                   ('let value = stack.pop_val()?;', 0): '''let ghost okeys = gkeys; let ghost ovals = gvals; let ghost omap = map@; let ghost gk = key; let ghost gv = value;
proof { gkeys = gkeys.push(key); gvals = gvals.push(value); }'''}
        a.before = {'stack.push_val(map.into());': '''proof { }'''}
    if group == 5:
        inv = [('stack_context', 'stack.ctx == self')]
        a.loops[1] = dict(ghost='it1', invariant=inv + [
            ('popped_so_far', 'v@.len() == it1.index@ && popped(self@, st0, v@)'),
            ('rest_of_the_stack', 'stack.stack@ =~= st0.subrange(0, st0.len() - v@.len())')])
        a.loops[5] = dict(ghost='it5', invariant=inv + [
            ('popped_so_far', 'segments@.len() == it5.index@ && popped(self@, st0, segments@)'),
            ('rest_of_the_stack', 'stack.stack@ =~= st0.subrange(0, st0.len() - segments@.len())')])
        a.loops[6] = dict(ghost='it6', invariant=inv + [
            ('reverse_order', 'it6.seq() == segs0.reverse()'),
            ('prefix_concatenated', 'concat_strings(segs0.reverse(), it6.index@ as int) == Some(working@)')])
        a.after = {'let mut working = String::new();': 'let ghost segs0 = segments@;'}
        a.before = {'v.reverse();': 'let ghost popped_v = v@;'}
    if group != 0:
        # the other functions are verified in group 0 only
        from .interp import stubbed
        for k in ('call_macro', 'resolve_args', 'run_program'):
            d[k] = stubbed(d[k])
            d[k].rewrites = []
    return d


def _vm_contracts():
    return {
        'run_raw': A(ret='r', attrs=['#[verifier::exec_allows_no_decreases_clause]'],
                     rewrites=[('map.get(ident.as_str())', 'map_get(map, ident.as_str())', 'R2: HashMap::get through Borrow<str> has no vstd spec -> trampoline with the assumed std behaviour'),
                               ('func(value, arg_values)', 'func.call(value, arg_values)', 'R1: call through &dyn Fn -> trampoline'),
                               ('func(CelValue::from_null(), arg_values)', 'func.call(CelValue::from_null(), arg_values)', 'R1: call through &dyn Fn -> trampoline')],
                     ensures=[('too_deep_is_an_error', 'self@.depth >= 128 ==> r is Err', ('C12', 'C01'))],
                     loops={0: dict(invariant=[('pc_in_program', 'pc <= prog@.len()'), ('stack_context', 'stack.ctx == self')], pre='let ghost st0 = stack.stack@;')}
                     | {k: dict(invariant=[('stack_context', 'stack.ctx == self')]) for k in (1, 2, 3, 4, 5)},
                     arm_end={
            'ByteCode::Or': [('operands_in_order', 'binop_arm(self@, st0, stack.stack@, ByteCode::Or, v1, v2)', ('C05', 'C02', 'C01'))],
            'ByteCode::And': [('operands_in_order', 'binop_arm(self@, st0, stack.stack@, ByteCode::And, v1, v2)', ('C05', 'C02', 'C01'))],
            'ByteCode::Add': [('operands_in_order', 'binop_arm(self@, st0, stack.stack@, ByteCode::Add, v1, v2)', ('C02', 'C09', 'C01'))],
            'ByteCode::Sub': [('operands_in_order', 'binop_arm(self@, st0, stack.stack@, ByteCode::Sub, v1, v2)', ('C02', 'C09', 'C01'))],
            'ByteCode::Mul': [('operands_in_order', 'binop_arm(self@, st0, stack.stack@, ByteCode::Mul, v1, v2)', ('C02', 'C09', 'C01'))],
            'ByteCode::Div': [('operands_in_order', 'binop_arm(self@, st0, stack.stack@, ByteCode::Div, v1, v2)', ('C02', 'C09', 'C01'))],
            'ByteCode::Mod': [('operands_in_order', 'binop_arm(self@, st0, stack.stack@, ByteCode::Mod, v1, v2)', ('C02', 'C09', 'C01'))],
            'ByteCode::Lt': [('operands_in_order', 'binop_arm(self@, st0, stack.stack@, ByteCode::Lt, v1, v2)', ('C02', 'C09', 'C01'))],
            'ByteCode::Le': [('operands_in_order', 'binop_arm(self@, st0, stack.stack@, ByteCode::Le, v1, v2)', ('C02', 'C09', 'C01'))],
            'ByteCode::Eq': [('operands_in_order', 'binop_arm(self@, st0, stack.stack@, ByteCode::Eq, v1, v2)', ('C02', 'C09', 'C01'))],
            'ByteCode::Ne': [('operands_in_order', 'binop_arm(self@, st0, stack.stack@, ByteCode::Ne, v1, v2)', ('C02', 'C09', 'C01'))],
            'ByteCode::Ge': [('operands_in_order', 'binop_arm(self@, st0, stack.stack@, ByteCode::Ge, v1, v2)', ('C02', 'C09', 'C01'))],
            'ByteCode::Gt': [('operands_in_order', 'binop_arm(self@, st0, stack.stack@, ByteCode::Gt, v1, v2)', ('C02', 'C09', 'C01'))],
            'ByteCode::In': [('operands_in_order', 'binop_arm(self@, st0, stack.stack@, ByteCode::In, lhs, rhs)', ('C06', 'C02', 'C01'))],
            'ByteCode::Index': [('operands_in_order', 'binop_arm(self@, st0, stack.stack@, ByteCode::Index, obj, index)', ('C06', 'C02', 'C01'))],
            'ByteCode::Not': [('negates_the_top', 'unop_arm(self@, st0, stack.stack@, ByteCode::Not, v1)', ('C05', 'C01'))],
            'ByteCode::Neg': [('negates_the_top', 'unop_arm(self@, st0, stack.stack@, ByteCode::Neg, v1)', ('C03', 'C01'))],
            'ByteCode::Push(val)': [('pushes_the_operand', 'stack.stack@ == st0.push(CelStackValue::Value(*val))', ('C10', 'C01'))],
            'ByteCode::Pop': [('drops_the_top', 'st0.len() >= 1 && stack.stack@ == st0.drop_last()', ('C10', 'C05', 'C01'))],
            'ByteCode::Test': [('truthiness_keeping_failures', 'test_arm(self@, st0, stack.stack@, v)', ('C05', 'C01'))],
            'ByteCode::Dup': [('duplicates_the_resolved_top', 'st0.len() >= 1 && val_ok(self@, st0.last(), Ok(v)) && stack.stack@ == st0.drop_last().push(CelStackValue::Value(v)).push(CelStackValue::Value(v))', ('C05', 'C10', 'C01'))],
            'ByteCode::MkList(size)': ['''proof {
    let n = st0.len() as int; let sz = *size as int;
    assert(popped_v.len() == sz);
    assert forall|j: int| 0 <= j < sz implies val_ok(self@, #[trigger] st0[n - sz + j], Ok(popped_v.reverse()[j])) by {
        let jj = sz - 1 - j;
        assert(val_ok(self@, st0[n - 1 - jj], Ok(popped_v[jj])));
    }
}
''', ('n_topmost_values_in_push_order', 'mklist_arm(self@, st0, stack.stack@, *size, popped_v.reverse())', ('C06', 'C01'))],
            'Some(val)': [('a_map_field_wins_over_a_method_of_the_same_name',
                           'st0.len() >= 2 && obj is Map && map_lookup(obj->Map_0@, ident@) == Some(*val) && stack.stack@ == st0.drop_last().drop_last().push(CelStackValue::Value(*val))', ('C12', 'C06', 'C09', 'C01'))],
            'Ok(callable)': [('a_method_is_bound_only_when_no_field_has_that_name',
                              'st0.len() >= 2 && obj is Map && map_lookup(obj->Map_0@, ident@) is None && self@.has_bindings', ('C12', 'C06', 'C09', 'C01'))],
            'ByteCode::MkDict(size)': [('last_entry_wins_for_a_repeated_key', 'mkdict_arm(self@, st0, stack.stack@, *size, gkeys, gvals)', ('C06', 'C09', 'C01'))],
            'ByteCode::FmtString(nsegments)': [('concatenation_in_push_order', 'fmt_arm(self@, st0, stack.stack@, *nsegments, segs0)', ('C14', 'C01'))],
            'ByteCode::Jmp(dist)': [('relative_jump', 'pc == oldpc + 1 + *dist && stack.stack@ == st0', ('C10', 'C05', 'C01'))],
            'ByteCode::JmpCond { when, dist }': [('conditional_jump_rule', 'jmpcond_arm(self@, st0, stack.stack@, v1, *when, *dist, oldpc, pc)', ('C05', 'C10', 'C01'))],
                     },
                     props=('C10', 'C12', 'C05', 'C06', 'C14', 'C02', 'C09', 'C03', 'C01')),
        'call_macro': A(ret='r', rewrites=[('macro_(self, this.clone(), &v)', 'macro_.call(self, this.clone(), &v)', 'R1: call through &dyn Fn -> trampoline')],
                        props=('C01',)),
        'resolve_args': A(ret='r', attrs=['#[verifier::exec_allows_no_decreases_clause]'], props=('C01',)),
        'run_program': A(ret='r', attrs=['#[verifier::exec_allows_no_decreases_clause]'], props=('C12', 'C01')),
    }


def build(group=0):
    from . import interp
    return interp.build(vm=True, group=group)
