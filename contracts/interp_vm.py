"""unit interp_vm: Interpreter::run_raw (pc bounds, depth guard, per-opcode arm contracts), call_macro, resolve_args, run_program.
The stack operations and lookups are known here by the contracts verified in unit interp."""
from vgen.gen import A

HAS_LOOP_CONTRACTS = True

SPECS = r'''
pub open spec fn top<'b>(st: Seq<CelStackValue<'b>>, k: int) -> CelStackValue<'b> { st[st.len() - 1 - k] }

/// a binary instruction pops the right operand (top) and then the left operand, resolves both, and pushes op(left, right)
pub open spec fn binop_arm<'b>(env: Env, st0: Seq<CelStackValue<'b>>, st: Seq<CelStackValue<'b>>, op: ByteCode, lhs: CelValue, rhs: CelValue) -> bool {
    &&& st0.len() >= 2
    &&& val_ok(env, st0.last(), Ok(rhs))
    &&& val_ok(env, st0.drop_last().last(), Ok(lhs))
    &&& st == st0.drop_last().drop_last().push(CelStackValue::Value(op2(op, lhs, rhs)))
}
pub open spec fn unop_arm<'b>(env: Env, st0: Seq<CelStackValue<'b>>, st: Seq<CelStackValue<'b>>, op: ByteCode, v: CelValue) -> bool {
    &&& st0.len() >= 1
    &&& val_ok(env, st0.last(), Ok(v))
    &&& st == st0.drop_last().push(CelStackValue::Value(op1(op, v)))
}
/// TEST maps a value to its truthiness and keeps a failure
pub open spec fn test_arm<'b>(env: Env, st0: Seq<CelStackValue<'b>>, st: Seq<CelStackValue<'b>>, v: CelValue) -> bool {
    &&& st0.len() >= 1
    &&& val_ok(env, st0.last(), Ok(v))
    &&& st == st0.drop_last().push(CelStackValue::Value(if v is Err { v } else { CelValue::Bool(spec_truthy(v)) }))
}
/// JMPCOND pops a value; a bool jumps iff it equals `when`; a failure jumps iff `when` is False (so a failing left operand of
/// `&&` short-circuits and a failing left operand of `||` does not); anything else is a run-time error
pub open spec fn jmpcond_arm<'b>(env: Env, st0: Seq<CelStackValue<'b>>, st: Seq<CelStackValue<'b>>, v: CelValue, when: JmpWhen, dist: i32, oldpc: usize, pc: usize) -> bool {
    &&& st0.len() >= 1
    &&& val_ok(env, st0.last(), Ok(v))
    &&& st == st0.drop_last()
    &&& match v {
        CelValue::Bool(b) => pc == (if b == (when is True) { oldpc + 1 + dist } else { oldpc + 1 }),
        CelValue::Err(_) => pc == (if when is False { oldpc + 1 + dist } else { oldpc + 1 }),
        _ => false,
    }
}
'''


GROUPS = {
    0: ['ByteCode::Push(val)', 'ByteCode::Pop', 'ByteCode::Test', 'ByteCode::Dup', 'ByteCode::Jmp(dist)', 'ByteCode::JmpCond { when, dist }', 'ByteCode::Not', 'ByteCode::Neg'],
    1: ['ByteCode::Or', 'ByteCode::And', 'ByteCode::Add', 'ByteCode::Sub'],
    2: ['ByteCode::Mul', 'ByteCode::Div', 'ByteCode::Mod', 'ByteCode::Lt'],
    3: ['ByteCode::Le', 'ByteCode::Eq', 'ByteCode::Ne', 'ByteCode::Ge'],
    4: ['ByteCode::Gt', 'ByteCode::In', 'ByteCode::Index'],
}


def vm_contracts(group=0):
    """run_raw is verified once per group of opcode arms: the whole loop body is one SMT query, and more than ~6 arm contracts in
    one query exceed the solver's resource limit.  Every run re-proves all safety obligations of the function; each arm contract is
    proved in exactly one run."""
    d = _vm_contracts()
    a = d['run_raw']
    a.arm_end = {k: v for k, v in a.arm_end.items() if k in GROUPS[group]}
    if group != 0:
        # the other functions are verified in group 0 only
        from .interp import stubbed
        for k in ('call_macro', 'resolve_args', 'run_program'):
            d[k] = stubbed(d[k])
            d[k].rewrites = []
    return d


def _vm_contracts():
    return {
        'run_raw': A(ret='r', attrs=['#[verifier::exec_allows_no_decreases_clause]'],
                     rewrites=[('func(value, arg_values)', 'func.call(value, arg_values)', 'R1: call through &dyn Fn -> trampoline'),
                               ('func(CelValue::from_null(), arg_values)', 'func.call(CelValue::from_null(), arg_values)', 'R1: call through &dyn Fn -> trampoline')],
                     ensures=[('too_deep_is_an_error', 'self@.depth >= 128 ==> r is Err', ('C12', 'C01'))],
                     loops={0: dict(invariant=[('pc_in_program', 'pc <= prog@.len()'), ('stack_context', 'stack.ctx == self')], pre='let ghost st0 = stack.stack@;')}
                     | {k: dict(invariant=[('stack_context', 'stack.ctx == self')]) for k in (1, 2, 3, 4, 5)},
                     arm_end={
            'ByteCode::Or': [('operands_in_order', 'binop_arm(self@, st0, stack.stack@, ByteCode::Or, v1, v2)', ('C05', 'C02', 'C01'))],
            'ByteCode::And': [('operands_in_order', 'binop_arm(self@, st0, stack.stack@, ByteCode::And, v1, v2)', ('C05', 'C02', 'C01'))],
            'ByteCode::Add': [('operands_in_order', 'binop_arm(self@, st0, stack.stack@, ByteCode::Add, v1, v2)', ('C02', 'C09', 'C01'))],
            'ByteCode::Sub': [('operands_in_order', 'binop_arm(self@, st0, stack.stack@, ByteCode::Sub, v1, v2)', ('C02', 'C09', 'C01'))],
            'ByteCode::Mul': [('operands_in_order', 'binop_arm(self@, st0, stack.stack@, ByteCode::Mul, v1, v2)', ('C02', 'C09', 'C01'))],
            'ByteCode::Div': [('operands_in_order', 'binop_arm(self@, st0, stack.stack@, ByteCode::Div, v1, v2)', ('C02', 'C09', 'C01'))],
            'ByteCode::Mod': [('operands_in_order', 'binop_arm(self@, st0, stack.stack@, ByteCode::Mod, v1, v2)', ('C02', 'C09', 'C01'))],
            'ByteCode::Lt': [('operands_in_order', 'binop_arm(self@, st0, stack.stack@, ByteCode::Lt, v1, v2)', ('C02', 'C09', 'C01'))],
            'ByteCode::Le': [('operands_in_order', 'binop_arm(self@, st0, stack.stack@, ByteCode::Le, v1, v2)', ('C02', 'C09', 'C01'))],
            'ByteCode::Eq': [('operands_in_order', 'binop_arm(self@, st0, stack.stack@, ByteCode::Eq, v1, v2)', ('C02', 'C09', 'C01'))],
            'ByteCode::Ne': [('operands_in_order', 'binop_arm(self@, st0, stack.stack@, ByteCode::Ne, v1, v2)', ('C02', 'C09', 'C01'))],
            'ByteCode::Ge': [('operands_in_order', 'binop_arm(self@, st0, stack.stack@, ByteCode::Ge, v1, v2)', ('C02', 'C09', 'C01'))],
            'ByteCode::Gt': [('operands_in_order', 'binop_arm(self@, st0, stack.stack@, ByteCode::Gt, v1, v2)', ('C02', 'C09', 'C01'))],
            'ByteCode::In': [('operands_in_order', 'binop_arm(self@, st0, stack.stack@, ByteCode::In, lhs, rhs)', ('C06', 'C02', 'C01'))],
            'ByteCode::Index': [('operands_in_order', 'binop_arm(self@, st0, stack.stack@, ByteCode::Index, obj, index)', ('C06', 'C02', 'C01'))],
            'ByteCode::Not': [('negates_the_top', 'unop_arm(self@, st0, stack.stack@, ByteCode::Not, v1)', ('C05', 'C01'))],
            'ByteCode::Neg': [('negates_the_top', 'unop_arm(self@, st0, stack.stack@, ByteCode::Neg, v1)', ('C03', 'C01'))],
            'ByteCode::Push(val)': [('pushes_the_operand', 'stack.stack@ == st0.push(CelStackValue::Value(*val))', ('C10', 'C01'))],
            'ByteCode::Pop': [('drops_the_top', 'st0.len() >= 1 && stack.stack@ == st0.drop_last()', ('C10', 'C05', 'C01'))],
            'ByteCode::Test': [('truthiness_keeping_failures', 'test_arm(self@, st0, stack.stack@, v)', ('C05', 'C01'))],
            'ByteCode::Dup': [('duplicates_the_resolved_top', 'st0.len() >= 1 && val_ok(self@, st0.last(), Ok(v)) && stack.stack@ == st0.drop_last().push(CelStackValue::Value(v)).push(CelStackValue::Value(v))', ('C05', 'C10', 'C01'))],
            'ByteCode::Jmp(dist)': [('relative_jump', 'pc == oldpc + 1 + *dist && stack.stack@ == st0', ('C10', 'C05', 'C01'))],
            'ByteCode::JmpCond { when, dist }': [('conditional_jump_rule', 'jmpcond_arm(self@, st0, stack.stack@, v1, *when, *dist, oldpc, pc)', ('C05', 'C10', 'C01'))],
                     },
                     props=('C10', 'C12', 'C05', 'C06', 'C14', 'C02', 'C09', 'C03', 'C01')),
        'call_macro': A(ret='r', rewrites=[('macro_(self, this.clone(), &v)', 'macro_.call(self, this.clone(), &v)', 'R1: call through &dyn Fn -> trampoline')],
                        props=('C01',)),
        'resolve_args': A(ret='r', attrs=['#[verifier::exec_allows_no_decreases_clause]'], props=('C01',)),
        'run_program': A(ret='r', attrs=['#[verifier::exec_allows_no_decreases_clause]'], props=('C12', 'C01')),
    }


def build(group=0):
    from . import interp
    return interp.build(vm=True, group=group)
