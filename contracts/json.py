"""unit json: serde_json::Value -> CelValue (both From impls): scalars convert to the same value a direct binding would give (C12, C01)"""
from vgen.gen import Unit, A
from . import common as C

PRELUDE = r'''
// S1: serde_json::Value / Number / Map restated as stand-ins (variant names as in serde_json; payload types opaque where possible)
#[verifier::external_body] pub struct Number { _p: u8 }
#[verifier::external_body] pub struct JsonMap { _p: u8 }
pub enum Value { Null, Bool(bool), Number(Number), String(String), Array(Vec<Value>), Object(JsonMap) }
pub uninterp spec fn num_i64(n: Number) -> Option<i64>;     // the number as an i64 when it is an integer in range
pub uninterp spec fn num_u64(n: Number) -> Option<u64>;
pub uninterp spec fn num_f64(n: Number) -> Option<f64>;
impl Number {
    #[verifier::external_body] pub fn as_i64(&self) -> (r: Option<i64>) ensures r == num_i64(*self) { unimplemented!() }
    #[verifier::external_body] pub fn as_u64(&self) -> (r: Option<u64>) ensures r == num_u64(*self) { unimplemented!() }
    // without serde_json's arbitrary_precision feature every number has an f64 reading (assumed)
    #[verifier::external_body] pub fn as_f64(&self) -> (r: Option<f64>) ensures r == num_f64(*self), r is Some { unimplemented!() }
}
#[verifier::external_body] pub fn json_array_ref(val: &Vec<Value>) -> (r: CelValue) ensures r is List { unimplemented!() }
#[verifier::external_body] pub fn json_object_ref(val: &JsonMap) -> (r: CelValue) ensures r is Map { unimplemented!() }
#[verifier::external_body] pub fn json_object(val: JsonMap) -> (r: CelValue) ensures r is Map { unimplemented!() }

impl vstd::std_specs::convert::FromSpecImpl<Value> for CelValue { open spec fn obeys_from_spec() -> bool { false } open spec fn from_spec(v: Value) -> Self { arbitrary() } }
impl<'a> vstd::std_specs::convert::FromSpecImpl<&'a Value> for CelValue { open spec fn obeys_from_spec() -> bool { false } open spec fn from_spec(v: &'a Value) -> Self { arbitrary() } }
/// a JSON scalar denotes the same CEL value a direct binding would: integers in the int range are ints, larger non-negative integers
/// are uints, every other number is a double; strings, booleans and null map to themselves
pub open spec fn json_scalar_ok(v: Value, r: CelValue) -> bool {
    match v {
        Value::Number(n) => {
            if num_i64(n) is Some { r == CelValue::Int(num_i64(n)->Some_0) }
            else if num_u64(n) is Some { r == CelValue::UInt(num_u64(n)->Some_0) }
            else { num_f64(n) is Some ==> r == CelValue::Float(num_f64(n)->Some_0) }
        },
        Value::String(s) => r == CelValue::String(s),
        Value::Bool(b) => r == CelValue::Bool(b),
        Value::Null => r == CelValue::Null,
        Value::Array(_) => r is List,
        Value::Object(_) => r is Map,
    }
}
'''
DROP = 'iterator adapters (iter().map().collect(), keys()) over serde_json containers have no Verus support; the recursive conversion of arrays and objects is NOT verified'


def build():
    U = Unit('json')
    U.global_rewrites.append(C.DYN_REWRITE)
    U.raw(C.HEADER, 'header')
    U.raw(C.STANDINS, 'S1 stand-ins')
    C.value_types(U)
    U.raw(C.DERIVED, 'assumed derived impls')
    U.raw(PRELUDE, 'serde_json stand-ins and the conversion spec')
    U.raw(C.STD_SPECS, 'assumed std specs')
    U.raw(C.AXIOMS, 'axioms')
    U.extract(C.CV, 'impl CelValue', fns=C.ambient(['from_int', 'from_uint', 'from_float', 'from_bool', 'from_string', 'from_null', 'from_list', 'from_map']), others='stub')
    U.extract(C.CV, 'impl From<&Value> for CelValue', fns={'from': A(
        ret='r', ensures=[('json_scalars_denote_the_same_value_as_a_direct_binding', 'json_scalar_ok(*value, r)')],
        arm_replace={'Value::Array(val)': ('{ json_array_ref(val) }', DROP), 'Value::Object(val)': ('{ json_object_ref(val) }', DROP)},
        props=('C12', 'C01'))})
    U.extract(C.CV, 'impl From<Value> for CelValue', fns={'from': A(
        ret='r', ensures=[('json_scalars_denote_the_same_value_as_a_direct_binding', 'json_scalar_ok(value, r)')],
        arm_replace={'Value::Array(val)': ('{ json_array_ref(&val) }', DROP), 'Value::Object(val)': ('{ json_object(val) }', DROP)},
        props=('C12', 'C01'))})
    U.raw(C.FOOTER, 'footer')
    return U
