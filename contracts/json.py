"""unit json: serde_json::Value -> CelValue (both From impls): scalars convert to the same value a direct binding would give (C12, C01)"""
HAS_LOOP_CONTRACTS = True
from vgen.gen import Unit, A
from . import common as C

PRELUDE = r'''
// S1: serde_json::Value / Number / Map restated as stand-ins (variant names as in serde_json; payload types opaque where possible)
#[verifier::external_body] pub struct Number { _p: u8 }
#[verifier::external_body] pub struct JsonMap { _p: u8 }
pub enum Value { Null, Bool(bool), Number(Number), String(String), Array(Vec<Value>), Object(JsonMap) }
pub uninterp spec fn num_i64(n: Number) -> Option<i64>;     // the number as an i64 when it is an integer in range
pub uninterp spec fn num_u64(n: Number) -> Option<u64>;
pub uninterp spec fn num_f64(n: Number) -> Option<f64>;
impl Number {
    #[verifier::external_body] pub fn as_i64(&self) -> (r: Option<i64>) ensures r == num_i64(*self) { unimplemented!() }
    #[verifier::external_body] pub fn as_u64(&self) -> (r: Option<u64>) ensures r == num_u64(*self) { unimplemented!() }
    // without serde_json's arbitrary_precision feature every number has an f64 reading (assumed)
    #[verifier::external_body] pub fn as_f64(&self) -> (r: Option<f64>) ensures r == num_f64(*self), r is Some { unimplemented!() }
}
impl JsonMap { pub uninterp spec fn view(&self) -> Map<String, Value>; }
/// serde_json::Map::keys, materialized: every key exactly once, in the map's own order (assumed; no proof depends on the order)
pub open spec fn keys_of(m: Map<String, Value>, ks: Seq<&String>) -> bool {
    &&& forall|j: int| 0 <= j < ks.len() ==> m.contains_key(*(#[trigger] ks[j]))
    &&& forall|i: int, j: int| 0 <= i < j < ks.len() ==> *(#[trigger] ks[i]) != *(#[trigger] ks[j])
    &&& forall|k: String| #[trigger] m.contains_key(k) ==> exists|j: int| 0 <= j < ks.len() && *(#[trigger] ks[j]) == k
}
/// the recursive call: `<CelValue as From<&Value>>::from`, known by the contract it is verified against below
#[verifier::external_body] pub fn cel_from_json_ref(v: &Value) -> (r: CelValue) ensures json_ok(*v, r) { unimplemented!() }
#[verifier::external_body] pub fn json_keys<'a>(m: &'a JsonMap) -> (r: Vec<&'a String>) ensures keys_of(m@, r@) { unimplemented!() }
/// `map[key]` (std::ops::Index): panics when the key is missing -- that is its precondition
#[verifier::external_body] pub fn json_index<'a>(m: &'a JsonMap, k: &String) -> (r: &'a Value)
    requires m@.contains_key(*k)
    ensures *r == m@[*k] { unimplemented!() }
/// `v.iter().map(f).collect()`: f applied to every element, in order (assumed std behaviour); the closure is the source's
#[verifier::external_body] pub fn s_map_collect<F: Fn(&Value) -> CelValue>(v: &Vec<Value>, f: F) -> (r: Vec<CelValue>)
    requires forall|x: &Value| call_requires(f, (x,))
    ensures r@.len() == v@.len(), forall|i: int| 0 <= i < v@.len() ==> call_ensures(f, (&v@[i],), #[trigger] r@[i]) { unimplemented!() }

impl vstd::std_specs::convert::FromSpecImpl<Value> for CelValue { open spec fn obeys_from_spec() -> bool { false } open spec fn from_spec(v: Value) -> Self { arbitrary() } }
impl<'a> vstd::std_specs::convert::FromSpecImpl<&'a Value> for CelValue { open spec fn obeys_from_spec() -> bool { false } open spec fn from_spec(v: &'a Value) -> Self { arbitrary() } }
/// a JSON scalar denotes the same CEL value a direct binding would: integers in the int range are ints, larger non-negative integers
/// are uints, every other number is a double; strings, booleans and null map to themselves
pub open spec fn json_scalar_ok(v: Value, r: CelValue) -> bool {
    match v {
        Value::Number(n) => {
            if num_i64(n) is Some { r == CelValue::Int(num_i64(n)->Some_0) }
            else if num_u64(n) is Some { r == CelValue::UInt(num_u64(n)->Some_0) }
            else { num_f64(n) is Some ==> r == CelValue::Float(num_f64(n)->Some_0) }
        },
        Value::String(s) => r == CelValue::String(s),
        Value::Bool(b) => r == CelValue::Bool(b),
        Value::Null => r == CelValue::Null,
        Value::Array(_) => r is List,
        Value::Object(_) => r is Map,
    }
}
/// a JSON value denotes the same CEL value a direct binding would; containers one level deep: an array becomes the list of its converted
/// elements in order, an object the map with exactly its keys and the converted values (nested containers below that: list / map)
pub open spec fn json_ok(v: Value, r: CelValue) -> bool {
    match v {
        Value::Array(a) => r is List && r->List_0@.len() == a@.len() && forall|i: int| 0 <= i < a@.len() ==> json_scalar_ok(a@[i], #[trigger] r->List_0@[i]),
        Value::Object(m) => r is Map && (forall|k: String| #[trigger] r->Map_0@.contains_key(k) <==> m@.contains_key(k))
            && forall|k: String| #[trigger] m@.contains_key(k) ==> json_scalar_ok(m@[k], r->Map_0@[k]),
        _ => json_scalar_ok(v, r),
    }
}
pub proof fn lemma_json_ok_is_scalar_ok(v: Value, r: CelValue) requires json_ok(v, r) ensures json_scalar_ok(v, r) {}
'''
DROP = 'iterator adapters (iter().map().collect(), keys()) over serde_json containers have no Verus support; the recursive conversion of arrays and objects is NOT verified'


def build():
    U = Unit('json')
    U.global_rewrites.append(C.DYN_REWRITE)
    U.raw(C.HEADER, 'header')
    U.raw(C.STANDINS, 'S1 stand-ins')
    C.value_types(U)
    U.raw(C.DERIVED, 'assumed derived impls')
    U.raw(PRELUDE, 'serde_json stand-ins and the conversion spec')
    U.raw(C.STD_SPECS, 'assumed std specs')
    U.raw(C.AXIOMS, 'axioms')
    U.extract(C.CV, 'impl CelValue', fns=C.ambient(['from_int', 'from_uint', 'from_float', 'from_bool', 'from_string', 'from_null', 'from_list', 'from_map']), others='stub')
    RW = 'R2m: serde_json container access -> materialized stand-in / trampoline with the assumed behaviour'

    def conv(by_ref):
        v = 'val' if by_ref else '&val'
        me = '*value' if by_ref else 'value'
        return A(
            ret='r', attrs=['#[verifier::exec_allows_no_decreases_clause]'],
            ensures=[('json_values_denote_the_same_value_as_a_direct_binding', f'json_ok({me}, r)')],
            rewrites=[('val.iter().map(', f's_map_collect({v}, ', RW + ' (`v.iter().map(f).collect()`: f applied to every element in order; the closure is the source\'s)'),
                      (').collect()', ')', 'the `.collect()` of the same chain'),
                      ('CelValue::from(', 'cel_from_json_ref(', 'R1: the recursive call goes through the trait impl `From<&Value> for CelValue`, whose postcondition Verus does not propagate at a `From::from` call site -> trampoline carrying exactly the contract that impl is verified against in this unit'),
                      ('val.keys()', f'json_keys({v})', RW + ' (every key once)'),
                      ('&val[key]', f'json_index({v}, key)', RW + ' (Index panics on a missing key: precondition)')],
            closures={0: dict(types=['&Value'], ret='res: CelValue', ensures=[('converts_the_element', 'json_ok(*x, res)')])},
            arm_begin={'Value::Object(val)': 'let ghost jm = val@;'},
            loops={0: dict(header='for key in val.keys()', ghost='it', invariant=[
                ('every_key_once', 'jm == val@ && keys_of(jm, it.seq())'),
                ('only_keys_seen_so_far', 'forall|q: String| #[trigger] map@.contains_key(q) ==> exists|j: int| 0 <= j < it.index@ && *(#[trigger] it.seq()[j]) == q'),
                ('keys_seen_so_far_with_their_converted_values', 'forall|j: int| 0 <= j < it.index@ ==> map@.contains_key(*(#[trigger] it.seq()[j])) && json_scalar_ok(jm[*it.seq()[j]], map@[*it.seq()[j]])')],
                pre='let ghost i0 = it.index@ as int; let ghost m0 = map@; proof { assert(key == it.seq()[i0]); assert(forall|j: int| 0 <= j < i0 ==> *(#[trigger] it.seq()[j]) != *it.seq()[i0]); }',
                post='''proof {
    assert(map@.contains_key(*key));
    lemma_json_ok_is_scalar_ok(jm[*key], map@[*key]);
    assert forall|j: int| 0 <= j < i0 + 1 implies map@.contains_key(*(#[trigger] it.seq()[j])) && json_scalar_ok(jm[*it.seq()[j]], map@[*it.seq()[j]]) by {
        if j < i0 { assert(*it.seq()[j] != *key); assert(m0.contains_key(*it.seq()[j])); }
    }
    assert forall|q: String| #[trigger] map@.contains_key(q) implies exists|j: int| 0 <= j < i0 + 1 && *(#[trigger] it.seq()[j]) == q by {
        if m0.contains_key(q) { let j = choose|j: int| 0 <= j < i0 && *(#[trigger] it.seq()[j]) == q; assert(*it.seq()[j] == q); } else { assert(q == *key); assert(*it.seq()[i0] == q); }
    }
}''')},
            props=('C12', 'C01'))
    U.extract(C.CV, 'impl From<&Value> for CelValue', fns={'from': conv(True)})
    U.extract(C.CV, 'impl From<Value> for CelValue', fns={'from': conv(False)})
    U.raw(C.FOOTER, 'footer')
    return U
