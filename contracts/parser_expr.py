"""unit parser_expr: the loosest grammar level of the recursive-descent compiler -- parse_expression and parse_turnary_expression
(`c ? t : e`, nesting to the right in its else branch) against the grammar written over the ghost token stream.
Decides together: tree shape + spans (C02, C18), identifiers (C17), the fold of a constant condition (C09) and the emitted
TEST / DUP / JMPCOND template that makes the conditional lazy and failure-propagating (C05, C10)."""
from vgen.gen import Unit, A
from . import common as C
from . import parser as P
from . import pshared as S

HAS_LOOP_CONTRACTS = False

SPEC = r'''
pub uninterp spec fn sp_or(toks: Seq<TokenWithLoc>, pos: nat, lbl: u32) -> Option<P<ConditionalOr>>;
/// what follows the `match` keyword (unit parser_match)
pub uninterp spec fn sp_match(toks: Seq<TokenWithLoc>, pos: nat, lbl: u32) -> Option<P<Expr>>;

pub open spec fn bc(b: ByteCode) -> PreResolvedCodePoint { PreResolvedCodePoint::Bytecode(b) }
/// c ? t : e  with a run-time condition:
///   <c> TEST DUP JMPCOND(false -> else) POP <t> JMP end  else: DUP NOT JMPCOND(false -> end) POP <e>  end:
/// TEST reduces the condition to its truthiness and keeps a failure; a falsy OR failed condition jumps to `else` with the tested value
/// still on the stack; there NOT maps false to true and keeps a failure, so only a failure jumps on to `end` and is the result.
/// Exactly one of <t>, <e> runs, each path ends with one value.
pub open spec fn ternary_code(c: Seq<PreResolvedCodePoint>, t: Seq<PreResolvedCodePoint>, e: Seq<PreResolvedCodePoint>, l_else: u32, l_end: u32) -> Seq<PreResolvedCodePoint> {
    c + seq![bc(ByteCode::Test), bc(ByteCode::Dup), PreResolvedCodePoint::JmpCond { when: JmpWhen::False, label: l_else }, bc(ByteCode::Pop)]
      + t
      + seq![PreResolvedCodePoint::Jmp { label: l_end }, PreResolvedCodePoint::Label(l_else), bc(ByteCode::Dup), bc(ByteCode::Not),
             PreResolvedCodePoint::JmpCond { when: JmpWhen::False, label: l_end }, bc(ByteCode::Pop)]
      + e
      + seq![PreResolvedCodePoint::Label(l_end)]
}
/// a constant condition is decided by the compiler with the SAME truthiness (a failed constant condition is the result);
/// otherwise two fresh labels are taken after all three operands are parsed
pub open spec fn ternary_node(c: SNode, t: SNode, e: SNode, lbl: u32) -> SNode {
    match c {
        SNode::Const(i) => if i is Err { SNode::Const(i) } else if spec_truthy(i) { t } else { e },
        SNode::Code(cc) => SNode::Code(ternary_code(cc, code_of(t), code_of(e), lbl, (lbl + 1) as u32)),
    }
}
pub open spec fn ternary_lbl(c: SNode, lbl: u32) -> u32 { if c is Const { lbl } else { (lbl + 2) as u32 } }
pub open spec fn ternary_lbl_ok(c: SNode, lbl: u32) -> bool { c is Const || lbl < u32::MAX - 1 }

/// the rest of a conditional after `c ?`
pub closed spec fn sp_ternary_rest(toks: Seq<TokenWithLoc>, c: P<ConditionalOr>, pos: nat) -> Option<P<Expr>>
    decreases toks.len() - pos, 0nat
{
    match sp_or(toks, pos, c.lbl) {
        Some(t) => if t.end > pos && t.end < toks.len() && toks[t.end as int].token is Colon {
                match sp_expr(toks, t.end + 1, t.lbl) {
                    Some(e) => if ternary_lbl_ok(c.node, e.lbl) { Some(P {
                            ast: mk_ast(Expr::Ternary { condition: Box::new(c.ast), true_clause: Box::new(t.ast), false_clause: Box::new(e.ast) }, hull(a_loc(c.ast), a_loc(e.ast))),
                            end: e.end, lbl: ternary_lbl(c.node, e.lbl), details: c.details + t.details + e.details,
                            node: ternary_node(c.node, t.node, e.node, e.lbl) }) } else { None },
                    None => None,
                }
            } else { None },
        None => None,
    }
}
/// Expr = `match` ... | ConditionalOr [ `?` ConditionalOr `:` Expr ]      (the else branch is a whole Expr: nests to the RIGHT)
pub closed spec fn sp_expr(toks: Seq<TokenWithLoc>, pos: nat, lbl: u32) -> Option<P<Expr>>
    decreases toks.len() - pos, 1nat
{
    if pos < toks.len() && toks[pos as int].token is Match {
        sp_match(toks, pos + 1, lbl)
    } else {
        match sp_or(toks, pos, lbl) {
            Some(c) => if c.end > pos && c.end <= toks.len() {
                    if c.end < toks.len() && toks[c.end as int].token is Question {
                        sp_ternary_rest(toks, c, c.end + 1)
                    } else {
                        Some(P { ast: mk_ast(Expr::Unary(Box::new(c.ast)), a_loc(c.ast)), end: c.end, lbl: c.lbl, details: c.details, node: c.node })
                    }
                } else { None },
            None => None,
        }
    }
}

// error construction (S1 stand-in for compiler::syntax_error::SyntaxError)
impl SyntaxError {
    #[verifier::external_body] pub fn from_location(loc: SourceLocation) -> SyntaxError { unimplemented!() }
    #[verifier::external_body] pub fn with_message(self, msg: String) -> SyntaxError { unimplemented!() }
}
impl std::fmt::Debug for TokenWithLoc { #[verifier::external_body] fn fmt(&self, f: &mut std::fmt::Formatter<'_>) -> std::fmt::Result { unimplemented!() } }
/// R2: `x.as_token() != Some(&Token::K)` (derived PartialEq on Option<&Token>) for the payload-free tokens the parser compares with
#[verifier::external_body] pub fn opt_token_is(a: Option<&Token>, b: &Token) -> (r: bool)
    ensures
        *b is Colon ==> r == (a is Some && *a->Some_0 is Colon),
        *b is LBrace ==> r == (a is Some && *a->Some_0 is LBrace),
        *b is RBrace ==> r == (a is Some && *a->Some_0 is RBrace),
        *b is Case ==> r == (a is Some && *a->Some_0 is Case),
        *b is Comma ==> r == (a is Some && *a->Some_0 is Comma),
{ unimplemented!() }
'''

TOKENIZER_LOCATION = '''    fn location(&self) -> (r: SourceLocation);
}
impl vstd::std_specs::convert::FromSpecImpl<SyntaxError> for CelError'''


def prelude():
    core = S.CORE
    old = '}\nimpl vstd::std_specs::convert::FromSpecImpl<SyntaxError> for CelError'
    assert old in core
    return core.replace(old, TOKENIZER_LOCATION, 1)


def result_clause(spec_call, props, name='grammar_shape_spans_identifiers_and_code'):
    return (name, f'''r is Ok ==> ({{
                let p = {spec_call};
                &&& p is Some
                &&& r->Ok_0.1 == p->Some_0.ast
                &&& final(self).tokenizer.pos() == p->Some_0.end
                &&& final(self).next_label == p->Some_0.lbl
                &&& r->Ok_0.0.details@ == p->Some_0.details
                &&& node_view(r->Ok_0.0.inner) == p->Some_0.node
                &&& final(self).tokenizer.pos() > old(self).tokenizer.pos()
            }})''', props)


UNTOUCHED = ('token_stream_untouched', 'final(self).tokenizer.toks() == old(self).tokenizer.toks() && final(self).tokenizer.pos() <= final(self).tokenizer.toks().len() && final(self).bindings == old(self).bindings')
CURSOR = ('cursor_in_range', 'old(self).tokenizer.pos() <= old(self).tokenizer.toks().len()')
HERE = 'old(self).tokenizer.toks(), old(self).tokenizer.pos(), old(self).next_label'
PROPS = ('C02', 'C18', 'C17', 'C05', 'C09', 'C10')
NEQ = lambda v, k: (f'{v}.as_token() != Some(&Token::{k})', f'!opt_token_is({v}.as_token(), &Token::{k})', 'R2: derived PartialEq on Option<&Token> -> opt_token_is (assumed: equality with a payload-free token is a variant test)')


def expr_contract(stub=False):
    return A(stub=stub, ret='r', attrs=[] if stub else ['#[verifier::exec_allows_no_decreases_clause]'], requires=[CURSOR],
             ensures=[UNTOUCHED, result_clause(f'sp_expr({HERE})', PROPS)], props=PROPS + ('C01',))


def build():
    U = Unit('parser_expr')
    U.global_rewrites.append(C.DYN_REWRITE)
    U.raw(C.HEADER, 'header')
    U.raw(C.STANDINS, 'S1 stand-ins')
    C.value_types(U)
    S.compiler_types(U, grammar='all')
    U.extract(S.CPR, 'macro_rules compile')
    U.extract(S.CP, 'struct CelCompiler')
    U.raw(C.DERIVED, 'assumed derived impls')
    U.raw(C.VALUE_SPECS + C.TRUTHY_SPEC, 'shared vocabulary')
    U.raw(C.TRAIT_FULL, 'CelValueDyn restated')
    U.raw('impl View for CelByteCode { type V = Seq<ByteCode>; closed spec fn view(&self) -> Seq<ByteCode> { self.inner@ } }\n' + prelude() + S.ITER + SPEC + S.BINDCTX_AMBIENT, 'grammar specs')
    U.raw(C.STD_SPECS, 'assumed std specs')
    U.raw(S.axioms(), 'axioms')
    U.extract(C.CE, 'impl From<SyntaxError> for CelError', fns={'from': A(ret='r', ensures=[('def', 'r == CelError::Syntax(value)')], props=('C01',))})
    U.extract('rscel/src/compiler/tokenizer.rs', 'impl AsToken for Option<&TokenWithLoc>', fns={
        'as_token': A(ret='r', ensures=[('def', '(match *self { Some(s) => r == Some(&s.token), None => r is None })')], props=('C02', 'C01'))})
    U.extract('rscel/src/compiler/tokenizer.rs', 'impl AsToken for Option<TokenWithLoc>', fns={
        'as_token': A(ret='r', ensures=[('def', '(match *self { Some(s) => r == Some(&s.token), None => r is None })')], props=('C02', 'C01'))})
    U.extract('rscel/src/compiler/tokenizer.rs', 'impl AsToken for &TokenWithLoc', fns={'as_token': A(ret='r', ensures=[('def', 'r == Some(&self.token)')], props=('C01',))})
    U.extract('rscel/src/compiler/tokenizer.rs', 'impl AsToken for TokenWithLoc', fns={'as_token': A(ret='r', ensures=[('def', 'r == Some(&self.token)')], props=('C01',))})
    U.extract('rscel/src/compiler/source_range.rs', 'impl SourceRange', fns={
        'surrounding': A(stub=True, ret='r', ensures=[('smallest_span_containing_both', 'r == hull(self, other)')]),
    }, others='stub')
    U.extract('rscel/src/compiler/ast_node.rs', 'impl<T> AstNode<T>', fns={
        'new': A(ret='r', ensures=[('def', 'r == mk_ast(node, loc)')], props=('C18', 'C01')),
        'range': A(ret='r', ensures=[('def', 'r == a_loc(*self)')], props=('C18', 'C01')),
    }, others='stub')
    S.grammar_ambient(U)
    U.extract('rscel/src/program/program_details.rs', 'impl ProgramDetails', fns=S.stubbed(S.DETAILS))
    U.extract(S.PR, 'impl From<ByteCode> for PreResolvedCodePoint', fns={'from': A(ret='r', ensures=[('def', 'r == PreResolvedCodePoint::Bytecode(value)')], props=('C10', 'C01'))})
    U.extract(S.PR, 'impl PreResolvedByteCode', fns={
        'new': A(stub=True, ret='r', ensures=[('empty', 'r@.len() == 0')]),
        'extend': A(stub=True, ensures=[('appends_in_order', 'final(self)@ == old(self)@ + points_of(byte_codes)')]),
        'into_iter': A(external_body=True, ret='r', ensures=[('yields_the_points_in_order', 'points_of(r) == self@')]),
    }, others='stub')
    U.extract(C.CV, 'impl CelValue', fns={
        'is_err': A(stub=True, ret='r', ensures=[('def', 'r == (*self is Err)')]),
    }, others='stub')
    U.extract(C.CV, 'impl CelValueDyn for CelValue', fns={
        'is_truthy': A(stub=True, ret='r', ensures=[('the_one_truthiness', 'r == spec_truthy(*self)')]),
    }, others='stub', skip=('any_ref',))
    U.extract(S.CPR, 'impl CompiledProg', fns=S.stubbed(S.compprog_contracts()), others='stub', skip=('into_program',))
    U.extract(S.CPR, 'impl NodeValue', fns=S.stubbed(S.NODEVALUE))
    U.extract(S.CP, "impl<'l> CelCompiler<'l>", fns={
        'new_label': A(stub=True, ret='r', ensures=[('fresh_label', 'r == old(self).next_label && final(self).next_label == old(self).next_label + 1 && final(self).tokenizer == old(self).tokenizer && final(self).bindings == old(self).bindings'),
                                                  ('ASSUMED_no_overflow_of_the_label_counter', 'old(self).next_label < u32::MAX')]),
        'parse_conditional_or': A(stub=True, ret='r', requires=[CURSOR], ensures=[UNTOUCHED, result_clause(f'sp_or({HERE})', ())]),
        'parse_match_expression': A(stub=True, ret='r', requires=[CURSOR], ensures=[UNTOUCHED, result_clause(f'sp_match({HERE})', ())]),
        'parse_expression': expr_contract(),
        'parse_turnary_expression': A(
            ret='r', attrs=['#[verifier::exec_allows_no_decreases_clause]'], requires=[CURSOR],
            ensures=[UNTOUCHED, result_clause(
                'sp_ternary_rest(old(self).tokenizer.toks(), P { ast: or_ast, end: old(self).tokenizer.pos(), lbl: old(self).next_label, details: or_prog.details@, node: node_view(or_prog.inner) }, old(self).tokenizer.pos())',
                PROPS, 'conditional_shape_spans_identifiers_fold_and_jump_template')],
            rewrites=[NEQ('next', 'Colon')], mcalls=S.MC, props=PROPS + ('C01',),
            body_begin='let ghost c0 = node_view(or_prog.inner); let ghost cd0 = or_prog.details@;',
            after={('stmt', 'let (true_clause_node, true_clause_ast) =', 0): 'let ghost t0 = P { ast: true_clause_ast, end: self.tokenizer.pos(), lbl: self.next_label, details: true_clause_node.details@, node: node_view(true_clause_node.inner) };',
                   ('stmt', 'let (false_clause_node, false_clause_ast) =', 0): 'let ghost e0 = P { ast: false_clause_ast, end: self.tokenizer.pos(), lbl: self.next_label, details: false_clause_node.details@, node: node_view(false_clause_node.inner) };'},
            before={'Ok(( turnary_node': '''proof {
    let toks = self.tokenizer.toks();
    let p0 = old(self).tokenizer.pos();
    assert(turnary_node.details@ =~= cd0 + t0.details + e0.details);
    if c0 is Code {
        assert(node_view(turnary_node.inner) is Code);
        assert(node_view(turnary_node.inner)->Code_0 =~= ternary_code(c0->Code_0, code_of(t0.node), code_of(e0.node), e0.lbl, (e0.lbl + 1) as u32));
    }
    assert(node_view(turnary_node.inner) == ternary_node(c0, t0.node, e0.node, e0.lbl));
}'''}),
    }, others='stub', skip=('with_tokenizer', 'compile'))
    U.raw(C.FOOTER, 'footer')
    return U
