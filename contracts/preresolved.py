"""unit preresolved: PreResolvedByteCode::resolve, extend, push + CelByteCode::{new,push,len} (C10, C01)"""
from vgen.gen import Unit, A
from . import common as C

HAS_LOOP_CONTRACTS = True
PR = 'rscel/src/compiler/compiled_prog/preresolved.rs'

SPECS = r'''
// ---------- spec, written from C10: "every jump lands inside its block or exactly at its end" ----------
pub open spec fn is_label(c: PreResolvedCodePoint) -> bool { c is Label }

/// number of instructions (non-label code points) in s[0..n) == index of the instruction a label at position n resolves to
pub open spec fn nl_count(s: Seq<PreResolvedCodePoint>, n: int) -> int
    decreases n
{
    if n <= 0 { 0 } else { nl_count(s, n - 1) + if is_label(s[n - 1]) { 0int } else { 1int } }
}
pub open spec fn label_at(s: Seq<PreResolvedCodePoint>, i: int, l: u32) -> bool {
    0 <= i < s.len() && s[i] == PreResolvedCodePoint::Label(l)
}
pub open spec fn label_exists(s: Seq<PreResolvedCodePoint>, l: u32) -> bool { exists|j: int| label_at(s, j, l) }
pub open spec fn labels_unique(s: Seq<PreResolvedCodePoint>) -> bool {
    forall|i: int, j: int, l: u32| label_at(s, i, l) && label_at(s, j, l) ==> i == j
}
pub open spec fn jump_label(c: PreResolvedCodePoint) -> Option<u32> {
    match c {
        PreResolvedCodePoint::Jmp { label } => Some(label),
        PreResolvedCodePoint::JmpCond { label, .. } => Some(label),
        _ => None,
    }
}
pub open spec fn labels_defined(s: Seq<PreResolvedCodePoint>) -> bool {
    forall|i: int| 0 <= i < s.len() && (#[trigger] jump_label(s[i])) is Some ==> label_exists(s, jump_label(s[i])->Some_0)
}
/// the position a label resolves to
pub open spec fn label_target(s: Seq<PreResolvedCodePoint>, l: u32) -> int {
    nl_count(s, choose|j: int| label_at(s, j, l))
}
pub open spec fn jump_ok_n(r: Seq<ByteCode>, k: int, n: int) -> bool {
    match r[k] {
        ByteCode::Jmp(d) => 0 <= k + 1 + d <= n,
        ByteCode::JmpCond { dist, .. } => 0 <= k + 1 + dist <= n,
        _ => true,
    }
}
/// already-resolved (relative) jumps that the compiler re-embeds as plain instructions must stay in range
pub open spec fn raw_jump_ok(s: Seq<PreResolvedCodePoint>, i: int) -> bool {
    match s[i] {
        PreResolvedCodePoint::Bytecode(ByteCode::Jmp(d)) => 0 <= nl_count(s, i) + 1 + d <= nl_count(s, s.len() as int),
        PreResolvedCodePoint::Bytecode(ByteCode::JmpCond { dist, .. }) => 0 <= nl_count(s, i) + 1 + dist <= nl_count(s, s.len() as int),
        _ => true,
    }
}
pub open spec fn raw_jumps_ok(s: Seq<PreResolvedCodePoint>) -> bool { forall|i: int| 0 <= i < s.len() ==> #[trigger] raw_jump_ok(s, i) }
pub open spec fn all_jumps_ok(r: Seq<ByteCode>, n: int) -> bool { forall|k: int| 0 <= k < r.len() ==> #[trigger] jump_ok_n(r, k, n) }

/// what the i-th input point becomes: instructions are copied in order; a jump to label L at output index k gets exactly
/// the distance target(L) - (k + 1); conditional jumps keep their condition; labels emit nothing
pub open spec fn point_resolved(s: Seq<PreResolvedCodePoint>, i: int, r: Seq<ByteCode>) -> bool {
    let k = nl_count(s, i);
    match s[i] {
        PreResolvedCodePoint::Bytecode(b) => k < r.len() && r[k] == b,
        PreResolvedCodePoint::Jmp { label } => k < r.len() && r[k] is Jmp && k + 1 + r[k]->Jmp_0 == label_target(s, label),
        PreResolvedCodePoint::JmpCond { when, label } => k < r.len() && r[k] is JmpCond && r[k]->JmpCond_when == when && k + 1 + r[k]->JmpCond_dist == label_target(s, label),
        PreResolvedCodePoint::Label(_) => true,
    }
}
pub open spec fn resolved_upto(s: Seq<PreResolvedCodePoint>, upto: int, r: Seq<ByteCode>) -> bool {
    forall|i: int| 0 <= i < upto ==> #[trigger] point_resolved(s, i, r)
}
pub open spec fn loc_table_ok(s: Seq<PreResolvedCodePoint>, m: Map<u32, usize>, upto: int) -> bool {
    &&& forall|l: u32| #[trigger] m.contains_key(l) ==> exists|j: int| 0 <= j < upto && label_at(s, j, l) && m[l] == nl_count(s, j)
    &&& forall|j: int, l: u32| 0 <= j < upto && #[trigger] label_at(s, j, l) ==> m.contains_key(l)
}

pub proof fn lemma_nl_count_bounds(s: Seq<PreResolvedCodePoint>, n: int)
    requires 0 <= n <= s.len()
    ensures 0 <= nl_count(s, n) <= n
    decreases n
{
    if n > 0 { lemma_nl_count_bounds(s, n - 1); }
}
pub proof fn lemma_nl_count_mono(s: Seq<PreResolvedCodePoint>, a: int, b: int)
    requires 0 <= a <= b <= s.len()
    ensures nl_count(s, a) <= nl_count(s, b)
    decreases b - a
{
    if a < b { lemma_nl_count_mono(s, a, b - 1); }
}
pub proof fn lemma_lookup(s: Seq<PreResolvedCodePoint>, m: Map<u32, usize>, l: u32)
    requires loc_table_ok(s, m, s.len() as int), label_exists(s, l), labels_unique(s)
    ensures m.contains_key(l), 0 <= m[l] <= nl_count(s, s.len() as int), m[l] == label_target(s, l)
{
    let j = choose|j: int| label_at(s, j, l);
    assert(label_at(s, j, l));
    assert(m.contains_key(l));
    let j2 = choose|j2: int| 0 <= j2 < s.len() && label_at(s, j2, l) && m[l] == nl_count(s, j2);
    assert(j2 == j);
    lemma_nl_count_bounds(s, j2);
    lemma_nl_count_mono(s, j2, s.len() as int);
}
/// C10 as a consequence of the contract: every resolved jump of a well-formed block lands inside the block or exactly at its end
pub proof fn law_jumps_land_in_block(s: Seq<PreResolvedCodePoint>, r: Seq<ByteCode>)
    requires labels_unique(s), labels_defined(s), raw_jumps_ok(s), r.len() == nl_count(s, s.len() as int), resolved_upto(s, s.len() as int, r), all_jumps_ok(r, r.len() as int)
    ensures forall|k: int| 0 <= k < r.len() ==> #[trigger] jump_ok_n(r, k, r.len() as int)
{}

impl View for PreResolvedByteCode { type V = Seq<PreResolvedCodePoint>; closed spec fn view(&self) -> Seq<PreResolvedCodePoint> { self.inner@ } }
impl PreResolvedByteCode { pub closed spec fn counted(&self) -> usize { self.len } }
impl View for CelByteCode { type V = Seq<ByteCode>; closed spec fn view(&self) -> Seq<ByteCode> { self.inner@ } }
impl Clone for PreResolvedCodePoint { #[verifier::external_body] fn clone(&self) -> (r: Self) ensures r == *self { unimplemented!() } }
'''


def build():
    U = Unit('preresolved')
    U.lemmas = [('lemma_nl_count_bounds', ('C10',)), ('lemma_nl_count_mono', ('C10',)), ('lemma_lookup', ('C10',)), ('law_jumps_land_in_block', ('C10',))]
    U.global_rewrites.append(C.DYN_REWRITE)
    U.raw(C.HEADER, 'header')
    U.raw(C.STANDINS, 'S1 stand-ins')
    C.value_types(U)
    U.extract(PR, 'enum PreResolvedCodePoint')
    U.extract(PR, 'struct PreResolvedByteCode')
    U.raw(C.DERIVED, 'assumed derived impls')
    U.raw(SPECS, 'spec functions and lemmas')
    U.raw(C.AXIOMS, 'axioms')
    U.extract(C.CBC, 'impl CelByteCode', fns={
        'new': A(ret='r', ensures=[('empty', 'r@.len() == 0')], props=('C10', 'C01')),
        'push': A(ensures=[('appends', 'final(self)@ == old(self)@.push(code_point)')], props=('C10', 'C01')),
        'len': A(ret='r', ensures=[('def', 'r == self@.len()')], props=('C10', 'C01')),
    })
    U.extract(PR, 'impl PreResolvedByteCode', fns={
        'new': A(ret='r', ensures=[('empty', 'r@.len() == 0 && r.counted() == 0')], props=('C10', 'C01')),
        'len': A(ret='r', ensures=[('def', 'r == self.counted()')], props=('C10', 'C01')),
        'resolve': A(
            ret='ret',
            requires=[('labels_unique', 'labels_unique(self@)'), ('labels_defined', 'labels_defined(self@)'),
                      ('embedded_jumps_in_range', 'raw_jumps_ok(self@)'), ('fits_i32', 'self@.len() < 0x7fff_ffff')],
            ensures=[
                ('length_is_instruction_count', 'ret@.len() == nl_count(self@, self@.len() as int)'),
                ('every_point_resolved_in_order_with_exact_distances', 'resolved_upto(self@, self@.len() as int, ret@)'),
                ('every_jump_lands_in_block_or_at_its_end', 'all_jumps_ok(ret@, ret@.len() as int)'),
            ],
            body_begin='let ghost s = self.inner@;',
            loops={
                0: dict(ghost='it', invariant=[
                    ('input', 's == self.inner@ && s.len() < 0x7fff_ffff && labels_unique(s)'),
                    ('iterates', 'it.seq().len() == s.len() && forall|j: int| 0 <= j < s.len() ==> *it.seq()[j] == s[j]'),
                    ('position_counts_instructions', 'curr_loc == nl_count(s, it.index@ as int)'),
                    ('label_table', 'loc_table_ok(s, locations@, it.index@ as int)'),
                ], pre='''proof { lemma_nl_count_bounds(s, it.index@ as int); }
let ghost idx0 = it.index@ as int; let ghost old_loc = locations@;''',
                    post='''proof {
    assert(*c == s[idx0]);
    if let PreResolvedCodePoint::Label(i) = *c {
        assert(label_at(s, idx0, i));
        assert forall|l: u32| #[trigger] locations@.contains_key(l) implies exists|j: int| 0 <= j < idx0 + 1 && label_at(s, j, l) && locations@[l] == nl_count(s, j) by {
            if l == i { assert(label_at(s, idx0, l)); } else { assert(old_loc.contains_key(l)); }
        }
    }
}'''),
                1: dict(ghost='it2', invariant=[
                    ('input', 'it2.seq() == s && raw_jumps_ok(s) && s.len() < 0x7fff_ffff && labels_defined(s) && labels_unique(s)'),
                    ('label_table', 'loc_table_ok(s, locations@, s.len() as int)'),
                    ('total', 'total == nl_count(s, s.len() as int)'),
                    ('position_counts_instructions', 'curr_loc == nl_count(s, it2.index@ as int)'),
                    ('one_output_per_instruction', 'ret@.len() == curr_loc'),
                    ('resolved_so_far', 'resolved_upto(s, it2.index@ as int, ret@)'),
                    ('jumps_in_range_so_far', 'all_jumps_ok(ret@, total)'),
                ], pre='''let ghost idx = it2.index@ as int;
let ghost old_ret = ret@;
proof {
    lemma_nl_count_bounds(s, idx);
    lemma_nl_count_bounds(s, s.len() as int);
    lemma_nl_count_mono(s, idx + 1, s.len() as int);
    assert(0 <= idx < s.len());
    assert(c == s[idx]);
    assert(raw_jump_ok(s, idx));
    if jump_label(s[idx]) is Some {
        assert(label_exists(s, jump_label(s[idx])->Some_0));
        lemma_lookup(s, locations@, jump_label(s[idx])->Some_0);
    }
    assert(nl_count(s, idx + 1) == nl_count(s, idx) + if is_label(s[idx]) { 0int } else { 1int });
}''', post='''proof {
    assert forall|k: int| 0 <= k < ret@.len() implies #[trigger] jump_ok_n(ret@, k, total) by {
        if k < old_ret.len() { assert(jump_ok_n(old_ret, k, total)); assert(ret@[k] == old_ret[k]); }
    }
    assert forall|i: int| 0 <= i < idx + 1 implies #[trigger] point_resolved(s, i, ret@) by {
        if i < idx { assert(point_resolved(s, i, old_ret)); lemma_nl_count_bounds(s, i); lemma_nl_count_mono(s, i + 1, idx);
                     assert(nl_count(s, i + 1) == nl_count(s, i) + if is_label(s[i]) { 0int } else { 1int }); }
    }
}'''),
            },
            arm_begin={
                'PreResolvedCodePoint::Label(i)': '''proof {
    assert(*c == s[idx0]);
    assert(label_at(s, idx0, *i));
    if locations@.contains_key(*i) {
        let j = choose|j: int| 0 <= j < idx0 && label_at(s, j, *i) && locations@[*i] == nl_count(s, j);
        assert(j == idx0);
    }
}''',
                'PreResolvedCodePoint::Jmp { label }': '''proof {
    assert(s[idx] == PreResolvedCodePoint::Jmp { label });
    assert(jump_label(s[idx]) == Some(label));
    assert(locations@.contains_key(label));
}''',
                'PreResolvedCodePoint::JmpCond { when, label }': '''proof {
    assert(jump_label(s[idx]) == Some(label));
    assert(locations@.contains_key(label));
}''',
            },
            rewrites=[('locations[&label]', '*locations.get(&label).unwrap()', 'R2: Index for HashMap has no vstd spec; std defines m[&k] as m.get(&k).expect(..) - same value, same panic condition')],
            before={'curr_loc = 0;': 'let ghost total = nl_count(s, s.len() as int);'},
            props=('C10', 'C01')),
    })
    U.raw(C.FOOTER, 'footer')
    return U
