"""unit builtins: min_impl / max_impl against "first least / greatest under lt / gt" (C04, C01)"""
from vgen.gen import Unit, A
from . import common as C

HAS_LOOP_CONTRACTS = True
DF = 'rscel/src/context/default_funcs.rs'

SPECS = r'''
pub uninterp spec fn op2(op: ByteCode, a: CelValue, b: CelValue) -> CelValue;
/// `x` is strictly before `y` in the order `<` (resp. after, for `>`): the comparison says true
pub open spec fn cmp_true(op: ByteCode, x: CelValue, y: CelValue) -> bool { op2(op, x, y) == CelValue::Bool(true) }
/// index of the FIRST extreme element of s[0..n): a later element replaces the current one only when it is strictly beyond it
pub open spec fn first_extreme(op: ByteCode, s: Seq<CelValue>, n: int) -> int
    decreases n
{
    if n <= 1 { 0 } else {
        let k = first_extreme(op, s, n - 1);
        if cmp_true(op, s[n - 1], s[k]) { n - 1 } else { k }
    }
}
pub proof fn lemma_first_extreme_in_range(op: ByteCode, s: Seq<CelValue>, n: int)
    requires 1 <= n <= s.len()
    ensures 0 <= first_extreme(op, s, n) < n
    decreases n
{
    if n > 1 { lemma_first_extreme_in_range(op, s, n - 1); }
}
/// the law behind "first least": no later element is strictly beyond the chosen one at the time it was visited, and every
/// element visited after the chosen one was not strictly beyond it
pub proof fn law_first_extreme_is_not_beaten_later(op: ByteCode, s: Seq<CelValue>, n: int, j: int)
    requires 1 <= n <= s.len(), first_extreme(op, s, n) < j < n
    ensures !cmp_true(op, s[j], s[first_extreme(op, s, j)])
    decreases n
{
    if n > 1 {
        lemma_first_extreme_in_range(op, s, n - 1);
        if j < n - 1 { if first_extreme(op, s, n) == first_extreme(op, s, n - 1) { law_first_extreme_is_not_beaten_later(op, s, n - 1, j); } }
    }
}
'''


def extreme(name, op, method):
    start = f'first_extreme(ByteCode::{op}, args@, args@.len() as int)'
    return A(ret='r', ensures=[
        ('no_arguments_is_an_error', 'args@.len() == 0 ==> r is Err'),
        ('first_extreme_under_the_same_order', f'args@.len() > 0 ==> r == args@[{start}]'),
    ], loops={0: dict(ghost='it', invariant=[
        ('iterates_the_arguments', 'it.seq().len() == args@.len() && forall|j: int| 0 <= j < it.seq().len() ==> *it.seq()[j] == args@[j]'),
        ('current_is_the_first_extreme_so_far', f'(it.index@ == 0 ==> {name} is None) && (it.index@ > 0 ==> {name} is Some && *{name}->Some_0 == args@[first_extreme(ByteCode::{op}, args@, it.index@ as int)])'),
    ], pre=f'proof {{ if it.index@ > 0 {{ lemma_first_extreme_in_range(ByteCode::{op}, args@, it.index@ as int); }} }}')},
        props=('C04', 'C01'))


def build():
    U = Unit('builtins')
    U.lemmas = [('lemma_first_extreme_in_range', ('C04',)), ('law_first_extreme_is_not_beaten_later', ('C04',))]
    U.global_rewrites.append(C.DYN_REWRITE)
    U.raw(C.HEADER, 'header')
    U.raw(C.STANDINS, 'S1 stand-ins')
    C.value_types(U)
    U.raw(C.DERIVED, 'assumed derived impls')
    U.raw(C.VALUE_SPECS + C.TRUTHY_SPEC + SPECS, 'spec functions')
    U.raw(C.TRAIT_FULL, 'CelValueDyn restated')
    U.raw(C.STD_SPECS, 'assumed std specs')
    U.raw(C.AXIOMS, 'axioms')
    U.extract(C.CE, 'impl CelError', fns={'argument': A(ret='r', ensures=[('kind', 'r is Argument')], props=('C01',))}, others='stub')
    fns = C.ambient(['from_err', 'from_null', 'is_err', 'is_true', 'from_bool'])
    fns.update({
        'lt': A(stub=True, ret='r', ensures=[('function_of_operands', 'r == op2(ByteCode::Lt, self, rhs)')]),
        'gt': A(stub=True, ret='r', ensures=[('function_of_operands', 'r == op2(ByteCode::Gt, self, rhs)')]),
        'le': A(stub=True, ret='r', ensures=[('function_of_operands', 'r == op2(ByteCode::Le, self, rhs)')]),
        'ge': A(stub=True, ret='r', ensures=[('function_of_operands', 'r == op2(ByteCode::Ge, self, rhs)')]),
    })
    U.extract(C.CV, 'impl CelValue', fns=fns, others='stub')
    U.extract(DF, 'fn min_impl', annot=extreme('curr_min', 'Lt', 'lt'))
    U.extract(DF, 'fn max_impl', annot=extreme('curr_max', 'Gt', 'gt'))
    U.raw(C.FOOTER, 'footer')
    return U
