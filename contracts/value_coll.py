"""unit value_coll: index (incl. negative), in_, access  (C06, C08 error classes, C01)"""
from vgen.gen import Unit, A
from . import common as C

HAS_LOOP_CONTRACTS = True

SPECS = r'''
/// l[i]: the i-th element for 0 <= i < size, the (size+i)-th for -size <= i < 0, an error outside that range
pub open spec fn list_index_ok(l: Seq<CelValue>, i: int, r: CelValue) -> bool {
    if 0 <= i < l.len() { r == l[i] }
    else if -l.len() <= i < 0 { r == l[l.len() + i] }
    else { r is Err && !(r->Err_0 is Attribute) && !(r->Err_0 is Binding) }     // a bad index is a failure of its own, never "absent" (C08)
}
pub uninterp spec fn str_contains(hay: Seq<char>, needle: Seq<char>) -> bool;
pub uninterp spec fn dyn_access(d: DynArc, key: Seq<char>) -> CelValue;
/// list membership under the structural `==` of PartialEq (uninterpreted: derive-like impl outside this unit)
pub uninterp spec fn peq(a: CelValue, b: CelValue) -> bool;
pub open spec fn list_has(l: Seq<CelValue>, x: CelValue, upto: int) -> bool { exists|j: int| 0 <= j < upto && j < l.len() && peq(x, l[j]) }
'''

TRAMP = r'''
#[verifier::external_body] pub fn usize_to_isize(n: usize) -> (r: Result<isize, std::num::TryFromIntError>)
    ensures n <= isize::MAX ==> r is Ok && r->Ok_0 == n, n > isize::MAX ==> r is Err { TryInto::<isize>::try_into(n) }
#[verifier::external_body] pub fn cel_peq(a: &CelValue, b: &CelValue) -> (r: bool) ensures r == peq(*a, *b) { unimplemented!() }
// `==` / `!=` on values written out as operators somewhere else than the membership test: NO contract (an edit that starts using them is decided
// against the postcondition instead of failing to type-check)
impl PartialEq for CelValue { #[verifier::external_body] fn eq(&self, other: &Self) -> bool { unimplemented!() } }
pub assume_specification<T, F: FnOnce(T) -> bool>[ Option::<T>::is_some_and ](o: Option<T>, f: F) -> (r: bool)
    requires o is Some ==> call_requires(f, (o->Some_0,)),
    ensures o is None ==> !r, o is Some ==> call_ensures(f, (o->Some_0,), r);       // std: None -> false, Some(x) -> f(x)
#[verifier::external_body] pub fn string_contains(s: &String, r: &String) -> (o: bool) ensures o == str_contains(s@, r@) { s.contains(r.as_str()) }
#[verifier::external_body] pub fn map_get<'a>(m: &'a HashMap<String, CelValue>, k: &str) -> (r: Option<&'a CelValue>)
    ensures (r is Some) == (map_lookup(m@, k@) is Some), r is Some ==> *r->Some_0 == map_lookup(m@, k@)->Some_0 { m.get(k) }
'''

R2 = 'R2: no vstd spec (str::contains with a generic Pattern, HashMap::get through Borrow<str>) -> external trampoline with the assumed std behaviour'


def build():
    U = Unit('value_coll')
    U.global_rewrites.append(C.DYN_REWRITE)
    U.raw(C.HEADER, 'header')
    U.raw(C.STANDINS, 'S1 stand-ins')
    C.value_types(U)
    U.raw(C.DERIVED, 'assumed derived impls')
    U.raw(C.VALUE_SPECS + C.TRUTHY_SPEC + SPECS, 'spec functions')
    U.raw(C.TRAIT_FULL.replace("#[verifier::external_body] pub fn access(&self, key: &str) -> CelValue { unimplemented!() }",
                               "#[verifier::external_body] pub fn access(&self, key: &str) -> (r: CelValue) ensures r == dyn_access(*self, key@) { unimplemented!() }") + TRAMP, 'trait + trampolines')
    U.raw(C.STD_SPECS, 'assumed std specs')
    U.raw(C.AXIOMS, 'axioms')
    U.extract(C.CE, 'impl CelError', fns={
        'invalid_op': A(ret='r', ensures=[('kind', 'r is InvalidOp')], props=('C01',)),
        'value': A(ret='r', ensures=[('kind', 'r is Value')], props=('C01',)),
        'attribute': A(ret='r', ensures=[('kind', 'r is Attribute')], props=('C01', 'C08')),
    }, others='stub')
    P = ('C06', 'C01')
    idx = [
        ('list_int_index', '{o} is List && {i} is Int ==> list_index_ok({o}->List_0@, {i}->Int_0 as int, {r})', ('C06', 'C08', 'C01')),
        ('list_uint_index', '{o} is List && {i} is UInt ==> list_index_ok({o}->List_0@, {i}->UInt_0 as int, {r})', ('C06', 'C08', 'C01')),
        ('list_other_index_is_error', '{o} is List && !({i} is Int) && !({i} is UInt) ==> {r} is Err', P),
        ('map_value_under_key_or_absent_field_error', '{o} is Map && {i} is String ==> (match map_lookup({o}->Map_0@, {i}->String_0@) {{ Some(v) => {r} == v, None => {r} is Err && {r}->Err_0 is Attribute }})', ('C06', 'C08', 'C01')),
        ('map_non_string_key_is_error', '{o} is Map && !({i} is String) ==> {r} is Err', P),
        ('not_indexable_is_error', '!({o} is List) && !({o} is Map) && !({o} is Dyn) ==> {r} is Err', P),
    ]
    mem = [
        ('list_membership', '{b} is List ==> {r} == CelValue::Bool(list_has({b}->List_0@, {a}, {b}->List_0@.len() as int))', P),
        ('map_key_presence', '{b} is Map && {a} is String ==> {r} == CelValue::Bool(map_lookup({b}->Map_0@, {a}->String_0@) is Some)', P),
        ('substring', '{b} is String && {a} is String ==> {r} == CelValue::Bool(str_contains({b}->String_0@, {a}->String_0@))', P),
        ('map_needs_string_key', '{b} is Map && !({a} is String) ==> {r} is Err', P),
        ('string_needs_string', '{b} is String && !({a} is String) ==> {r} is Err', P),
        ('other_operands_are_an_error', '!({b} is List) && !({b} is Map) && !({b} is String) ==> {r} is Err', P),
    ]

    def inst(cl, guard=None, **kw):
        out = []
        for n, t, pp in cl:
            t = t.format(**kw)
            out.append((n, f'{guard} ==> ({t})' if guard else t, pp))
        return out
    fns = C.ambient(['from_err', 'from_bool', 'is_err', 'true_', 'false_', 'from_null', 'is_null', 'is_true'])
    fns.update({
        'error_prop_or': C.err_prop_contract(stub=True),
        'index': A(ret='r',
                   ensures=[('left_error_wins', 'self is Err ==> r == self', P), ('right_error', '!(self is Err) && ival is Err ==> r == ival', P)]
                   + inst(idx, guard='!(self is Err) && !(ival is Err)', o='self', i='ival', r='r'),
                   closures={0: dict(types=['CelValue', 'CelValue'], ret='res: CelValue',
                                     requires=[('operands_not_err', '!(obj is Err) && !(index is Err)')],
                                     ensures=inst(idx, o='obj', i='index', r='res'))},
                   arm_rewrites={'CelValue::Map(map)': [('map.get(index.as_str())', 'map_get(&map, index.as_str())', R2)],
                                 'CelValue::List(list)': [('TryInto::<isize>::try_into(list.len())', 'usize_to_isize(list.len())', 'R2: vstd has no spec for isize: TryFrom<usize> through TryInto -> trampoline with the assumed std behaviour')]},
                   props=P),
        'in_': A(ret='r',
                 ensures=[('left_error_wins', 'self is Err ==> r == self', P), ('right_error', '!(self is Err) && rhs is Err ==> r == rhs', P)]
                 + inst(mem, guard='!(self is Err) && !(rhs is Err)', a='self', b='rhs', r='r'),
                 closures={0: dict(types=['CelValue', 'CelValue'], ret='res: CelValue',
                                   requires=[('operands_not_err', '!(lhs is Err) && !(rhs is Err)')],
                                   ensures=inst(mem, a='lhs', b='rhs', r='res'))},
                 loops={0: dict(ghost='it', invariant=[('iterates_the_list', 'it.seq().len() == l@.len() && forall|j: int| 0 <= j < it.seq().len() ==> *it.seq()[j] == l@[j]'),
                                                       ('receiver', 'rhs is List && rhs->List_0@ == l@'),
                                                       ('no_earlier_element_equal', '!list_has(l@, lhs, it.index@ as int)')])},
                 arm_rewrites={'CelValue::String(s)': [('s.contains(&r)', 'string_contains(&s, &r)', R2)],
                               'CelValue::List(l)': [('lhs == *value', 'cel_peq(&lhs, value)', 'R2: PartialEq for CelValue (hand-written structural impl, outside this unit) -> trampoline over the uninterpreted relation peq')]},
                 props=P),
    })
    U.extract(C.CV, 'impl CelValue', fns=fns, others='stub')
    C.from_impls(U, ('bool', 'CelError'))
    U.raw('\n'.join(C.FROM_SPEC_IMPLS.split('\n')[4:6]), 'From spec impls')
    U.extract(C.CV, 'impl CelValueDyn for CelValue', fns={
        'access': A(ret='r', ensures=[
            ('error_kept', 'self is Err ==> r == *self', P),
            ('map_field_or_absent_field_error', 'self is Map ==> (match map_lookup(self->Map_0@, key@) { Some(v) => r == v, None => r is Err && r->Err_0 is Attribute })', ('C06', 'C08', 'C01')),
            ('other_values_have_no_fields', '!(self is Err) && !(self is Map) && !(self is Dyn) ==> r is Err', P),
        ], rewrites=[('map.get(key)', 'map_get(map, key)', R2)], props=P),
    }, others='stub', skip=('any_ref',))
    U.raw(C.FOOTER, 'footer')
    return U
