"""unit scanner: compiler/string_scanner.rs -- the character cursor under the tokenizer and its line / column bookkeeping (C18, C01).
Model: the not yet consumed characters `remaining()` = the buffered look-ahead (if any) followed by what the Chars iterator still holds."""
from vgen.gen import Unit, A
from . import common as C

HAS_LOOP_CONTRACTS = False
SS = 'rscel/src/compiler/string_scanner.rs'
SL = 'rscel/src/compiler/source_location.rs'

PRELUDE = r'''
// S1: std::str::Chars -- an iterator over the characters of the input; `rest()` is what it has not yielded yet
#[verifier::external_body] pub struct Chars<'l> { _p: &'l u8 }
impl<'l> Chars<'l> {
    pub uninterp spec fn rest(&self) -> Seq<char>;
    /// ASSUMED std: next() yields the characters in order, then None forever
    #[verifier::external_body] pub fn next(&mut self) -> (r: Option<char>)
        ensures
            old(self).rest().len() > 0 ==> r == Some(old(self).rest()[0]) && final(self).rest() == old(self).rest().skip(1),
            old(self).rest().len() == 0 ==> r is None && final(self).rest() == old(self).rest(),
    { unimplemented!() }
}
/// R2m: `input.chars()`.  ASSUMED std: all characters of the input in order; a str is at most isize::MAX bytes long
#[verifier::external_body] pub fn s_chars<'l>(input: &'l str) -> (r: Chars<'l>) ensures r.rest() == input@, input@.len() <= isize::MAX { unimplemented!() }

impl<'l> StringScanner<'l> {
    /// the characters not yet consumed by next()
    pub closed spec fn remaining(&self) -> Seq<char> {
        (match self.current { Some(c) => seq![c], None => Seq::empty() }) + (if self.eof { Seq::empty() } else { self.iterator.rest() })
    }
    pub closed spec fn loc(&self) -> (nat, nat) { (self.line as nat, self.column as nat) }
    pub closed spec fn wf(&self) -> bool {
        &&& self.line + self.column + self.remaining().len() <= isize::MAX
        &&& self.eof ==> self.current is None
    }
}
/// line / column after one more character: a newline starts the next line at column 0, every other character is one column
pub open spec fn advance(l: (nat, nat), c: char) -> (nat, nat) { if c == '\n' { (l.0 + 1, 0) } else { (l.0, l.1 + 1) } }
pub closed spec fn sl_line(s: SourceLocation) -> nat { s.0 as nat }
pub closed spec fn sl_col(s: SourceLocation) -> nat { s.1 as nat }

impl Clone for SourceRange { #[verifier::external_body] fn clone(&self) -> (r: Self) ensures r == *self { unimplemented!() } }
impl Copy for SourceRange {}
impl Clone for SourceLocation { #[verifier::external_body] fn clone(&self) -> (r: Self) ensures r == *self { unimplemented!() } }
impl Copy for SourceLocation {}
// ---- spans ---------------------------------------------------------------------------------------------------------------------
/// positions are ordered by line, then column (#[derive(PartialOrd, Ord)] on SourceLocation(line, col): ASSUMED lexicographic)
pub closed spec fn loc_le(a: SourceLocation, b: SourceLocation) -> bool { a.0 < b.0 || (a.0 == b.0 && a.1 <= b.1) }
pub open spec fn loc_min(a: SourceLocation, b: SourceLocation) -> SourceLocation { if loc_le(a, b) { a } else { b } }
pub open spec fn loc_max(a: SourceLocation, b: SourceLocation) -> SourceLocation { if loc_le(a, b) { b } else { a } }
/// R2m: Ord::min / Ord::max on SourceLocation (derived order)
#[verifier::external_body] pub fn s_loc_min(a: SourceLocation, b: SourceLocation) -> (r: SourceLocation) ensures r == loc_min(a, b) { unimplemented!() }
#[verifier::external_body] pub fn s_loc_max(a: SourceLocation, b: SourceLocation) -> (r: SourceLocation) ensures r == loc_max(a, b) { unimplemented!() }
pub closed spec fn r_end(r: SourceRange) -> SourceLocation { r.end }
pub closed spec fn r_start(r: SourceRange) -> SourceLocation { r.start }
pub closed spec fn mk_range(a: SourceLocation, b: SourceLocation) -> SourceRange { SourceRange { start: a, end: b } }
/// the smallest span containing both: from the earlier start to the later end
pub closed spec fn hull(a: SourceRange, b: SourceRange) -> SourceRange { mk_range(loc_min(a.start, b.start), loc_max(a.end, b.end)) }
pub open spec fn contains(outer: SourceRange, inner: SourceRange) -> bool { loc_le(r_start(outer), r_start(inner)) && loc_le(r_end(inner), r_end(outer)) }
'''


def build():
    U = Unit('scanner')
    U.raw(C.HEADER, 'header')
    U.extract(SL, 'struct SourceLocation')
    U.extract(SS, 'struct StringScanner')
    U.extract('rscel/src/compiler/source_range.rs', 'struct SourceRange')
    U.raw(PRELUDE, 'scanner model')
    P = ('C18', 'C01')
    U.extract(SL, 'impl SourceLocation', fns={
        'new': A(ret='r', ensures=[('def', 'sl_line(r) == line && sl_col(r) == col')], props=P),
        'line': A(ret='r', ensures=[('def', 'r == sl_line(*self)')], props=P),
        'col': A(ret='r', ensures=[('def', 'r == sl_col(*self)')], props=P),
    })
    U.extract(SS, "impl<'l> StringScanner<'l>", fns={
        'from_input': A(ret='r', ensures=[('starts_at_line_0_column_0_with_the_whole_input', 'r.wf() && r.remaining() == input@ && r.loc() == (0nat, 0nat)')],
                        rewrites=[('input.chars()', 's_chars(input)', 'R2m: str::chars -> trampoline (assumed: yields the characters of the input in order)')], props=P),
        'peek': A(ret='r', requires=[('wf', 'old(self).wf()')],
                  ensures=[('looks_without_consuming', 'final(self).wf() && final(self).remaining() =~= old(self).remaining() && final(self).loc() == old(self).loc()'),
                           ('the_next_character', 'r == (if old(self).remaining().len() > 0 { Some(old(self).remaining()[0]) } else { None::<char> })')], props=P),
        'next': A(ret='r', requires=[('wf', 'old(self).wf()')],
                  ensures=[('consumes_exactly_one_character', '''final(self).wf() && (if old(self).remaining().len() > 0 {
                                r == Some(old(self).remaining()[0]) && final(self).remaining() == old(self).remaining().skip(1)
                            } else { r is None && final(self).remaining() == old(self).remaining() })'''),
                           ('line_and_column_count_characters_and_reset_on_newline',
                            'final(self).loc() == (if old(self).remaining().len() > 0 { advance(old(self).loc(), old(self).remaining()[0]) } else { old(self).loc() })')], props=P),
        'location': A(ret='r', ensures=[('reports_the_tracked_line_and_column', '(sl_line(r), sl_col(r)) == self.loc()')], props=P),
        'collect_next': A(ret='r', requires=[('nothing_buffered', 'old(self).current is None')],
                          ensures=[('takes_one_from_the_iterator', '''final(self).current is None && final(self).line == old(self).line && final(self).column == old(self).column && (r is Some ==> !final(self).eof)
                            && (if old(self).remaining().len() > 0 { r == Some(old(self).remaining()[0]) && final(self).remaining() == old(self).remaining().skip(1) }
                                else { r is None && final(self).remaining().len() == 0 && final(self).eof })''')], props=P),
        'input': A(ret='r', props=('C01',)),
    })
    U.extract('rscel/src/compiler/source_range.rs', 'impl SourceRange', fns={
        'new': A(ret='r', ensures=[('def', 'r == mk_range(start, end)')], props=P),
        'start': A(ret='r', ensures=[('def', 'r == r_start(*self)')], props=P),
        'end': A(ret='r', ensures=[('def', 'r == r_end(*self)')], props=P),
        'surrounding': A(ret='r', ensures=[('smallest_span_containing_both', 'r == hull(self, other)')], mcalls={'min': 's_loc_min', 'max': 's_loc_max'}, props=P),
    })
    U.lemmas = [('lemma_hull_commutes', ('C18',)), ('lemma_hull_is_the_smallest_containing_span', ('C18',))]
    U.raw('''
/// the order of the two spans does not matter (this is the axiom the parser units use)
pub proof fn lemma_hull_commutes(a: SourceRange, b: SourceRange) ensures hull(a, b) == hull(b, a) {}
/// the hull contains both spans, and every span containing both contains the hull
pub proof fn lemma_hull_is_the_smallest_containing_span(a: SourceRange, b: SourceRange, c: SourceRange)
    ensures contains(hull(a, b), a), contains(hull(a, b), b), contains(c, a) && contains(c, b) ==> contains(c, hull(a, b)) {}
''', 'span lemmas')
    U.raw(C.FOOTER, 'footer')
    return U
