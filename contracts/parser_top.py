"""unit parser_top: CelCompiler::compile -- the whole token stream is ONE expression (nothing may follow it), and the program carries
that expression's resolved code, identifier set and tree (C02, C18 root span, C17, C10)."""
from vgen.gen import Unit, A
from . import common as C
from . import pshared as S
from .parser_expr import result_clause, UNTOUCHED, CURSOR, HERE

HAS_LOOP_CONTRACTS = False

SPEC = r'''
pub uninterp spec fn sp_expr(toks: Seq<TokenWithLoc>, pos: nat, lbl: u32) -> Option<P<Expr>>;         // unit parser_expr
pub uninterp spec fn resolved(code: Seq<PreResolvedCodePoint>) -> Seq<ByteCode>;                       // PreResolvedByteCode::resolve (unit preresolved)
// S1: Program (program/mod.rs): what it was built from
#[verifier::external_body] pub struct Program { _p: u8 }
impl Program {
    pub uninterp spec fn code(&self) -> Seq<ByteCode>;
    pub uninterp spec fn params(&self) -> Set<Seq<char>>;
    pub uninterp spec fn tree(&self) -> Option<AstNode<Expr>>;
    #[verifier::external_body] pub fn details_mut(&mut self) -> (r: &mut ProgramDetails)
        ensures old(self).params() == r@, final(self).code() == old(self).code(), final(self).params() == final(r)@, final(self).tree() == final(r).tree_of() { unimplemented!() }
}
impl<'l> CelCompiler<'l> {
    pub closed spec fn c_toks(&self) -> Seq<TokenWithLoc> { self.tokenizer.toks() }
    pub closed spec fn c_pos(&self) -> nat { self.tokenizer.pos() }
    pub closed spec fn c_lbl(&self) -> u32 { self.next_label }
}
impl ProgramDetails { pub uninterp spec fn tree_of(&self) -> Option<AstNode<Expr>>; }
impl SyntaxError {
    #[verifier::external_body] pub fn from_location(loc: SourceLocation) -> SyntaxError { unimplemented!() }
    #[verifier::external_body] pub fn with_message(self, msg: String) -> SyntaxError { unimplemented!() }
}
impl std::fmt::Debug for TokenWithLoc { #[verifier::external_body] fn fmt(&self, f: &mut std::fmt::Formatter<'_>) -> std::fmt::Result { unimplemented!() } }
pub mod axt { use super::*; use vstd::prelude::*;
pub broadcast axiom fn axiom_debug_opt_ref_tokenwithloc<'a>() ensures #[trigger] vstd::std_specs::fmt::fmt_req_all::<Option<&'a TokenWithLoc>>();
}
'''


def build():
    U = Unit('parser_top')
    U.global_rewrites.append(C.DYN_REWRITE)
    U.raw(C.HEADER, 'header')
    U.raw(C.STANDINS, 'S1 stand-ins')
    C.value_types(U)
    S.compiler_types(U, grammar='all')
    U.extract(S.CP, 'struct CelCompiler')
    U.raw(C.DERIVED, 'assumed derived impls')
    U.raw(C.VALUE_SPECS + C.TRUTHY_SPEC, 'shared vocabulary')
    U.raw(C.TRAIT_FULL, 'CelValueDyn restated')
    tok = S.core_with_full_tokenizer().replace('    /// ASSUMED of every tokenizer: the scanner stands at the end of the last token it has read',
                                              "    fn source<'a>(&'a self) -> (r: &'a str);\n    /// ASSUMED of every tokenizer: the scanner stands at the end of the last token it has read")
    U.raw('pub mod vwc { use super::*; use vstd::prelude::*; impl View for CelByteCode { type V = Seq<ByteCode>; closed spec fn view(&self) -> Seq<ByteCode> { self.inner@ } } }\n' + tok + S.ITER + SPEC + S.BINDCTX_AMBIENT, 'grammar specs')
    U.raw(C.STD_SPECS, 'assumed std specs')
    U.raw(S.axioms().replace('ax::axiom_vec_bytecode_len, ', 'ax::axiom_vec_bytecode_len, axt::axiom_debug_opt_ref_tokenwithloc, '), 'axioms')
    U.extract(C.CE, 'impl From<SyntaxError> for CelError', fns={'from': A(ret='r', ensures=[('def', 'r == CelError::Syntax(value)')], props=('C01',))})
    U.extract(S.PR, 'impl From<ByteCode> for PreResolvedCodePoint', fns={'from': A(ret='r', ensures=[('def', 'r == PreResolvedCodePoint::Bytecode(value)')], props=('C10', 'C01'))})
    U.extract(S.PR, 'impl PreResolvedByteCode', fns={}, others='stub')
    S.grammar_ambient(U)
    U.extract('rscel/src/program/program_details.rs', 'impl ProgramDetails', fns=dict(S.stubbed(S.DETAILS), add_ast=A(stub=True, ensures=[('keeps_identifiers_sets_the_tree', 'final(self)@ == old(self)@ && final(self).tree_of() == Some(ast)')])))
    cp = S.stubbed(S.compprog_contracts())
    cp['into_program'] = A(stub=True, ret='r', ensures=[('resolved_code_identifiers_and_no_tree_yet', 'r.code() == resolved(code_of(node_view(self.inner))) && r.params() == self.details@')])
    U.extract(S.CPR, 'impl CompiledProg', fns=cp, others='stub')
    U.extract(S.CP, "impl<'l> CelCompiler<'l>", fns={
        'parse_expression': A(stub=True, ret='r', requires=[CURSOR], ensures=[UNTOUCHED, result_clause(f'sp_expr({HERE})', ())]),
        'compile': A(ret='r', requires=[('cursor_in_range', 'self.c_pos() <= self.c_toks().len()')],
                     ensures=[('the_whole_input_is_one_expression_and_the_program_is_its_code_identifiers_and_tree', '''r is Ok ==> ({
                        let toks = self.c_toks();
                        let p = sp_expr(toks, self.c_pos(), self.c_lbl());
                        &&& p is Some && p->Some_0.end == toks.len()
                        &&& r->Ok_0.code() == resolved(code_of(p->Some_0.node))
                        &&& r->Ok_0.params() == p->Some_0.details
                        &&& r->Ok_0.tree() == Some(p->Some_0.ast)
                     })''', ('C02', 'C18', 'C17', 'C10'))],
                     body_begin='let mut this = self;',
                     rewrites=[('pub fn compile(mut self)', 'pub fn compile(self)', 'R4: Verus does not support a `mut self` parameter: rebound as `let mut this = self`'),
                               ('self.parse_expression()?', 'this.parse_expression()?', 'R4'),
                               ('!self.tokenizer.peek()?.is_none()', '!this.tokenizer.peek()?.is_none()', 'R4'),
                               ('SyntaxError::from_location(self.tokenizer.location())', 'SyntaxError::from_location(this.tokenizer.location())', 'R4'),
                               ('self.tokenizer.peek()?))', 'this.tokenizer.peek()?))', 'R4'),
                               ('self.tokenizer.source().to_owned()', 'this.tokenizer.source().to_owned()', 'R4')],
                     props=('C02', 'C18', 'C17', 'C10', 'C01')),
    }, others='stub', skip=('with_tokenizer',))
    U.raw(C.FOOTER, 'footer')
    return U
