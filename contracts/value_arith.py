"""unit value_arith: type_prop, error_prop_or, impl Add/Sub/Mul/Div/Rem/Neg/Not for CelValue  (C03, C01, C16 arithmetic wiring)"""
from vgen.gen import Unit, A
from . import common as C

SPECS = r'''
pub enum Op { Add, Sub, Mul, Div, Rem }

/// integer division / remainder as CEL (and Rust) define them: truncation toward zero.
/// `/` and `%` below are the mathematical (Euclidean) operators, which truncate when the dividend is not negative.
pub open spec fn trunc_div(x: int, y: int) -> int
    recommends y != 0
{
    if x == 0 { 0 } else if x > 0 { x / y } else { -((-x) / y) }
}
pub open spec fn trunc_rem(x: int, y: int) -> int
    recommends y != 0
{
    if x == 0 { 0 } else if x > 0 { x % y } else { -((-x) % y) }
}

pub open spec fn abs_int(x: int) -> int { if x >= 0 { x } else { -x } }
proof fn lemma_euclid_bound(x: int, y: int) requires x >= 0, y != 0 ensures -x <= x / y <= x, -x <= x % y <= x
{
    assert(-x <= x / y <= x) by (nonlinear_arith) requires x >= 0, y != 0;
    assert(0 <= x % y) by (nonlinear_arith) requires x >= 0, y != 0;
    assert(x % y <= x) by (nonlinear_arith) requires x >= 0, y != 0;
}
pub proof fn lemma_zero_div(y: int) requires y != 0 ensures 0int / y == 0, 0int % y == 0
{
    assert(0int / y == 0 && 0int % y == 0) by (nonlinear_arith) requires y != 0;
}
/// |x / y| <= |x| and |x % y| <= |x|: a quotient or remainder of representable operands overflows only for MIN / -1
pub proof fn lemma_trunc_bound(x: int, y: int) requires y != 0 ensures -abs_int(x) <= trunc_div(x, y) <= abs_int(x), -abs_int(x) <= trunc_rem(x, y) <= abs_int(x)
{
    if x > 0 { lemma_euclid_bound(x, y); } else if x < 0 { lemma_euclid_bound(-x, y); }
}

/// the exact mathematical result, None where mathematics has none (zero divisor)
pub open spec fn op_exact(op: Op, x: int, y: int) -> Option<int> {
    match op {
        Op::Add => Some(x + y),
        Op::Sub => Some(x - y),
        Op::Mul => Some(x * y),
        Op::Div => if y == 0 { None } else { Some(trunc_div(x, y)) },
        Op::Rem => if y == 0 { None } else { Some(trunc_rem(x, y)) },
    }
}

/// result kind int: exact value when representable, an error otherwise -- never a wrapped value
pub open spec fn arith_int_ok(op: Op, a: CelValue, b: CelValue, r: CelValue) -> bool {
    let x = int_val(a);
    let y = int_val(b);
    let e = op_exact(op, x, y);
    if i64_ok(x) && i64_ok(y) {
        if e is Some && i64_ok(e->Some_0) { r == CelValue::Int(e->Some_0 as i64) } else { r is Err }
    } else {
        // a uint operand above the int range cannot be widened without changing its value:
        // the operation may fail, or may still return the exact result; it must not return anything else
        r is Err || (e is Some && i64_ok(e->Some_0) && r == CelValue::Int(e->Some_0 as i64))
    }
}

pub open spec fn arith_uint_ok(op: Op, a: CelValue, b: CelValue, r: CelValue) -> bool {
    let e = op_exact(op, int_val(a), int_val(b));
    if e is Some && u64_ok(e->Some_0) { r == CelValue::UInt(e->Some_0 as u64) } else { r is Err }
}

// chrono arithmetic: representability is chrono's (uninterpreted here, executed for real by the Kani twins)
pub uninterp spec fn ts_add_ok(t: DateTime<Utc>, d: Duration) -> bool;
pub uninterp spec fn ts_add(t: DateTime<Utc>, d: Duration) -> DateTime<Utc>;
pub uninterp spec fn ts_sub_ok(t: DateTime<Utc>, d: Duration) -> bool;
pub uninterp spec fn ts_sub(t: DateTime<Utc>, d: Duration) -> DateTime<Utc>;
pub uninterp spec fn ts_diff(a: DateTime<Utc>, b: DateTime<Utc>) -> Duration;
pub uninterp spec fn dur_add_ok(a: Duration, b: Duration) -> bool;
pub uninterp spec fn dur_add(a: Duration, b: Duration) -> Duration;
pub uninterp spec fn dur_sub_ok(a: Duration, b: Duration) -> bool;
pub uninterp spec fn dur_sub(a: Duration, b: Duration) -> Duration;

pub open spec fn pair_is(a: CelValue, b: CelValue, ka: int, kb: int) -> bool { vkind(a) == ka && vkind(b) == kb }
/// 1 string, 2 bytes, 3 list, 4 timestamp, 5 duration, 0 anything else
pub open spec fn vkind(v: CelValue) -> int {
    match v {
        CelValue::String(_) => 1,
        CelValue::Bytes(_) => 2,
        CelValue::List(_) => 3,
        CelValue::TimeStamp(_) => 4,
        CelValue::Duration(_) => 5,
        _ => 0,
    }
}
'''

CHRONO = r'''
// R2: chrono operations used by the timestamp/duration arms, with assumed specs over the uninterpreted chrono model.
// `t + d`, `t - d`, `d + d`, `d - d` PANIC in chrono when the result is not representable: that is their add_req/sub_req.
impl vstd::std_specs::ops::AddSpecImpl<Duration> for DateTime<Utc> {
    open spec fn obeys_add_spec() -> bool { true }
    open spec fn add_req(self, rhs: Duration) -> bool { ts_add_ok(self, rhs) }
    open spec fn add_spec(self, rhs: Duration) -> DateTime<Utc> { ts_add(self, rhs) }
}
impl Add<Duration> for DateTime<Utc> { type Output = DateTime<Utc>; #[verifier::external_body] fn add(self, rhs: Duration) -> DateTime<Utc> { unimplemented!() } }
impl vstd::std_specs::ops::SubSpecImpl<Duration> for DateTime<Utc> {
    open spec fn obeys_sub_spec() -> bool { true }
    open spec fn sub_req(self, rhs: Duration) -> bool { ts_sub_ok(self, rhs) }
    open spec fn sub_spec(self, rhs: Duration) -> DateTime<Utc> { ts_sub(self, rhs) }
}
impl Sub<Duration> for DateTime<Utc> { type Output = DateTime<Utc>; #[verifier::external_body] fn sub(self, rhs: Duration) -> DateTime<Utc> { unimplemented!() } }
impl vstd::std_specs::ops::SubSpecImpl<DateTime<Utc>> for DateTime<Utc> {
    open spec fn obeys_sub_spec() -> bool { true }
    open spec fn sub_req(self, rhs: DateTime<Utc>) -> bool { true }
    open spec fn sub_spec(self, rhs: DateTime<Utc>) -> Duration { ts_diff(self, rhs) }
}
impl Sub<DateTime<Utc>> for DateTime<Utc> { type Output = Duration; #[verifier::external_body] fn sub(self, rhs: DateTime<Utc>) -> Duration { unimplemented!() } }
impl vstd::std_specs::ops::AddSpecImpl<Duration> for Duration {
    open spec fn obeys_add_spec() -> bool { true }
    open spec fn add_req(self, rhs: Duration) -> bool { dur_add_ok(self, rhs) }
    open spec fn add_spec(self, rhs: Duration) -> Duration { dur_add(self, rhs) }
}
impl Add<Duration> for Duration { type Output = Duration; #[verifier::external_body] fn add(self, rhs: Duration) -> Duration { unimplemented!() } }
impl vstd::std_specs::ops::SubSpecImpl<Duration> for Duration {
    open spec fn obeys_sub_spec() -> bool { true }
    open spec fn sub_req(self, rhs: Duration) -> bool { dur_sub_ok(self, rhs) }
    open spec fn sub_spec(self, rhs: Duration) -> Duration { dur_sub(self, rhs) }
}
impl Sub<Duration> for Duration { type Output = Duration; #[verifier::external_body] fn sub(self, rhs: Duration) -> Duration { unimplemented!() } }
impl DateTime<Utc> {
    #[verifier::external_body] pub fn checked_add_signed(self, rhs: Duration) -> (r: Option<DateTime<Utc>>)
        ensures r == (if ts_add_ok(self, rhs) { Some(ts_add(self, rhs)) } else { None::<DateTime<Utc>> }) { unimplemented!() }
    #[verifier::external_body] pub fn checked_sub_signed(self, rhs: Duration) -> (r: Option<DateTime<Utc>>)
        ensures r == (if ts_sub_ok(self, rhs) { Some(ts_sub(self, rhs)) } else { None::<DateTime<Utc>> }) { unimplemented!() }
}
impl Duration {
    #[verifier::external_body] pub fn checked_add(&self, rhs: &Duration) -> (r: Option<Duration>)
        ensures r == (if dur_add_ok(*self, *rhs) { Some(dur_add(*self, *rhs)) } else { None::<Duration> }) { unimplemented!() }
    #[verifier::external_body] pub fn checked_sub(&self, rhs: &Duration) -> (r: Option<Duration>)
        ensures r == (if dur_sub_ok(*self, *rhs) { Some(dur_sub(*self, *rhs)) } else { None::<Duration> }) { unimplemented!() }
}

// R2: IEEE-754 arithmetic. Verus gives f64 operators an unprovable precondition and no postcondition, so the float arms call
// these trampolines (declared rewrites); what they compute is decided by the Kani twins on the compiled crate.
/// the IEEE-754 double operations (hardware semantics: uninterpreted here)
pub uninterp spec fn ieee(op: Op, a: f64, b: f64) -> f64;
/// a numeric operand as the double it widens to
pub open spec fn as_f64(v: CelValue) -> f64 { match v { CelValue::Float(f) => f, _ => int_f64(int_val(v)) } }
#[verifier::external_body] pub fn f64_add(a: f64, b: f64) -> (r: f64) ensures r == ieee(Op::Add, a, b) { a + b }
#[verifier::external_body] pub fn f64_sub(a: f64, b: f64) -> (r: f64) ensures r == ieee(Op::Sub, a, b) { a - b }
#[verifier::external_body] pub fn f64_mul(a: f64, b: f64) -> (r: f64) ensures r == ieee(Op::Mul, a, b) { a * b }
#[verifier::external_body] pub fn f64_div(a: f64, b: f64) -> (r: f64) ensures r == ieee(Op::Div, a, b) { a / b }
#[verifier::external_body] pub fn f64_neg(a: f64) -> f64 { -a }
'''

TRAIT = C.TRAIT_FULL


OPSPEC = r'''
// vstd's operator traits carry a trait-level contract (XSpecImpl).  The CelValue operators are total (req = true) and are
// specified by the ensures clauses spliced onto the real impls, not by a trait-level spec function (obeys = false).
impl vstd::std_specs::ops::AddSpecImpl for CelValue { open spec fn obeys_add_spec() -> bool { false } open spec fn add_req(self, rhs: CelValue) -> bool { true } open spec fn add_spec(self, rhs: CelValue) -> CelValue { arbitrary() } }
impl vstd::std_specs::ops::SubSpecImpl for CelValue { open spec fn obeys_sub_spec() -> bool { false } open spec fn sub_req(self, rhs: CelValue) -> bool { true } open spec fn sub_spec(self, rhs: CelValue) -> CelValue { arbitrary() } }
impl vstd::std_specs::ops::MulSpecImpl for CelValue { open spec fn obeys_mul_spec() -> bool { false } open spec fn mul_req(self, rhs: CelValue) -> bool { true } open spec fn mul_spec(self, rhs: CelValue) -> CelValue { arbitrary() } }
impl vstd::std_specs::ops::DivSpecImpl for CelValue { open spec fn obeys_div_spec() -> bool { false } open spec fn div_req(self, rhs: CelValue) -> bool { true } open spec fn div_spec(self, rhs: CelValue) -> CelValue { arbitrary() } }
impl vstd::std_specs::ops::RemSpecImpl for CelValue { open spec fn obeys_rem_spec() -> bool { false } open spec fn rem_req(self, rhs: CelValue) -> bool { true } open spec fn rem_spec(self, rhs: CelValue) -> CelValue { arbitrary() } }
impl vstd::std_specs::ops::NegSpecImpl for CelValue { open spec fn obeys_neg_spec() -> bool { false } open spec fn neg_req(self) -> bool { true } open spec fn neg_spec(self) -> CelValue { arbitrary() } }
'''

FLOAT_RW = {
    'add': ('val1 + val2', 'f64_add(val1, val2)'),
    'sub': ('val1 - val2', 'f64_sub(val1, val2)'),
    'mul': ('val1 * val2', 'f64_mul(val1, val2)'),
    'div': ('val1 / val2', 'f64_div(val1, val2)'),
}
R2F = 'R2: f64 operator -> external trampoline (Verus has no usable f64 operator spec); IEEE behaviour checked by Kani'

ADD_OTHER = [
    ('concat_string', 'pair_is({a}, {b}, 1, 1) ==> {r} is String && {r}->String_0@ == {a}->String_0@ + {b}->String_0@', ('C06', 'C01')),
    ('concat_bytes', 'pair_is({a}, {b}, 2, 2) ==> {r} is Bytes && {r}->Bytes_0@ == {a}->Bytes_0@ + {b}->Bytes_0@', ('C06', 'C01')),
    ('concat_list', 'pair_is({a}, {b}, 3, 3) ==> {r} is List && {r}->List_0@ =~= {a}->List_0@ + {b}->List_0@', ('C06', 'C01')),
    ('timestamp_plus_duration', 'pair_is({a}, {b}, 4, 5) ==> (if ts_add_ok({a}->TimeStamp_0, {b}->Duration_0) {{ {r} == CelValue::TimeStamp(ts_add({a}->TimeStamp_0, {b}->Duration_0)) }} else {{ {r} is Err }})', ('C16', 'C01')),
    ('duration_plus_timestamp', 'pair_is({a}, {b}, 5, 4) ==> (if ts_add_ok({b}->TimeStamp_0, {a}->Duration_0) {{ {r} == CelValue::TimeStamp(ts_add({b}->TimeStamp_0, {a}->Duration_0)) }} else {{ {r} is Err }})', ('C16', 'C01')),
    ('duration_plus_duration', 'pair_is({a}, {b}, 5, 5) ==> (if dur_add_ok({a}->Duration_0, {b}->Duration_0) {{ {r} == CelValue::Duration(dur_add({a}->Duration_0, {b}->Duration_0)) }} else {{ {r} is Err }})', ('C16', 'C01')),
    ('every_other_pair_is_an_error', 'arith_kind({a}, {b}) is Other && !pair_is({a}, {b}, 1, 1) && !pair_is({a}, {b}, 2, 2) && !pair_is({a}, {b}, 3, 3) && !pair_is({a}, {b}, 4, 5) && !pair_is({a}, {b}, 5, 4) && !pair_is({a}, {b}, 5, 5) ==> {r} is Err', ('C03', 'C01')),
]
SUB_OTHER = [
    ('timestamp_minus_duration', 'pair_is({a}, {b}, 4, 5) ==> (if ts_sub_ok({a}->TimeStamp_0, {b}->Duration_0) {{ {r} == CelValue::TimeStamp(ts_sub({a}->TimeStamp_0, {b}->Duration_0)) }} else {{ {r} is Err }})', ('C16', 'C01')),
    ('timestamp_minus_timestamp', 'pair_is({a}, {b}, 4, 4) ==> {r} == CelValue::Duration(ts_diff({a}->TimeStamp_0, {b}->TimeStamp_0))', ('C16', 'C01')),
    ('duration_minus_duration', 'pair_is({a}, {b}, 5, 5) ==> (if dur_sub_ok({a}->Duration_0, {b}->Duration_0) {{ {r} == CelValue::Duration(dur_sub({a}->Duration_0, {b}->Duration_0)) }} else {{ {r} is Err }})', ('C16', 'C01')),
    # `duration - timestamp` is accepted by the code (it computes timestamp - duration); the statement allows timestamp/duration
    # arithmetic without fixing this direction, so only totality and the result kind are required
    ('duration_minus_timestamp_total', 'pair_is({a}, {b}, 5, 4) ==> ({r} is Err || {r} is TimeStamp)', ('C16', 'C01')),
    ('every_other_pair_is_an_error', 'arith_kind({a}, {b}) is Other && !pair_is({a}, {b}, 4, 5) && !pair_is({a}, {b}, 4, 4) && !pair_is({a}, {b}, 5, 5) && !pair_is({a}, {b}, 5, 4) ==> {r} is Err', ('C03', 'C01')),
]
ONLY_NUMBERS = [('every_other_pair_is_an_error', 'arith_kind({a}, {b}) is Other ==> {r} is Err', ('C03', 'C01'))]


def binop(op, name, other):
    """contract for impl <Op> for CelValue :: <name>; `other` = clauses for non-numeric operand pairs"""
    N = ('C03', 'C01')

    def clauses(a, b, r, guard=''):
        cl = [
            ('int_result_exact_or_error', f'arith_kind({a}, {b}) is I ==> arith_int_ok(Op::{op}, {a}, {b}, {r})', N),
            ('uint_result_exact_or_error', f'arith_kind({a}, {b}) is U ==> arith_uint_ok(Op::{op}, {a}, {b}, {r})', N),
            ('double_result', f'arith_kind({a}, {b}) is F ==> ' + (f'{r} is Err' if op == 'Rem' else f'{r} is Float'), N),
        ] + ([] if op == 'Rem' else [('double_result_is_the_ieee_operation_on_the_widened_operands',
                                      f'arith_kind({a}, {b}) is F && !({a} is Bool) && !({b} is Bool) ==> {r} == CelValue::Float(ieee(Op::{op}, as_f64({a}), as_f64({b})))', N)]) + [
        ] + [(n, t.format(a=a, b=b, r=r), pp) for (n, t, pp) in other]
        if guard:
            cl = [(n, f'{guard} ==> ({t})', pp) for (n, t, pp) in cl]
        return cl
    arm_rw = {}
    if name in FLOAT_RW:
        arm_rw = {'CelValue::Float(val1)': [(o, n, R2F, 'alt') for (o, n) in FLOAT_RW.values()]}
    return A(
        ret='r',
        ensures=[('left_error_wins', 'self is Err ==> r == self', N),
                 ('right_error', '!(self is Err) && rhs_val is Err ==> r == rhs_val', N)]
        + clauses('self', 'rhs_val', 'r', guard='!(self is Err) && !(rhs_val is Err)'),
        closures={0: dict(types=['CelValue', 'CelValue'], ret='res: CelValue',
                          requires=[('operands_not_err', '!(lhs_val is Err) && !(rhs_val is Err)')],
                          ensures=clauses('lhs_val', 'rhs_val', 'res'),
                          body_begin=('proof { if int_val(rhs_val) != 0 { lemma_trunc_bound(int_val(lhs_val), int_val(rhs_val)); lemma_zero_div(int_val(rhs_val)); } }' if name in ('div', 'rem') else None))},
        arm_rewrites=arm_rw,
        props=('C03', 'C01') + (('C16', 'C06') if name == 'add' else ()) + (('C16',) if name == 'sub' else ()),
    )


def build():
    U = Unit('value_arith')
    U.global_rewrites.append(C.DYN_REWRITE)
    U.raw(C.HEADER, 'header')
    U.raw(C.STANDINS, 'S1 stand-ins')
    C.value_types(U)
    U.raw(C.DERIVED, 'assumed derived impls')
    U.raw(TRAIT, 'CelValueDyn trait restated')
    U.raw(C.VALUE_SPECS + C.TRUTHY_SPEC + SPECS, 'spec functions')
    U.raw(OPSPEC, 'operator trait plumbing')
    U.raw(CHRONO, 'assumed chrono / float specs')
    U.raw(C.STD_SPECS + C.STD_INT_SPECS, 'assumed std specs')
    U.raw(C.AXIOMS, 'axioms')

    simple_ctor = lambda body: A(ret='r', ensures=[('def', body)], props=('C01',))
    U.extract(C.CE, 'impl CelError', fns={
        'invalid_op': A(ret='r', ensures=[('kind', 'r is InvalidOp')], props=('C01',)),
        'value': A(ret='r', ensures=[('kind', 'r is Value')], props=('C01',)),
    })
    U.extract(C.CB, 'impl CelBytes', fns={
        'into_vec': A(ret='r', ensures=[('def', 'r@ == self@')], props=('C01',)),
        'extend': A(stub=True, ensures=[('def', 'final(self)@ == old(self)@ + into_iter_seq(bytes)')], note='generic IntoIterator; only used with Vec<u8>'),
    })
    U.raw(r'''
''', 'views')
    U.extract(C.CV, 'impl CelValue', fns={
        'from_int': simple_ctor('r == CelValue::Int(val)'),
        'from_uint': simple_ctor('r == CelValue::UInt(val)'),
        'from_float': simple_ctor('r == CelValue::Float(val)'),
        'from_bool': simple_ctor('r == CelValue::Bool(val)'),
        'from_str': simple_ctor('r is String && r->String_0@ == val@'),
        'from_val_slice': simple_ctor('r is List && r->List_0@ == val@'),
        'from_timestamp': simple_ctor('r == CelValue::TimeStamp(val)'),
        'from_duration': simple_ctor('r == CelValue::Duration(val)'),
        'from_err': simple_ctor('r == CelValue::Err(val)'),
        'is_err': A(ret='r', ensures=[('def', 'r == (self is Err)')], props=('C01', 'C03')),
        'type_prop': C.type_prop_contract(),
        'error_prop_or': C.err_prop_contract(),
    }, others='stub')
    U.extract(C.CV, 'impl From<i64> for CelValue', fns={'from': simple_ctor('r == CelValue::Int(val)')})
    U.extract(C.CV, 'impl From<u64> for CelValue', fns={'from': simple_ctor('r == CelValue::UInt(val)')})
    U.extract(C.CV, 'impl From<f64> for CelValue', fns={'from': simple_ctor('r == CelValue::Float(val)')})
    U.extract(C.CV, 'impl From<bool> for CelValue', fns={'from': simple_ctor('r == CelValue::Bool(val)')})
    U.raw(r'''
impl vstd::std_specs::convert::FromSpecImpl<i64> for CelValue { open spec fn obeys_from_spec() -> bool { true } open spec fn from_spec(v: i64) -> Self { CelValue::Int(v) } }
impl vstd::std_specs::convert::FromSpecImpl<u64> for CelValue { open spec fn obeys_from_spec() -> bool { true } open spec fn from_spec(v: u64) -> Self { CelValue::UInt(v) } }
impl vstd::std_specs::convert::FromSpecImpl<f64> for CelValue { open spec fn obeys_from_spec() -> bool { true } open spec fn from_spec(v: f64) -> Self { CelValue::Float(v) } }
impl vstd::std_specs::convert::FromSpecImpl<bool> for CelValue { open spec fn obeys_from_spec() -> bool { true } open spec fn from_spec(v: bool) -> Self { CelValue::Bool(v) } }
''', 'From spec impls (the ensures of the extracted From impls are checked against these)')
    U.extract(C.CV, 'impl CelValueDyn for CelValue', fns={
    }, others='stub', skip=('any_ref',))
    U.extract(C.CV, 'impl Add for CelValue', fns={'add': binop('Add', 'add', ADD_OTHER)})
    U.extract(C.CV, 'impl Sub for CelValue', fns={'sub': binop('Sub', 'sub', SUB_OTHER)})
    U.extract(C.CV, 'impl Mul for CelValue', fns={'mul': binop('Mul', 'mul', ONLY_NUMBERS)})
    U.extract(C.CV, 'impl Div for CelValue', fns={'div': binop('Div', 'div', ONLY_NUMBERS)})
    U.extract(C.CV, 'impl Rem for CelValue', fns={'rem': binop('Rem', 'rem', ONLY_NUMBERS)})
    U.extract(C.CV, 'impl Neg for CelValue', fns={'neg': A(
        ret='r',
        ensures=[
            ('error_kept', 'self is Err ==> r == self'),
            ('int_exact_or_error', 'self is Int ==> (if i64_ok(-(self->Int_0 as int)) { r == CelValue::Int((-(self->Int_0 as int)) as i64) } else { r is Err })'),
            ('double', 'self is Float ==> r is Float'),
            ('negating_unsigned_is_error', 'self is UInt ==> r is Err'),
            ('other_is_error', '!(self is Int) && !(self is Float) && !(self is Err) ==> r is Err'),
        ],
        arm_rewrites={'CelValue::Float(val1)': [('- val1', 'f64_neg(val1)', R2F)]},
        props=('C03', 'C01'))})
    U.raw(C.FOOTER, 'footer')
    return U
