"""unit tokenizer: compiler/string_tokenizer.rs -- what each literal spells (C13): the escape tables of string and byte-string literals
(one named obligation per escape), \\x \\u \\U and octal escapes, raw strings, the number classifier's wiring (which text is parsed with
which radix into which token kind); identifiers / keywords; C18: syntax errors carry the scanner position; C01."""
from vgen.gen import Unit, A
from . import common as C
from . import scanner as SC

HAS_LOOP_CONTRACTS = True
ST = 'rscel/src/compiler/string_tokenizer.rs'

PRELUDE = r'''
#[verifier::external_body] pub struct SyntaxError { _p: u8 }
impl SyntaxError {
    pub uninterp spec fn e_loc(&self) -> SourceLocation;
    #[verifier::external_body] pub fn from_location(loc: SourceLocation) -> (r: SyntaxError) ensures r.e_loc() == loc { unimplemented!() }
    #[verifier::external_body] pub fn with_message(self, msg: String) -> (r: SyntaxError) ensures r.e_loc() == self.e_loc() { unimplemented!() }
}
#[verifier::external_body] pub struct Chars<'l> { _p: &'l u8 }
// the scanner is known here by the contracts proved in unit `scanner`
impl<'l> StringScanner<'l> {
    pub uninterp spec fn remaining(&self) -> Seq<char>;
    pub uninterp spec fn loc(&self) -> (nat, nat);
    pub uninterp spec fn wf(&self) -> bool;
}
pub open spec fn advance(l: (nat, nat), c: char) -> (nat, nat) { if c == '\n' { (l.0 + 1, 0) } else { (l.0, l.1 + 1) } }
pub uninterp spec fn sl_line(s: SourceLocation) -> nat;
pub uninterp spec fn sl_col(s: SourceLocation) -> nat;
impl View for CelBytes { type V = Seq<u8>; closed spec fn view(&self) -> Seq<u8> { self.inner@ } }

// ---- what the characters of a literal spell (from the statement of C13) --------------------------------------------------------
pub open spec fn is_hex(c: char) -> bool { ('0' <= c && c <= '9') || ('a' <= c && c <= 'f') || ('A' <= c && c <= 'F') }
pub open spec fn hex_digit(c: char) -> nat {
    if '0' <= c && c <= '9' { (c as u32 - '0' as u32) as nat } else if 'a' <= c && c <= 'f' { (c as u32 - 'a' as u32 + 10) as nat } else { (c as u32 - 'A' as u32 + 10) as nat }
}
/// the number a sequence of hex digits spells (most significant first)
pub open spec fn hex_val(s: Seq<char>) -> nat decreases s.len() { if s.len() == 0 { 0 } else { hex_val(s.drop_last()) * 16 + hex_digit(s.last()) } }
pub open spec fn is_oct(c: char) -> bool { '0' <= c && c <= '7' }
pub open spec fn oct_val(s: Seq<char>) -> nat decreases s.len() { if s.len() == 0 { 0 } else { oct_val(s.drop_last()) * 8 + (s.last() as u32 - '0' as u32) as nat } }
pub open spec fn all_hex(s: Seq<char>) -> bool { forall|i: int| 0 <= i < s.len() ==> is_hex(#[trigger] s[i]) }
pub open spec fn all_oct(s: Seq<char>) -> bool { forall|i: int| 0 <= i < s.len() ==> is_oct(#[trigger] s[i]) }
/// a Unicode scalar value
pub open spec fn is_scalar(v: nat) -> bool { v <= 0x10FFFF && !(0xD800 <= v && v <= 0xDFFF) }
/// the UTF-8 encoding of a character (std)
pub uninterp spec fn utf8_of(c: char) -> Seq<u8>;

#[verifier::external_body] pub struct PErr { _p: u8 }   // std::num::ParseIntError / ParseFloatError
impl std::fmt::Debug for PErr { #[verifier::external_body] fn fmt(&self, f: &mut std::fmt::Formatter<'_>) -> std::fmt::Result { unimplemented!() } }
// ---- ASSUMED std behaviour ---------------------------------------------------------------------------------------------------
pub assume_specification [<char>::is_digit] (c: char, radix: u32) -> (r: bool) ensures radix == 16 ==> r == is_hex(c);
pub assume_specification [<char>::from_u32] (v: u32) -> (r: Option<char>) ensures r == (if is_scalar(v as nat) { Some(v as char) } else { None::<char> });
/// u32::from_str_radix / u8::from_str_radix: a non-empty digit string that fits is its value, anything else is an error
#[verifier::external_body] pub fn s_u32_from_str_radix(s: &str, radix: u32) -> (r: Result<u32, PErr>)
    ensures
        radix == 16 && 1 <= s@.len() <= 8 && all_hex(s@) ==> r is Ok && r->Ok_0 == hex_val(s@),
        radix == 8 ==> (r is Ok <==> (1 <= s@.len() && all_oct(s@) && oct_val(s@) <= u32::MAX)) && (r is Ok ==> r->Ok_0 == oct_val(s@)),
{ unimplemented!() }
#[verifier::external_body] pub fn s_u8_from_str_radix(s: &str, radix: u32) -> (r: Result<u8, PErr>)
    ensures radix == 8 ==> (r is Ok <==> (1 <= s@.len() && all_oct(s@) && oct_val(s@) <= u8::MAX)) && (r is Ok ==> r->Ok_0 == oct_val(s@)),
{ unimplemented!() }
/// `[escaped].into_iter().collect::<String>()`
#[verifier::external_body] pub fn s_string_of_char(c: char) -> (r: String) ensures r@ == seq![c] { [c].into_iter().collect() }
/// `c.encode_utf8(&mut buf); working.extend_from_slice(&buf[..c.len_utf8()])`
#[verifier::external_body] pub fn s_push_utf8(working: &mut Vec<u8>, c: char) ensures final(working)@ == old(working)@ + utf8_of(c) { let mut buf = [0u8; 4]; c.encode_utf8(&mut buf); working.extend_from_slice(&buf[..c.len_utf8()]); }
impl vstd::std_specs::convert::FromSpecImpl<Vec<u8>> for CelBytes { open spec fn obeys_from_spec() -> bool { false } open spec fn from_spec(v: Vec<u8>) -> Self { arbitrary() } }


// ---- numbers -------------------------------------------------------------------------------------------------------------------
/// what std's u64::from_str_radix / str::parse::<f64> return for a text (std: ASSUMED to be the value the digits spell, correctly rounded)
pub uninterp spec fn parse_u64(s: Seq<char>, radix: int) -> Option<u64>;
pub uninterp spec fn parse_f64(s: Seq<char>) -> Option<f64>;
#[verifier::external_body] pub fn s_u64_from_str_radix(s: &str, radix: u32) -> (r: Result<u64, PErr>)
    ensures (r is Ok <==> parse_u64(s@, radix as int) is Some), r is Ok ==> Some(r->Ok_0) == parse_u64(s@, radix as int) { unimplemented!() }
#[verifier::external_body] pub fn s_parse_f64(s: &String) -> (r: Result<f64, PErr>)
    ensures (r is Ok <==> parse_f64(s@) is Some), r is Ok ==> Some(r->Ok_0) == parse_f64(s@) { unimplemented!() }
pub open spec fn has_0x(s: Seq<char>) -> bool { s.len() >= 2 && s[0] == '0' && s[1] == 'x' }
/// `working.trim_start_matches("0x")`: strips EVERY leading "0x"; one prefix when what follows is not another one
#[verifier::external_body] pub fn s_trim_start_0x(s: &String) -> (r: &str)
    ensures has_0x(s@) && !has_0x(s@.skip(2)) ==> r@ == s@.skip(2) { unimplemented!() }
#[verifier::external_body] pub fn s_str_contains_dot(s: &str) -> (r: bool) { unimplemented!() }
#[verifier::external_body] pub fn string_is(a: &String, b: &str) -> (r: bool) ensures r == (a@ == b@) { unimplemented!() }
#[verifier::external_body] pub fn s_as_str(a: &String) -> (r: &str) ensures r@ == a@ { unimplemented!() }
pub assume_specification [<char>::is_ascii_hexdigit] (c: &char) -> (r: bool) ensures r == is_hex(*c);
/// the marker of a hexadecimal literal is stored as a lower-case x whichever case was written
pub open spec fn norm_x(c: char) -> char { if c == 'X' { 'x' } else { c } }
/// the text collected for a number = its first character followed by the k characters consumed after it
pub open spec fn collected(w: Seq<char>, first: Seq<char>, rem0: Seq<char>, k: int) -> bool {
    &&& 0 <= k <= rem0.len() && w.len() == first.len() + k && (forall|i: int| 0 <= i < first.len() ==> #[trigger] w[i] == first[i])
    &&& forall|i: int| 0 <= i < k ==> #[trigger] w[first.len() + i] == norm_x(rem0[i])
}
/// which std parser is applied to which part of the collected text: radix 16 exactly when the text carries the 0x marker (stripped)
pub open spec fn number_value_ok(t: Token, w: Seq<char>) -> bool {
    match t {
        Token::UIntLit(v) => Some(v) == (if has_0x(w) { parse_u64(w.skip(2), 16) } else { parse_u64(w, 10) }),
        Token::IntLit(v) => Some(v) == (if has_0x(w) { parse_u64(w.skip(2), 16) } else { parse_u64(w, 10) }),
        Token::FloatLit(f) => Some(f) == parse_f64(w),
        _ => false,
    }
}

// ---- tokens: whitespace, spans, the operator table -------------------------------------------------------------------------------
pub open spec fn is_ws(c: char) -> bool { c == ' ' || c == '\t' || c == '\n' }
/// the number of leading whitespace characters
pub open spec fn ws_run(s: Seq<char>) -> nat decreases s.len() { if s.len() > 0 && is_ws(s[0]) { 1 + ws_run(s.skip(1)) } else { 0 } }
/// line / column after a sequence of characters
pub open spec fn adv_n(l: (nat, nat), s: Seq<char>) -> (nat, nat) decreases s.len() { if s.len() == 0 { l } else { advance(adv_n(l, s.drop_last()), s.last()) } }
pub proof fn lemma_ws_run(s: Seq<char>, k: nat)
    requires k <= s.len(), forall|i: int| 0 <= i < k ==> is_ws(#[trigger] s[i]), k == s.len() || !is_ws(s[k as int])
    ensures ws_run(s) == k
    decreases k
{
    if k > 0 {
        assert forall|i: int| 0 <= i < k - 1 implies is_ws(#[trigger] s.skip(1)[i]) by { assert(s.skip(1)[i] == s[i + 1]); }
        lemma_ws_run(s.skip(1), (k - 1) as nat);
    }
}
pub proof fn lemma_adv_take(l: (nat, nat), s: Seq<char>, k: int)
    requires 0 <= k < s.len() ensures adv_n(l, s.take(k + 1)) == advance(adv_n(l, s.take(k)), s[k])
{ assert(s.take(k + 1).drop_last() =~= s.take(k)); }
/// the punctuation and operator tokens: first character, look-ahead -> (token, characters consumed)
pub open spec fn op_token(c0: char, c1: Option<char>) -> Option<(Token, nat)> {
    if c0 == '?' { Some((Token::Question, 1nat)) } else if c0 == ':' { Some((Token::Colon, 1nat)) } else if c0 == '+' { Some((Token::Add, 1nat)) }
    else if c0 == '-' { Some((Token::Minus, 1nat)) } else if c0 == '*' { Some((Token::Multiply, 1nat)) } else if c0 == '/' { Some((Token::Divide, 1nat)) }
    else if c0 == '%' { Some((Token::Mod, 1nat)) } else if c0 == ',' { Some((Token::Comma, 1nat)) }
    else if c0 == '[' { Some((Token::LBracket, 1nat)) } else if c0 == ']' { Some((Token::RBracket, 1nat)) }
    else if c0 == '{' { Some((Token::LBrace, 1nat)) } else if c0 == '}' { Some((Token::RBrace, 1nat)) }
    else if c0 == '(' { Some((Token::LParen, 1nat)) } else if c0 == ')' { Some((Token::RParen, 1nat)) }
    else if c0 == '!' { if c1 == Some('=') { Some((Token::NotEqual, 2nat)) } else { Some((Token::Not, 1nat)) } }
    else if c0 == '<' { if c1 == Some('=') { Some((Token::LessEqual, 2nat)) } else { Some((Token::LessThan, 1nat)) } }
    else if c0 == '>' { if c1 == Some('=') { Some((Token::GreaterEqual, 2nat)) } else { Some((Token::GreaterThan, 1nat)) } }
    else if c0 == '=' { if c1 == Some('=') { Some((Token::EqualEqual, 2nat)) } else { None } }
    else if c0 == '|' { if c1 == Some('|') { Some((Token::OrOr, 2nat)) } else { None } }
    else if c0 == '&' { if c1 == Some('&') { Some((Token::AndAnd, 2nat)) } else { None } }
    else if c0 == '.' { if c1 is Some && '0' <= c1->Some_0 && c1->Some_0 <= '9' { None } else { Some((Token::Dot, 1nat)) } }
    else { None }
}
pub closed spec fn r_end(r: SourceRange) -> SourceLocation { r.end }
pub closed spec fn r_start(r: SourceRange) -> SourceLocation { r.start }
pub closed spec fn mk_range(a: SourceLocation, b: SourceLocation) -> SourceRange { SourceRange { start: a, end: b } }
pub open spec fn sl(s: SourceLocation) -> (nat, nat) { (sl_line(s), sl_col(s)) }
impl Clone for SourceLocation { #[verifier::external_body] fn clone(&self) -> (r: Self) ensures r == *self { unimplemented!() } }
impl Copy for SourceLocation {}
/// `res.map(|o| o.map(|t| TokenWithLoc::new(t, SourceRange::new(token_start, end))))`
#[verifier::external_body] pub fn s_with_span(res: Result<Option<Token>, SyntaxError>, start: SourceLocation, end: SourceLocation) -> (r: Result<Option<TokenWithLoc>, SyntaxError>)
    ensures (match res {
        Ok(Some(t)) => r == Ok::<Option<TokenWithLoc>, SyntaxError>(Some(TokenWithLoc { token: t, loc: mk_range(start, end) })),
        Ok(None) => r == Ok::<Option<TokenWithLoc>, SyntaxError>(None),
        Err(e) => r == Err::<Option<TokenWithLoc>, SyntaxError>(e),
    }) { unimplemented!() }
#[verifier::external_body] pub fn s_encode_utf8<'a>(c: char, buf: &'a mut [u8; 4]) -> (r: &'a str) ensures r@ == seq![c] { unimplemented!() }
#[verifier::external_body] pub fn s_char_to_string(c: char) -> (r: String) ensures r@ == seq![c] { unimplemented!() }

// ---- identifiers and keywords ----------------------------------------------------------------------------------------------------
pub open spec fn is_ident_char(c: char) -> bool { ('a' <= c && c <= 'z') || ('A' <= c && c <= 'Z') || ('0' <= c && c <= '9') || c == '_' }
pub open spec fn ident_run(s: Seq<char>) -> nat decreases s.len() { if s.len() > 0 && is_ident_char(s[0]) { 1 + ident_run(s.skip(1)) } else { 0 } }
pub proof fn lemma_ident_run(s: Seq<char>, k: nat)
    requires k <= s.len(), forall|i: int| 0 <= i < k ==> is_ident_char(#[trigger] s[i]), k == s.len() || !is_ident_char(s[k as int])
    ensures ident_run(s) == k
    decreases k
{
    if k > 0 {
        assert forall|i: int| 0 <= i < k - 1 implies is_ident_char(#[trigger] s.skip(1)[i]) by { assert(s.skip(1)[i] == s[i + 1]); }
        lemma_ident_run(s.skip(1), (k - 1) as nat);
    }
}
/// the first entry of a keyword table whose spelling is the word
pub open spec fn kw_lookup(options: Seq<(&str, Token)>, word: Seq<char>) -> Option<Token> decreases options.len() {
    if options.len() == 0 { None } else if options[0].0@ == word { Some(options[0].1) } else { kw_lookup(options.skip(1), word) }
}
#[verifier::external_body] pub fn s_find_keyword<'a>(options: &'a [(&str, Token)], word: &String) -> (r: Option<&'a (&'a str, Token)>)
    ensures (match kw_lookup(options@, word@) { Some(t) => r is Some && r->Some_0.1 == t, None => r is None }) { unimplemented!() }
impl Clone for Token { #[verifier::external_body] fn clone(&self) -> (r: Self) ensures r == *self { unimplemented!() } }

/// the reserved words (the statement of C02 / C13: booleans and null are literals; in, match, case are operators / keywords)
pub open spec fn keyword_of(word: Seq<char>) -> Option<Token> {
    if word == "true"@ { Some(Token::BoolLit(true)) } else if word == "false"@ { Some(Token::BoolLit(false)) } else if word == "null"@ { Some(Token::Null) }
    else if word == "in"@ { Some(Token::In) } else if word == "match"@ { Some(Token::Match) } else if word == "case"@ { Some(Token::Case) } else { None }
}
pub open spec fn is_ident_start(c: char) -> bool { c == '_' || ('A' <= c && c <= 'Z') || ('a' <= c && c <= 'z') }
/// a raw, plain (not f-) literal is the text up to the first occurrence of its delimiter, character for character
pub open spec fn raw_literal(rem: Seq<char>, delim: char, n: int, text: Seq<char>, rest: Seq<char>) -> bool {
    0 <= n < rem.len() && rem[n] == delim && (forall|i: int| 0 <= i < n ==> rem[i] != delim) && text =~= rem.take(n) && rest == rem.skip(n + 1)
}
pub open spec fn is_raw_literal(rem: Seq<char>, delim: char, text: Seq<char>, rest: Seq<char>) -> bool { exists|n: int| raw_literal(rem, delim, n, text, rest) }
pub open spec fn is_quote(c: Option<char>) -> bool { c == Some('\'') || c == Some('"') }

pub proof fn lemma_hex_val_push(s: Seq<char>, c: char) ensures hex_val(s.push(c)) == hex_val(s) * 16 + hex_digit(c) { assert(s.push(c).drop_last() =~= s); }
pub open spec fn p16(n: nat) -> nat decreases n { if n == 0 { 1 } else { 16 * p16((n - 1) as nat) } }
pub proof fn lemma_hex_val_bound(s: Seq<char>) requires all_hex(s) ensures hex_val(s) < p16(s.len()) decreases s.len()
{
    if s.len() > 0 {
        assert(all_hex(s.drop_last())) by { assert forall|i: int| 0 <= i < s.drop_last().len() implies is_hex(#[trigger] s.drop_last()[i]) by { assert(s.drop_last()[i] == s[i]); } }
        lemma_hex_val_bound(s.drop_last());
        assert(is_hex(s.last()));
        assert(hex_digit(s.last()) < 16);
    }
}
pub proof fn lemma_p16_le_8(n: nat) requires n <= 8 ensures p16(n) <= 0x1_0000_0000 { reveal_with_fuel(p16, 10); }
'''

SCANNER_STUBS = dict(
    peek=A(stub=True, ret='r', requires=[('wf', 'old(self).wf()')],
           ensures=[('looks_without_consuming', 'final(self).wf() && final(self).remaining() == old(self).remaining() && final(self).loc() == old(self).loc()'),
                    ('the_next_character', 'r == (if old(self).remaining().len() > 0 { Some(old(self).remaining()[0]) } else { None::<char> })')]),
    next=A(stub=True, ret='r', requires=[('wf', 'old(self).wf()')],
           ensures=[('consumes_exactly_one_character', '''final(self).wf() && (if old(self).remaining().len() > 0 {
                                r == Some(old(self).remaining()[0]) && final(self).remaining() == old(self).remaining().skip(1)
                            } else { r is None && final(self).remaining() == old(self).remaining() })'''),
                    ('line_and_column_count_characters_and_reset_on_newline',
                     'final(self).loc() == (if old(self).remaining().len() > 0 { advance(old(self).loc(), old(self).remaining()[0]) } else { old(self).loc() })')]),
    location=A(stub=True, ret='r', ensures=[('reports_the_tracked_line_and_column', '(sl_line(r), sl_col(r)) == self.loc()')]),
)

WF = ('scanner_well_formed', 'old(self).scanner.wf()')
SHORT = ('ASSUMED_input_shorter_than_2_GiB', 'old(self).scanner.remaining().len() < 0x7fff_0000')
WF_OUT = ('scanner_stays_well_formed', 'final(self).scanner.wf()')
ERR_LOC = ('a_syntax_error_reports_the_scanner_position', 'r is Err ==> (sl_line(r->Err_0.e_loc()), sl_col(r->Err_0.e_loc())) == final(self).scanner.loc()', ('C18',))

# escape character -> the code it denotes (the statement of C13)
ESCAPES = [('a', 0x07), ('b', 0x08), ('f', 0x0c), ('n', 0x0a), ('r', 0x0d), ('t', 0x09), ('v', 0x0b)]
SELF_ESCAPES = [('\\\\', 'backslash'), ("\\'", 'single_quote'), ('"', 'double_quote')]


def string_literal():
    arm_end = {}
    arm_begin = {}
    for ch, code in ESCAPES:
        arm_end[f"'{ch}'"] = (f'escape_{ch}_is_U+{code:04X}', f'working@ == w0.push({code}u8 as char) && self.scanner.remaining() == rem1')
    for pat, name in SELF_ESCAPES:
        lit = "'" + pat + "'"
        arm_end[lit] = (f'escape_{name}_is_itself', f'working@ == w0.push({lit}) && self.scanner.remaining() == rem1')
    for ch, n in (('u', 4), ('U', 8), ('x', 2), ('X', 2)):
        arm_end[f"'{ch}'"] = (f'escape_{ch}_is_the_code_point_of_{n}_hex_digits',
                              f'rem1.len() >= {n} && all_hex(rem1.take({n})) && is_scalar(hex_val(rem1.take({n}))) && working@ == w0.push(hex_val(rem1.take({n})) as char) && self.scanner.remaining() == rem1.skip({n})')
    arm_end["'0'..='9'"] = ('octal_escape_is_the_code_point_of_three_octal_digits',
                            'rem1.len() >= 2 && all_oct(seq![escaped] + rem1.take(2)) && is_scalar(oct_val(seq![escaped] + rem1.take(2))) && working@ == w0.push(oct_val(seq![escaped] + rem1.take(2)) as char) && self.scanner.remaining() == rem1.skip(2)')
    return A(
        ret='r', attrs=['#[verifier::exec_allows_no_decreases_clause]'], requires=[WF, SHORT],
        ensures=[WF_OUT, ERR_LOC,
                 ('without_the_f_prefix_the_token_is_a_string', '!is_format && r is Ok ==> r->Ok_0 is Some && r->Ok_0->Some_0 is StringLit', ('C13',)),
                 ('a_raw_literal_is_the_text_between_its_delimiters', '''is_raw && !is_format && r is Ok ==> r->Ok_0 is Some && r->Ok_0->Some_0 is StringLit
                    && is_raw_literal(old(self).scanner.remaining(), starting, r->Ok_0->Some_0->StringLit_0@, final(self).scanner.remaining())''', ('C13',))],
        body_begin='let ghost rem0 = self.scanner.remaining(); let ghost mut cnt: int = 0;',
        loops={0: dict(invariant=[('scanner_well_formed', 'self.scanner.wf() && self.scanner.remaining().len() <= rem0.len() && rem0.len() < 0x7fff_0000'),
                                  ('no_segments_without_the_f_prefix', '!is_format ==> segments@.len() == 0', ('C13',)),
                                  ],
                       invariant_except_break=[('raw_text_so_far', '''(is_raw && !is_format) ==> (0 <= cnt <= rem0.len() && working@ =~= rem0.take(cnt) && self.scanner.remaining() == rem0.skip(cnt)
                                        && forall|i: int| 0 <= i < cnt ==> rem0[i] != starting)''', ('C13',))],
                       ensures=[('scanner_well_formed', 'self.scanner.wf()'),
                                ('no_segments_without_the_f_prefix', '!is_format ==> segments@.len() == 0', ('C13',)),
                                ('raw_text_up_to_the_delimiter', '(is_raw && !is_format) ==> raw_literal(rem0, starting, cnt, working@, self.scanner.remaining())', ('C13',))],
                       pre='let ghost w0 = working@; let ghost mut rem1 = self.scanner.remaining(); let ghost rem_in = self.scanner.remaining();',
                       post='''proof {
    assert(curr != starting && !(curr == \'\\\\\' && !is_raw) && !(is_format && (curr == \'{\' || curr == \'}\')) ==> working@ == w0.push(curr) && self.scanner.remaining() == rem_in.skip(1));
    if is_raw && !is_format {
        assert(rem_in == rem0.skip(cnt) && rem_in.len() > 0 && curr == rem0[cnt]);
        assert(rem0.take(cnt + 1) =~= rem0.take(cnt).push(rem0[cnt]));
        assert(rem0.skip(cnt).skip(1) =~= rem0.skip(cnt + 1));
        cnt = cnt + 1;
    }
}'''),
               1: dict(ghost='it', invariant=[('scanner_well_formed', 'self.scanner.wf()'),
                                  ('octal_digits_so_far', 'rem1.len() >= it.index@ && oct@ =~= seq![escaped] + rem1.take(it.index@ as int) && self.scanner.remaining() == rem1.skip(it.index@ as int) && working@ == w0')],
                       post='proof { assert(rem1.take(it.index@ as int + 1) =~= rem1.take(it.index@ as int).push(rem1[it.index@ as int])); }'),
               2: dict(invariant=[('scanner_well_formed', 'self.scanner.wf()'),
                                  ('ASSUMED_input_shorter_than_2_GiB_so_the_brace_depth_fits', 'bracket_count <= 1 + (rem0.len() - self.scanner.remaining().len()) && rem0.len() < 0x7fff_0000 && self.scanner.remaining().len() <= rem0.len()')])},
        after={('stmt', 'let escaped =', 0): 'proof { rem1 = self.scanner.remaining(); }'},
        arm_end=arm_end,
        arm_begin=arm_begin,
        before={'if segments.is_empty() {': '''proof {
    if is_raw && !is_format { assert(raw_literal(rem0, starting, cnt, working@, self.scanner.remaining())); assert(segments@.len() == 0);
        assert(is_raw_literal(rem0, starting, working@, self.scanner.remaining())); assert(rem0 == old(self).scanner.remaining()); }
}''',
                "break 'outer;": '''proof {
    if is_raw && !is_format {
        assert(rem_in == rem0.skip(cnt) && rem_in.len() > 0 && curr == rem0[cnt]);
        assert(rem0.skip(cnt).skip(1) =~= rem0.skip(cnt + 1));
    }
}''',
                'working.push(match char::from_u32(val)': '''proof {
    assert(oct@ =~= seq![escaped] + rem1.take(2));
}'''},
        rewrites=[('[escaped].into_iter().collect()', 's_string_of_char(escaped)', 'R2m: a one-character String built through an iterator'),
                  ('u32::from_str_radix(&oct, 8)', 's_u32_from_str_radix(&oct, 8)', 'R2m: std from_str_radix -> trampoline with the assumed std behaviour')],
        props=('C13', 'C18', 'C01'))


def bytes_literal():
    arm_end = {}
    for ch, code in ESCAPES:
        arm_end[f"'{ch}'"] = (f'escape_{ch}_is_byte_0x{code:02X}', f'working@ == w0.push({code}u8) && self.scanner.remaining() == rem1')
    for pat, name in SELF_ESCAPES:
        lit = "'" + pat + "'"
        arm_end[lit] = (f'escape_{name}_is_its_ascii_byte', f'working@ == w0.push({lit} as u8) && self.scanner.remaining() == rem1')
    for ch in ('x', 'X'):
        arm_end[f"'{ch}'"] = (f'escape_{ch}_is_the_byte_of_2_hex_digits',
                              'rem1.len() >= 2 && all_hex(rem1.take(2)) && working@ == w0.push(hex_val(rem1.take(2)) as u8) && self.scanner.remaining() == rem1.skip(2)')
    arm_end["'0'..='9'"] = ('octal_escape_is_the_byte_of_three_octal_digits',
                            'rem1.len() >= 2 && all_oct(seq![escaped] + rem1.take(2)) && oct_val(seq![escaped] + rem1.take(2)) <= 255 && working@ == w0.push(oct_val(seq![escaped] + rem1.take(2)) as u8) && self.scanner.remaining() == rem1.skip(2)')
    arm_end['other'] = ('any_other_escaped_character_is_its_utf8_encoding', 'working@ == w0 + utf8_of(escaped) && self.scanner.remaining() == rem1')
    return A(
        ret='r', attrs=['#[verifier::exec_allows_no_decreases_clause]'], requires=[WF],
        ensures=[WF_OUT, ERR_LOC, ('the_token_is_a_byte_string', 'r is Ok ==> r->Ok_0 is Some && r->Ok_0->Some_0 is ByteStringLit', ('C13',))],
        loops={0: dict(invariant=[('scanner_well_formed', 'self.scanner.wf()')],
                       ensures=[('scanner_well_formed', 'self.scanner.wf()')],
                       pre='let ghost w0 = working@; let ghost mut rem1 = self.scanner.remaining(); let ghost rem_in = self.scanner.remaining();',
                       post='proof { assert(curr != starting && curr != \'\\\\\' ==> working@ == w0 + utf8_of(curr) && self.scanner.remaining() == rem_in.skip(1)); }'),
               1: dict(ghost='it', invariant=[('scanner_well_formed', 'self.scanner.wf()'),
                                  ('octal_digits_so_far', 'rem1.len() >= it.index@ && oct@ =~= seq![escaped] + rem1.take(it.index@ as int) && self.scanner.remaining() == rem1.skip(it.index@ as int) && working@ == w0')],
                       post='proof { assert(rem1.take(it.index@ as int + 1) =~= rem1.take(it.index@ as int).push(rem1[it.index@ as int])); }')},
        after={('stmt', 'let escaped =', 0): 'proof { rem1 = self.scanner.remaining(); }'},
        arm_end=arm_end,
        before={'working.push(val)': 'proof { assert(oct@ =~= seq![escaped] + rem1.take(2)); }'},
        rewrites=[('[escaped].into_iter().collect()', 's_string_of_char(escaped)', 'R2m: a one-character String built through an iterator'),
                  ('u8::from_str_radix(&oct, 8)', 's_u8_from_str_radix(&oct, 8)', 'R2m: std from_str_radix -> trampoline with the assumed std behaviour'),
                  ('other.encode_utf8(&mut buf); working.extend_from_slice(&buf[..other.len_utf8()]);', 's_push_utf8(&mut working, other);', 'R2m: encode_utf8 + extend_from_slice -> trampoline (assumed: appends the UTF-8 encoding)'),
                  ('curr.encode_utf8(&mut buf); working.extend_from_slice(&buf[..curr.len_utf8()]);', 's_push_utf8(&mut working, curr);', 'R2m: encode_utf8 + extend_from_slice -> trampoline (assumed: appends the UTF-8 encoding)')],
        props=('C13', 'C18', 'C01'))


def collect_contract():
    K = 'k'
    return A(
        ret='r', attrs=['#[verifier::exec_allows_no_decreases_clause]'], requires=[WF, SHORT],
        ensures=[WF_OUT, ERR_LOC,
                 ('a_token_spans_from_after_the_whitespace_to_the_scanner_position', """r is Ok && r->Ok_0 is Some ==> ({
                    let t = r->Ok_0->Some_0;
                    let rem0 = old(self).scanner.remaining();
                    let ws = ws_run(rem0);
                    &&& ws < rem0.len()
                    &&& sl(r_start(t.loc)) == adv_n(old(self).scanner.loc(), rem0.take(ws as int))
                    &&& sl(r_end(t.loc)) == final(self).scanner.loc()
                 })""", ('C18',)),
                 ('operators_and_punctuation', """r is Ok && r->Ok_0 is Some ==> ({
                    let t = r->Ok_0->Some_0;
                    let rem0 = old(self).scanner.remaining();
                    let ws = ws_run(rem0) as int;
                    let c1 = if ws + 1 < rem0.len() { Some(rem0[ws + 1]) } else { None::<char> };
                    let op = op_token(rem0[ws], c1);
                    op is Some ==> t.token == op->Some_0.0 && final(self).scanner.remaining() == rem0.skip(ws + op->Some_0.1)
                        && final(self).scanner.loc() == adv_n(old(self).scanner.loc(), rem0.take(ws + op->Some_0.1))
                 })""", ('C18', 'C02', 'C13')),
                 ('a_literal_prefix_selects_its_scanner', """r is Ok && r->Ok_0 is Some ==> ({
                    let t = r->Ok_0->Some_0;
                    let rem0 = old(self).scanner.remaining();
                    let ws = ws_run(rem0) as int;
                    let c0 = rem0[ws];
                    let c1 = if ws + 1 < rem0.len() { Some(rem0[ws + 1]) } else { None::<char> };
                    &&& (c0 == 'r' && is_quote(c1) ==> t.token is StringLit && is_raw_literal(rem0.skip(ws + 2), c1->Some_0, t.token->StringLit_0@, final(self).scanner.remaining()))
                    &&& (c0 == 'b' && is_quote(c1) ==> t.token is ByteStringLit)
                    &&& ((c0 == '\\'' || c0 == '"') ==> t.token is StringLit)
                 })""", ('C13',)),
                 ('a_word_is_a_keyword_or_one_identifier', """r is Ok && r->Ok_0 is Some ==> ({
                    let t = r->Ok_0->Some_0;
                    let rem0 = old(self).scanner.remaining();
                    let ws = ws_run(rem0) as int;
                    let c0 = rem0[ws];
                    let c1 = if ws + 1 < rem0.len() { Some(rem0[ws + 1]) } else { None::<char> };
                    let rest = rem0.skip(ws + 1);
                    let word = seq![c0] + rest.take(ident_run(rest) as int);
                    is_ident_start(c0) && !((c0 == 'b' || c0 == 'f' || c0 == 'r') && is_quote(c1)) ==>
                        final(self).scanner.remaining() == rest.skip(ident_run(rest) as int)
                        && (match keyword_of(word) { Some(kw) => t.token == kw, None => t.token is Ident && t.token->Ident_0@ == word })
                 })""", ('C13', 'C02'))],
        body_begin='let ghost rem0 = self.scanner.remaining(); let ghost loc0 = self.scanner.loc(); let ghost mut k: int = 0;',
        loops={0: dict(invariant=[
            ('scanner_well_formed', 'self.scanner.wf()'),
            ('whitespace_skipped_so_far', """0 <= k <= rem0.len() && (forall|i: int| 0 <= i < k ==> is_ws(#[trigger] rem0[i]))
                && curr_char == (if k < rem0.len() { Some(rem0[k as int]) } else { None::<char> })
                && self.scanner.remaining() == (if k < rem0.len() { rem0.skip(k + 1) } else { rem0.skip(rem0.len() as int) })
                && sl(token_start) == adv_n(loc0, rem0.take(k as int))
                && self.scanner.loc() == (if k < rem0.len() { adv_n(loc0, rem0.take(k + 1)) } else { adv_n(loc0, rem0.take(k as int)) })""", ('C18',))],
            ensures=[('first_character_after_the_whitespace', 'curr_char is None || !is_ws(curr_char->Some_0)', ('C18',))])},
        arm_end={"Some(' ') | Some('\\t') | Some('\\n')": """proof {
    if k + 1 < rem0.len() { assert(rem0.skip(k + 1)[0] == rem0[k + 1]); assert(rem0.skip(k + 1).skip(1) =~= rem0.skip(k + 2)); lemma_adv_take(loc0, rem0, k + 1); }
    k = k + 1;
}"""},
        before={('stmt', "'outer: loop", 0): """proof {
    assert(rem0.take(0) =~= Seq::<char>::empty());
    if rem0.len() > 0 { lemma_adv_take(loc0, rem0, 0); } else { assert(rem0.skip(0) =~= rem0); }
}""",
                'let res = if let Some(input_char) = curr_char': """proof {
    lemma_ws_run(rem0, k as nat);
    if k + 1 < rem0.len() { lemma_adv_take(loc0, rem0, k + 1); assert(rem0.skip(k + 1).skip(1) =~= rem0.skip(k + 2)); assert(rem0.skip(k + 1)[0] == rem0[k + 1]); }
    assert(k == ws_run(rem0));
    reveal_strlit("true"); reveal_strlit("false"); reveal_strlit("null"); reveal_strlit("in"); reveal_strlit("match"); reveal_strlit("case");
    reveal_strlit("b"); reveal_strlit("c"); reveal_strlit("f"); reveal_strlit("i"); reveal_strlit("m"); reveal_strlit("n"); reveal_strlit("r"); reveal_strlit("t");
    reveal_with_fuel(kw_lookup, 3);
    assert("true"@ =~= seq!['t', 'r', 'u', 'e'] && "false"@ =~= seq!['f', 'a', 'l', 's', 'e'] && "null"@ =~= seq!['n', 'u', 'l', 'l'] && "in"@ =~= seq!['i', 'n']
        && "match"@ =~= seq!['m', 'a', 't', 'c', 'h'] && "case"@ =~= seq!['c', 'a', 's', 'e']);
    assert("b"@ =~= seq!['b'] && "c"@ =~= seq!['c'] && "f"@ =~= seq!['f'] && "i"@ =~= seq!['i'] && "m"@ =~= seq!['m'] && "n"@ =~= seq!['n'] && "r"@ =~= seq!['r'] && "t"@ =~= seq!['t']);
}"""},
        rewrites=[('self.location()', 'self.scanner.location()', 'R8: the Tokenizer trait method resolved to its one-line implementation for StringTokenizer (location() = self.scanner.location())'),
                  ('res.map(|o| o.map(|t| TokenWithLoc::new(t, SourceRange::new(token_start, self.location()))))', 's_with_span(res, token_start, self.scanner.location())', 'R2m: Result::map / Option::map with nested closures -> trampoline (assumed: wraps an Ok(Some(token)) with the span, passes everything else through)'),
                  ('input_char.encode_utf8(&mut tmp)', 's_encode_utf8(input_char, &mut tmp)', 'R2m: char::encode_utf8 -> trampoline (assumed: the one-character string)'),
                  ('&input_char.to_string()', '&s_char_to_string(input_char)', 'R2m: char::to_string -> trampoline')],
        props=('C18', 'C02', 'C13', 'C01'))


def keywords_contract():
    return A(
        ret='r', attrs=['#[verifier::exec_allows_no_decreases_clause]'], requires=[WF],
        ensures=[WF_OUT, ERR_LOC,
                 ('the_longest_run_of_identifier_characters_is_one_word_keyword_or_identifier', """r is Ok && r->Ok_0 is Some && ({
                    let rem0 = old(self).scanner.remaining();
                    let n = ident_run(rem0);
                    let word = starting@ + rem0.take(n as int);
                    &&& final(self).scanner.remaining() == rem0.skip(n as int)
                    &&& final(self).scanner.loc() == adv_n(old(self).scanner.loc(), rem0.take(n as int))
                    &&& (match kw_lookup(options@, word) { Some(t) => r->Ok_0->Some_0 == t, None => r->Ok_0->Some_0 is Ident && r->Ok_0->Some_0->Ident_0@ == word })
                 })""", ('C13', 'C02', 'C18'))],
        body_begin='let ghost rem0 = self.scanner.remaining(); let ghost loc0 = self.scanner.loc(); let ghost mut k: int = 0;',
        loops={0: dict(invariant=[
            ('scanner_well_formed', 'self.scanner.wf()'),
            ('identifier_characters_so_far', """0 <= k <= rem0.len() && (forall|i: int| 0 <= i < k ==> is_ident_char(#[trigger] rem0[i])) && working@ =~= starting@ + rem0.take(k)
                && self.scanner.remaining() == rem0.skip(k) && self.scanner.loc() == adv_n(loc0, rem0.take(k))""", ('C13',))],
            ensures=[('stops_at_the_first_other_character', 'k == rem0.len() || !is_ident_char(rem0[k])', ('C13',))])},
        arm_end={"'a'..='z' | 'A'..='Z' | '0'..='9' | '_'": """proof {
    assert(rem0.skip(k)[0] == rem0[k]);
    assert(rem0.skip(k).skip(1) =~= rem0.skip(k + 1));
    assert(rem0.take(k + 1) =~= rem0.take(k).push(rem0[k]));
    lemma_adv_take(loc0, rem0, k);
    k = k + 1;
}"""},
        before={"'outer: loop": 'proof { assert(rem0.take(0) =~= Seq::<char>::empty()); assert(rem0.skip(0) =~= rem0); }',
                'if let Some(ident) =': 'proof { lemma_ident_run(rem0, k as nat); }'},
        rewrites=[('options.iter().find(|x| x.0 == working)', 's_find_keyword(options, &working)', 'R2m: slice::iter().find(closure) -> trampoline (assumed: the first entry whose name equals the word)')],
        props=('C13', 'C02', 'C18', 'C01'))


def number_contract():
    K = '(rem0.len() - self.scanner.remaining().len())'
    inv = [
        ('scanner_well_formed', 'self.scanner.wf() && self.scanner.remaining().len() <= rem0.len()'),
        ('consumed_is_a_prefix', f'self.scanner.remaining() =~= rem0.skip({K})'),
        ('every_consumed_character_is_collected_in_order', f'collected(working@, starting@, rem0, {K})', ('C13',)),
        ('radix_16_exactly_with_the_0x_marker', '(base == 10 || base == 16) && (base == 16) == has_0x(working@) && (base == 16 && !is_float ==> forall|i: int| 2 <= i < working@.len() ==> is_hex(#[trigger] working@[i])) && !is_unsigned', ('C13',)),
    ]
    step = f"""proof {{
    let k0 = rem0.len() - rem_in.len();
    assert(rem_in == rem0.skip(k0));
    assert(rem_in.skip(1) =~= rem0.skip(k0 + 1));
    assert(rem_in.len() >= 2 ==> rem_in.skip(1).skip(1) =~= rem0.skip(k0 + 2));
}}"""
    return A(
        ret='r', attrs=['#[verifier::exec_allows_no_decreases_clause]'],
        requires=[WF, ('starts_with_one_digit_or_dot', "starting@.len() == 1 && (('0' <= starting@[0] && starting@[0] <= '9') || starting@[0] == '.')")],
        ensures=[WF_OUT, ERR_LOC,
                 ('the_token_is_std_s_parse_of_exactly_the_consumed_characters', """r is Ok ==> r->Ok_0 is Some && ({
                    let t = r->Ok_0->Some_0;
                    let rem0 = old(self).scanner.remaining();
                    let consumed = rem0.len() - final(self).scanner.remaining().len();
                    &&& 0 <= consumed <= rem0.len() && final(self).scanner.remaining() == rem0.skip(consumed)
                    &&& exists|w: Seq<char>, k: int| #[trigger] collected(w, starting@, rem0, k) && number_value_ok(t, w)
                            && k == consumed - (if t is UIntLit { 1int } else { 0int }) && (t is UIntLit ==> rem0[k] == 'u' || rem0[k] == 'U')
                 })""", ('C13',))],
        body_begin='let ghost rem0 = self.scanner.remaining();',
        loops={0: dict(invariant=inv[:2], invariant_except_break=inv[2:],
                       ensures=[('scanner_well_formed', 'self.scanner.wf() && self.scanner.remaining().len() <= rem0.len()'),
                                ('consumed_is_a_prefix', f'self.scanner.remaining() =~= rem0.skip({K})'),
                                ('collected_up_to_the_suffix', f'collected(working@, starting@, rem0, {K} - (if is_unsigned {{ 1int }} else {{ 0int }})) && (is_unsigned ==> {K} >= 1 && (rem0[{K} - 1] == \'u\' || rem0[{K} - 1] == \'U\'))', ('C13',)),
                                ('radix_16_exactly_with_the_0x_marker', '(base == 10 || base == 16) && (base == 16) == has_0x(working@) && (base == 16 && !is_float ==> forall|i: int| 2 <= i < working@.len() ==> is_hex(#[trigger] working@[i])) && (is_unsigned ==> !is_float)', ('C13',))],
                       )},
        arm_begin={"'x' | 'X'": 'proof { reveal_strlit("0"); }'},
        before={'let orig = working.clone();': """proof {
    let kk = (rem0.len() - self.scanner.remaining().len()) - (if is_unsigned { 1int } else { 0int });
    assert(collected(working@, starting@, rem0, kk));
    assert(self.scanner.remaining() == rem0.skip(rem0.len() - self.scanner.remaining().len()));
    if base == 16 && !is_float { assert(!has_0x(working@.skip(2))) by { if working@.skip(2).len() >= 2 { assert(working@.skip(2)[1] == working@[3]); assert(is_hex(working@[3])); } } }
}"""},
        rewrites=[('starting.contains(".")', 's_str_contains_dot(starting)', 'R2m: str::contains -> trampoline (result unconstrained: the float flag only selects the parser)'),
                  ('working == "0"', 'string_is(&working, "0")', 'R2: String == &str -> string_is'),
                  ('10 => &working,', '10 => s_as_str(&working),', 'R2: deref coercion &String -> &str made explicit'),
                  ('working.trim_start_matches("0x")', 's_trim_start_0x(&working)', 'R2m: str::trim_start_matches("0x") -> trampoline with the assumed std behaviour'),
                  ('u64::from_str_radix(fixedup_str, base)', 's_u64_from_str_radix(fixedup_str, base)', 'R2m: std from_str_radix -> trampoline over the uninterpreted parse_u64'),
                  ('working.parse::<f64>()', 's_parse_f64(&working)', 'R2m: str::parse::<f64> -> trampoline over the uninterpreted parse_f64')],
        props=('C13', 'C18', 'C01'))


def build():
    U = Unit('tokenizer')
    # applied only where the text occurs (std items Verus has no model of)
    U.global_rewrites.append(('char::REPLACEMENT_CHARACTER', "'\\u{FFFD}'", 'R6: std constant char::REPLACEMENT_CHARACTER = U+FFFD'))
    U.global_rewrites.append(('working.extend_from_slice(c.encode_utf8(&mut buf).as_bytes());', 's_push_utf8(&mut working, c);', 'R2m: encode_utf8 + extend_from_slice -> trampoline (assumed: appends the UTF-8 encoding)'))
    U.global_rewrites.append(('fixedup_str.parse::<u64>()', 's_u64_from_str_radix(fixedup_str, 10)', 'R2m: str::parse::<u64> = from_str_radix(.., 10) -> trampoline over the uninterpreted parse_u64'))
    U.raw(C.HEADER, 'header')
    U.extract('rscel/src/compiler/source_location.rs', 'struct SourceLocation')
    U.extract('rscel/src/compiler/source_range.rs', 'struct SourceRange')
    U.extract('rscel/src/compiler/string_scanner.rs', 'struct StringScanner')
    U.extract('rscel/src/types/cel_bytes.rs', 'struct CelBytes')
    U.extract('rscel/src/compiler/tokens.rs', 'enum FStringSegment')
    U.extract('rscel/src/compiler/tokens.rs', 'enum Token')
    U.extract('rscel/src/compiler/tokenizer.rs', 'struct TokenWithLoc')
    U.extract(ST, 'struct StringTokenizer')
    U.raw(PRELUDE, 'literal vocabulary')
    U.extract('rscel/src/compiler/string_scanner.rs', "impl<'l> StringScanner<'l>", fns=SCANNER_STUBS, others='stub')
    U.extract('rscel/src/types/cel_bytes.rs', 'impl From<Vec<u8>> for CelBytes', fns={'from': A(stub=True, ret='r', ensures=[('same_bytes', 'r@ == value@')])})
    U.extract(ST, "impl<'l> StringTokenizer<'l>", fns={
        'extract_hex_val': A(
            ret='r', requires=[WF, ('one_to_eight_digits', '1 <= len <= 8')],
            ensures=[WF_OUT, ERR_LOC,
                     ('exactly_len_hex_digits_spell_the_code_point', '''r is Ok ==> ({
                        let rem = old(self).scanner.remaining();
                        &&& rem.len() >= len && all_hex(rem.take(len as int)) && final(self).scanner.remaining() == rem.skip(len as int)
                        &&& is_scalar(hex_val(rem.take(len as int))) && r->Ok_0 == hex_val(rem.take(len as int)) as char
                     })''', ('C13',))],
            loops={0: dict(ghost='it', invariant=[
                ('scanner_well_formed', 'self.scanner.wf()'),
                ('digits_so_far', 'old(self).scanner.remaining().len() >= it.index@ && code_str@ =~= old(self).scanner.remaining().take(it.index@ as int) && all_hex(code_str@) && self.scanner.remaining() == old(self).scanner.remaining().skip(it.index@ as int)')])},
            before={'let unicode_value: u32': 'proof { lemma_hex_val_bound(code_str@); lemma_p16_le_8(code_str@.len()); }'},
            rewrites=[('u32::from_str_radix(&code_str, 16)', 's_u32_from_str_radix(&code_str, 16)', 'R2m: std from_str_radix -> trampoline with the assumed std behaviour')],
            props=('C13', 'C18', 'C01')),
        'parse_string_literal': string_literal(),
        'collect_next_token': collect_contract(),
        'parse_keywords_or_ident': keywords_contract(),
        'parse_bytes_literal': bytes_literal(),
        'parse_number_or_token': number_contract(),
    }, others='stub', skip=('with_input',))
    U.raw(C.FOOTER, 'footer')
    return U
