"""unit parser_match: `match` -- parse_match_pattern (the three pattern forms and the code each emits) and the pattern helpers.
C05 / C10 (each pattern consumes the duplicated scrutinee and leaves exactly one truth value), C02 (shape), C17 (identifiers of a comparison
pattern).  Pattern SPANS are deliberately not specified (C18 excludes them)."""
from vgen.gen import Unit, A
from . import common as C
from . import parser as P
from . import pshared as S
from .parser_expr import result_clause, UNTOUCHED, CURSOR, HERE

HAS_LOOP_CONTRACTS = False
PU = 'rscel/src/compiler/compiler/pattern_utils.rs'

SPEC = r'''
pub uninterp spec fn sp_or(toks: Seq<TokenWithLoc>, pos: nat, lbl: u32) -> Option<P<ConditionalOr>>;
pub uninterp spec fn sp_expr(toks: Seq<TokenWithLoc>, pos: nat, lbl: u32) -> Option<P<Expr>>;
pub open spec fn bc(b: ByteCode) -> PreResolvedCodePoint { PreResolvedCodePoint::Bytecode(b) }
impl<'a> BindContext<'a> { pub uninterp spec fn has_type(&self, name: Seq<char>) -> bool; }
/// which type names can be matched on (grammar::MatchTypePattern::try_from_type_str: a match over string literals)
pub uninterp spec fn type_pattern_of(name: Seq<char>) -> Option<MatchTypePattern>;

pub open spec fn prefix_of(t: Token) -> Option<PrefixPattern> {
    match t {
        Token::EqualEqual => Some(PrefixPattern::Eq), Token::NotEqual => Some(PrefixPattern::Neq), Token::GreaterThan => Some(PrefixPattern::Gt),
        Token::GreaterEqual => Some(PrefixPattern::Ge), Token::LessThan => Some(PrefixPattern::Lt), Token::LessEqual => Some(PrefixPattern::Le),
        _ => None,
    }
}
pub open spec fn prefix_bc(p: PrefixPattern) -> ByteCode {
    match p { PrefixPattern::Eq => ByteCode::Eq, PrefixPattern::Neq => ByteCode::Ne, PrefixPattern::Gt => ByteCode::Gt, PrefixPattern::Ge => ByteCode::Ge, PrefixPattern::Lt => ByteCode::Lt, PrefixPattern::Le => ByteCode::Le }
}
pub open spec fn prefix_cmp(p: PrefixPattern) -> MatchCmpOp {
    match p { PrefixPattern::Eq => MatchCmpOp::Eq, PrefixPattern::Neq => MatchCmpOp::Neq, PrefixPattern::Gt => MatchCmpOp::Gt, PrefixPattern::Ge => MatchCmpOp::Ge, PrefixPattern::Lt => MatchCmpOp::Lt, PrefixPattern::Le => MatchCmpOp::Le }
}
/// `case _`: drop the duplicated scrutinee, push true -- one value in, one value out
pub open spec fn any_code() -> Seq<PreResolvedCodePoint> { seq![bc(ByteCode::Pop), bc(ByteCode::Push(CelValue::Bool(true)))] }
/// `case T`: type(scrutinee) == T
pub open spec fn is_type_code(c: Seq<PreResolvedCodePoint>, name: Seq<char>) -> bool {
    &&& c.len() == 4
    &&& c[0] is Bytecode && c[0]->Bytecode_0 is Push && c[0]->Bytecode_0->Push_0 is Ident && c[0]->Bytecode_0->Push_0->Ident_0@ == "type"@
    &&& c[1] == bc(ByteCode::Call(1))
    &&& c[2] is Bytecode && c[2]->Bytecode_0 is Push && c[2]->Bytecode_0->Push_0 is Ident && c[2]->Bytecode_0->Push_0->Ident_0@ == name
    &&& c[3] == bc(ByteCode::Eq)
}
pub mod axp { use super::*; use vstd::prelude::*;
pub uninterp spec fn point_of<T>(t: T) -> PreResolvedCodePoint;
pub broadcast axiom fn axiom_point_of_bytecode(b: ByteCode) ensures #[trigger] point_of::<ByteCode>(b) == PreResolvedCodePoint::Bytecode(b);
pub broadcast axiom fn axiom_point_of_point(p: PreResolvedCodePoint) ensures #[trigger] point_of::<PreResolvedCodePoint>(p) == p;
}
pub use axp::point_of;

// ---- the match expression ---------------------------------------------------------------------------------------------------------
/// a pattern as a function of the tokens (its per-form clauses are proved on parse_match_pattern above)
pub uninterp spec fn sp_pattern(toks: Seq<TokenWithLoc>, pos: nat, lbl: u32, bind: BindContext) -> Option<P<MatchPattern>>;
pub struct Case { pub pcode: Seq<PreResolvedCodePoint>, pub ecode: Seq<PreResolvedCodePoint>, pub ast: AstNode<MatchCase> }
pub struct CS { pub cases: Seq<Case>, pub details: Set<Seq<char>>, pub end: nat, pub lbl: u32, pub comma_seen: bool }
/// `case` Pattern `:` Expr, separated by commas, up to the closing brace
pub closed spec fn sp_cases_loop(toks: Seq<TokenWithLoc>, acc: CS, bind: BindContext) -> Option<CS>
    decreases toks.len() - acc.end
{
    if acc.end < toks.len() && toks[acc.end as int].token is RBrace { Some(acc) }
    else if !acc.comma_seen { None }
    else if acc.end < toks.len() && toks[acc.end as int].token is Case {
        match sp_pattern(toks, acc.end + 1, acc.lbl, bind) {
            Some(p) => if p.end > acc.end && p.end < toks.len() && toks[p.end as int].token is Colon {
                    match sp_expr(toks, p.end + 1, p.lbl) {
                        Some(e) => if e.end > p.end && e.end <= toks.len() {
                                let c = Case { pcode: code_of(p.node), ecode: seq![bc(ByteCode::Pop)] + code_of(e.node),
                                               ast: mk_ast(MatchCase { pattern: p.ast, expr: Box::new(e.ast) }, hull(a_loc(p.ast), a_loc(e.ast))) };
                                let comma = e.end < toks.len() && toks[e.end as int].token is Comma;
                                sp_cases_loop(toks, CS { cases: acc.cases.push(c), details: acc.details + p.details + e.details,
                                                         end: if comma { e.end + 1 } else { e.end }, lbl: e.lbl, comma_seen: comma }, bind)
                            } else { None },
                        None => None,
                    }
                } else { None },
            None => None,
        }
    } else { None }
}
/// the first k cases: each tests a COPY of the scrutinee (DUP pattern JMPCOND false -> next case), and only the first matching arm runs:
/// its code starts by dropping the scrutinee (POP, part of ecode) and ends by leaving the match (JMP end)
pub open spec fn cases_code(cases: Seq<Case>, k: int, l_end: u32, l0: u32) -> Seq<PreResolvedCodePoint> decreases k {
    if k <= 0 { Seq::empty() } else {
        cases_code(cases, k - 1, l_end, l0) + seq![bc(ByteCode::Dup)] + cases[k - 1].pcode + seq![PreResolvedCodePoint::JmpCond { when: JmpWhen::False, label: (l0 + k - 1) as u32 }]
            + cases[k - 1].ecode + seq![PreResolvedCodePoint::Jmp { label: l_end }, PreResolvedCodePoint::Label((l0 + k - 1) as u32)]
    }
}
/// no case matched: drop the scrutinee, the result is null
pub open spec fn match_code(cond: Seq<PreResolvedCodePoint>, cases: Seq<Case>, lbl: u32) -> Seq<PreResolvedCodePoint> {
    cond + cases_code(cases, cases.len() as int, lbl, (lbl + 1) as u32) + seq![bc(ByteCode::Pop), bc(ByteCode::Push(CelValue::Null)), PreResolvedCodePoint::Label(lbl)]
}
pub open spec fn case_asts(cases: Seq<Case>) -> Seq<AstNode<MatchCase>> { cases.map_values(|c: Case| c.ast) }
pub mod axv { use super::*; use vstd::prelude::*;
pub uninterp spec fn vec_of_cases(s: Seq<AstNode<MatchCase>>) -> Vec<AstNode<MatchCase>>;
/// ASSUMED: a Vec is determined by its elements
pub broadcast axiom fn axiom_vec_of_cases(v: Vec<AstNode<MatchCase>>) ensures #[trigger] vec_of_cases(v@) == v;
}
pub use axv::vec_of_cases;
/// what follows the `match` keyword:  Expr `{` cases `}`
pub closed spec fn sp_match(toks: Seq<TokenWithLoc>, pos: nat, lbl: u32, bind: BindContext) -> Option<P<Expr>> {
    match sp_expr(toks, pos, lbl) {
        Some(c) => if c.end > pos && c.end < toks.len() && toks[c.end as int].token is LBrace {
                match sp_cases_loop(toks, CS { cases: Seq::empty(), details: c.details, end: c.end + 1, lbl: c.lbl, comma_seen: true }, bind) {
                    Some(cs) => if cs.end < toks.len() && cs.lbl as int + 1 + cs.cases.len() <= u32::MAX {
                            Some(P { ast: mk_ast(Expr::Match { condition: Box::new(c.ast), cases: vec_of_cases(case_asts(cs.cases)) }, hull(a_loc(c.ast), toks[cs.end as int].loc)),
                                     end: cs.end + 1, lbl: (cs.lbl + 1 + cs.cases.len()) as u32, details: cs.details,
                                     node: SNode::Code(match_code(code_of(c.node), cs.cases, cs.lbl)) })
                        } else { None },
                    None => None,
                }
            } else { None },
        None => None,
    }
}
#[verifier::external_body] pub fn opt_token_is(a: Option<&Token>, b: &Token) -> (r: bool)
    ensures
        *b is Colon ==> r == (a is Some && *a->Some_0 is Colon),
        *b is LBrace ==> r == (a is Some && *a->Some_0 is LBrace),
        *b is RBrace ==> r == (a is Some && *a->Some_0 is RBrace),
        *b is Case ==> r == (a is Some && *a->Some_0 is Case),
        *b is Comma ==> r == (a is Some && *a->Some_0 is Comma),
{ unimplemented!() }

/// `i == "_"`: String == &str (std)
#[verifier::external_body] pub fn string_is(a: &String, b: &str) -> (r: bool) ensures r == (a@ == b@) { unimplemented!() }

impl SyntaxError {
    #[verifier::external_body] pub fn from_location(loc: SourceLocation) -> SyntaxError { unimplemented!() }
    #[verifier::external_body] pub fn with_message(self, msg: String) -> SyntaxError { unimplemented!() }
}
impl std::fmt::Debug for TokenWithLoc { #[verifier::external_body] fn fmt(&self, f: &mut std::fmt::Formatter<'_>) -> std::fmt::Result { unimplemented!() } }
impl Clone for ProgramDetails { #[verifier::external_body] fn clone(&self) -> (r: Self) ensures r == *self { unimplemented!() } }
impl<'a> BindContext<'a> {
    #[verifier::external_body] pub fn get_type(&self, name: &str) -> (r: Option<&CelValue>) ensures r is Some == self.has_type(name@) { unimplemented!() }
    #[verifier::external_body] pub fn get_param<'l>(&'l self, name: &str) -> Option<&'l CelValue> { unimplemented!() }
    #[verifier::external_body] pub fn is_bound(&self, name: &str) -> bool { unimplemented!() }
}
'''

T0 = 'old(self).tokenizer.toks()[old(self).tokenizer.pos() as int]'
HAVE = 'old(self).tokenizer.pos() < old(self).tokenizer.toks().len()'
ONE = 'final(self).tokenizer.pos() == old(self).tokenizer.pos() + 1 && final(self).next_label == old(self).next_label'
PROPS = ('C05', 'C10', 'C02', 'C17')


def pattern_contract(stub=False):
    wild = f'{HAVE} && {T0}.token is Ident && {T0}.token->Ident_0@ == "_"@'
    typ = f'{HAVE} && {T0}.token is Ident && {T0}.token->Ident_0@ != "_"@ && old(self).bindings.has_type({T0}.token->Ident_0@)'
    ens = [
        UNTOUCHED,
        ('wildcard_consumes_the_scrutinee_copy_and_yields_true', f'''r is Ok && {wild} ==> {ONE} && a_node(r->Ok_0.1) is Any
            && node_view(r->Ok_0.0.inner) is Code && node_view(r->Ok_0.0.inner)->Code_0 =~= any_code() && r->Ok_0.0.details@ == {S.EMPTY}''', ('C05', 'C10', 'C02')),
        ('type_pattern_compares_the_type_of_the_scrutinee', f'''r is Ok && {typ} ==> {ONE} && a_node(r->Ok_0.1) is Type
            && type_pattern_of({T0}.token->Ident_0@) == Some(a_node(a_node(r->Ok_0.1)->Type_0))
            && node_view(r->Ok_0.0.inner) is Code && is_type_code(node_view(r->Ok_0.0.inner)->Code_0, {T0}.token->Ident_0@) && r->Ok_0.0.details@ == {S.EMPTY}''', ('C05', 'C10', 'C02')),
        ('comparison_pattern_is_operand_then_operator', f'''r is Ok && !({wild}) && !({typ}) ==> ({{
            let toks = old(self).tokenizer.toks();
            let pre = if {HAVE} {{ prefix_of({T0}.token) }} else {{ None }};
            let k: nat = if pre is Some {{ 1 }} else {{ 0 }};
            let op = if pre is Some {{ pre->Some_0 }} else {{ PrefixPattern::Eq }};
            let o = sp_or(toks, old(self).tokenizer.pos() + k, old(self).next_label);
            &&& o is Some
            &&& final(self).tokenizer.pos() == o->Some_0.end && final(self).next_label == o->Some_0.lbl
            &&& r->Ok_0.0.details@ == o->Some_0.details
            &&& node_view(r->Ok_0.0.inner) is Code && node_view(r->Ok_0.0.inner)->Code_0 =~= code_of(o->Some_0.node) + seq![bc(prefix_bc(op))]
            &&& a_node(r->Ok_0.1) is Cmp && a_node(a_node(r->Ok_0.1)->Cmp_op) == prefix_cmp(op) && a_node(r->Ok_0.1)->Cmp_or == o->Some_0.ast
        }})''', PROPS),
        ('progress', 'r is Ok ==> final(self).tokenizer.pos() > old(self).tokenizer.pos()', ('C02',)),
    ]
    if stub:
        return A(stub=True, ret='r', requires=[CURSOR], ensures=ens)
    return A(ret='r', attrs=['#[verifier::exec_allows_no_decreases_clause]'], requires=[CURSOR], ensures=ens, mcalls=S.MC,
             rewrites=[('i == "_"', 'string_is(&i, "_")', 'R2: String == &str -> string_is (assumed: equality of the character sequences)')],
             props=PROPS + ('C01',))


MATCH_PROPS = ('C05', 'C10', 'C17', 'C02', 'C18')
HERE_B = HERE + ', old(self).bindings'


def match_contract():
    NEQ = lambda v, k: (f'{v}.as_token() != Some(&Token::{k})', f'!opt_token_is({v}.as_token(), &Token::{k})', 'R2: derived PartialEq on Option<&Token> -> opt_token_is')
    EQ = lambda v, k: (f'{v}.as_token() == Some(&Token::{k})', f'opt_token_is({v}.as_token(), &Token::{k})', 'R2: derived PartialEq on Option<&Token> -> opt_token_is')
    STATE = 'CS { cases: cases0, details: node_details@, end: self.tokenizer.pos(), lbl: self.next_label, comma_seen: comma_seen }'
    CS0 = 'CS { cases: Seq::empty(), details: c0.details, end: c0.end + 1, lbl: c0.lbl, comma_seen: true }'
    return A(
        ret='r', attrs=['#[verifier::exec_allows_no_decreases_clause]', '#[verifier::rlimit(200)]'], requires=[CURSOR],
        ensures=[UNTOUCHED, result_clause(f'sp_match({HERE_B})', MATCH_PROPS)],
        after={('stmt', 'let (condition_node, condition_ast) =', 0): 'let ghost c0 = P { ast: condition_ast, end: self.tokenizer.pos(), lbl: self.next_label, details: condition_node.details@, node: node_view(condition_node.inner) };',
               ('stmt', 'let mut comma_seen =', 0): 'let ghost mut cases0: Seq<Case> = Seq::empty();',
               ('stmt', 'let (pattern_prog, pattern_ast) =', 0): 'let ghost p1 = P { ast: pattern_ast, end: self.tokenizer.pos(), lbl: self.next_label, details: pattern_prog.details@, node: node_view(pattern_prog.inner) };',
               ('stmt', 'let (expr_prog, expr_ast) =', 0): 'let ghost e1 = P { ast: expr_ast, end: self.tokenizer.pos(), lbl: self.next_label, details: expr_prog.details@, node: node_view(expr_prog.inner) };',
               ('stmt', 'expressions.push(', 0): """proof {
    cases0 = cases0.push(Case { pcode: code_of(p1.node), ecode: seq![bc(ByteCode::Pop)] + code_of(e1.node),
                                ast: mk_ast(MatchCase { pattern: p1.ast, expr: Box::new(e1.ast) }, hull(a_loc(p1.ast), a_loc(e1.ast))) });
}""",
               ('stmt', 'let after_match_s_l =', 0): 'let ghost lbl1 = after_match_s_l; let ghost cond_code = node_bytecode@;'},
        loops={0: dict(
            invariant=[('token_stream_untouched', 'self.tokenizer.toks() == old(self).tokenizer.toks() && self.tokenizer.pos() <= self.tokenizer.toks().len() && self.bindings == old(self).bindings'),
                       ('progress', 'self.tokenizer.pos() > old(self).tokenizer.pos()'),
                       ('scrutinee_parsed', 'sp_expr(old(self).tokenizer.toks(), old(self).tokenizer.pos(), old(self).next_label) == Some(c0) && c0.end > old(self).tokenizer.pos() && c0.end < self.tokenizer.toks().len() && self.tokenizer.toks()[c0.end as int].token is LBrace && node_bytecode@ == code_of(c0.node)'),
                       ('cases_so_far', f"""sp_cases_loop(self.tokenizer.toks(), {CS0}, self.bindings) == sp_cases_loop(self.tokenizer.toks(), {STATE}, self.bindings)
                            && expressions@ =~= case_asts(cases0) && all_parts@.len() == cases0.len()
                            && (forall|i: int| 0 <= i < cases0.len() ==> (#[trigger] all_parts@[i]).0@ == cases0[i].pcode && all_parts@[i].1@ == cases0[i].ecode)""", MATCH_PROPS)],
            ensures=[('closing_brace_reached', f"""sp_cases_loop(self.tokenizer.toks(), {CS0}, self.bindings) == Some({STATE})
                            && self.tokenizer.pos() < self.tokenizer.toks().len() && self.tokenizer.toks()[self.tokenizer.pos() as int].token is RBrace
                            && range == hull(a_loc(c0.ast), self.tokenizer.toks()[self.tokenizer.pos() as int].loc)
                            && expressions@ =~= case_asts(cases0) && all_parts@.len() == cases0.len() && node_bytecode@ == code_of(c0.node)
                            && (forall|i: int| 0 <= i < cases0.len() ==> (#[trigger] all_parts@[i]).0@ == cases0[i].pcode && all_parts@[i].1@ == cases0[i].ecode)""", MATCH_PROPS)],
            invariant_except_break=[('span_not_yet_closed', 'range == a_loc(c0.ast)')],
            pre=f'let ghost acc0 = {STATE};',
            post=f"""proof {{
    let toks = self.tokenizer.toks();
    assert(toks[acc0.end as int].token is Case);
    assert(sp_pattern(toks, acc0.end + 1, acc0.lbl, self.bindings) == Some(p1));
    assert(toks[p1.end as int].token is Colon);
    assert(sp_expr(toks, p1.end + 1, p1.lbl) == Some(e1));
    assert(node_details@ =~= acc0.details + p1.details + e1.details);
    assert(sp_cases_loop(toks, acc0, self.bindings) == sp_cases_loop(toks, {STATE}, self.bindings));
}}"""),
               1: dict(ghost='it', invariant=[
                   ('token_stream_untouched', 'self.tokenizer.toks() == toks1 && self.tokenizer.pos() == pos1 && self.bindings == old(self).bindings'),
                   ('one_fresh_label_per_case_after_the_exit_label', 'self.next_label == lbl1 + 1 + it.index@ && it.seq() == parts1 && after_match_s_l == lbl1 && parts1.len() == cases0.len() && (forall|i: int| 0 <= i < cases0.len() ==> (#[trigger] parts1[i]).0@ == cases0[i].pcode && parts1[i].1@ == cases0[i].ecode)'),
                   ('cases_assembled_in_order', 'node_bytecode@ =~= cond_code + cases_code(cases0, it.index@ as int, lbl1, (lbl1 + 1) as u32)', ('C05', 'C10'))])},
        before={'Ok(( CompiledProg::new(NodeValue::Bytecode(node_bytecode)': '''proof {
    assert(node_bytecode@ =~= match_code(code_of(c0.node), cases0, lbl1));
    assert(expressions == vec_of_cases(case_asts(cases0)));
}''',
                'for (pattern_bytecode, expr_bytecode) in': 'let ghost toks1 = self.tokenizer.toks(); let ghost pos1 = self.tokenizer.pos(); let ghost parts1 = all_parts@;'},
        rewrites=[('let mut all_parts = Vec::new();', 'let mut all_parts: Vec<(PreResolvedByteCode, Vec<PreResolvedCodePoint>)> = Vec::new();', 'R9: inferred type of a local made explicit'),
                  ('[ByteCode::Pop.into()]', '[PreResolvedCodePoint::from(ByteCode::Pop)]', 'R9: the target type of `.into()` made explicit (the generic trampolines do not constrain it)'),
                  NEQ('next', 'LBrace'), EQ('rbrace', 'RBrace'), NEQ('case_token', 'Case'), NEQ('colon_token', 'Colon'), EQ('comma_token', 'Comma')],
        mcalls=S.MC,
        props=MATCH_PROPS + ('C01',))


def pattern_stub_for_x():
    a = pattern_contract(stub=True)
    a.ensures = a.ensures + [result_clause(f'sp_pattern({HERE_B})', (), 'ASSUMED_the_result_is_a_function_of_the_tokens')]
    return a


def build(x=False):
    U = Unit('parser_matchx' if x else 'parser_match')
    U.global_rewrites.append(C.DYN_REWRITE)
    U.raw(C.HEADER, 'header')
    U.raw(C.STANDINS, 'S1 stand-ins')
    C.value_types(U)
    S.compiler_types(U, grammar='all')
    U.extract(PU, 'enum PrefixPattern')
    U.extract(S.CPR, 'macro_rules compile')
    U.extract(S.CP, 'struct CelCompiler')
    U.raw(C.DERIVED, 'assumed derived impls')
    U.raw(C.VALUE_SPECS + C.TRUTHY_SPEC, 'shared vocabulary')
    U.raw(C.TRAIT_FULL, 'CelValueDyn restated')
    U.raw('impl View for CelByteCode { type V = Seq<ByteCode>; closed spec fn view(&self) -> Seq<ByteCode> { self.inner@ } }\n' + S.core_with_full_tokenizer() + S.ITER + SPEC, 'grammar specs')
    U.raw(C.STD_SPECS, 'assumed std specs')
    U.raw(S.axioms().replace('ax::axiom_vec_bytecode_len, ', 'ax::axiom_vec_bytecode_len, axp::axiom_point_of_bytecode, axp::axiom_point_of_point, axv::axiom_vec_of_cases, '), 'axioms')
    U.extract(C.CE, 'impl From<SyntaxError> for CelError', fns={'from': A(ret='r', ensures=[('def', 'r == CelError::Syntax(value)')], props=('C01',))})
    U.extract('rscel/src/compiler/tokenizer.rs', 'impl TokenWithLoc', fns={'token': A(ret='r', ensures=[('def', '*r == self.token')], props=('C01',))}, others='stub')
    U.extract('rscel/src/compiler/tokenizer.rs', 'impl AsToken for Option<&TokenWithLoc>', fns={
        'as_token': A(ret='r', ensures=[('def', '(match *self { Some(s) => r == Some(&s.token), None => r is None })')], props=('C02', 'C01'))})
    U.extract('rscel/src/compiler/tokenizer.rs', 'impl AsToken for Option<TokenWithLoc>', fns={
        'as_token': A(ret='r', ensures=[('def', '(match *self { Some(s) => r == Some(&s.token), None => r is None })')], props=('C02', 'C01'))})
    U.extract('rscel/src/compiler/tokenizer.rs', 'impl AsToken for &TokenWithLoc', fns={'as_token': A(ret='r', ensures=[('def', 'r == Some(&self.token)')], props=('C01',))})
    U.extract('rscel/src/compiler/tokenizer.rs', 'impl AsToken for TokenWithLoc', fns={'as_token': A(ret='r', ensures=[('def', 'r == Some(&self.token)')], props=('C01',))})
    U.extract('rscel/src/compiler/source_range.rs', 'impl SourceRange', fns={
        'new': A(ret='r', ensures=[('def', 'r == mk_range(start, end)')], props=('C18', 'C01')),
        'surrounding': A(stub=True, ret='r', ensures=[('smallest_span_containing_both', 'r == hull(self, other)')]),
    }, others='stub')
    U.extract('rscel/src/compiler/ast_node.rs', 'impl<T> AstNode<T>', fns={
        'new': A(ret='r', ensures=[('def', 'r == mk_ast(node, loc)')], props=('C18', 'C01')),
        'range': A(ret='r', ensures=[('def', 'r == a_loc(*self)')], props=('C18', 'C01')),
    }, others='stub')
    U.extract(PU, 'impl PrefixPattern', fns={
        'from_token': A(ret='r', ensures=[('the_six_comparison_tokens', 'r == prefix_of(*token)')], props=('C02', 'C05', 'C01')),
        'as_bytecode': A(ret='r', ensures=[('the_matching_instruction', 'r == prefix_bc(*self)')], props=('C05', 'C10', 'C01')),
        'as_ast': A(ret='r', ensures=[('the_matching_tree_node', 'r == prefix_cmp(*self)')], props=('C02', 'C01')),
    })
    U.extract(S.GR, 'impl MatchTypePattern', fns={
        'try_from_type_str': A(stub=True, ret='r', ensures=[('def', 'r == type_pattern_of(s@)')]),
    }, others='stub')
    S.grammar_ambient(U)
    U.extract('rscel/src/program/program_details.rs', 'impl ProgramDetails', fns=S.stubbed(S.DETAILS))
    U.extract(S.PR, 'impl From<ByteCode> for PreResolvedCodePoint', fns={'from': A(ret='r', ensures=[('def', 'r == PreResolvedCodePoint::Bytecode(value)')], props=('C10', 'C01'))})
    U.extract(S.PR, 'impl PreResolvedByteCode', fns={
        'new': A(stub=True, ret='r', ensures=[('empty', 'r@.len() == 0')]),
        'push': A(stub=True, ensures=[('appends_one_point', 'final(self)@ == old(self)@.push(point_of(val))')]),
        'extend': A(stub=True, ensures=[('appends_in_order', 'final(self)@ == old(self)@ + points_of(byte_codes)')]),
        'into_iter': A(external_body=True, ret='r', ensures=[('yields_the_points_in_order', 'points_of(r) == self@')]),
    }, others='stub')
    U.extract(C.CE, 'impl CelError', fns={}, others='stub')
    U.extract(C.CV, 'impl CelValue', fns={
        'true_': C.simple_ctor(C.CTORS['true_'], stub=True),
        'from_null': C.simple_ctor(C.CTORS['from_null'], stub=True),
    }, others='stub')
    d = S.stubbed(S.compprog_contracts())
    U.extract(S.CPR, 'impl CompiledProg', fns=d, others='stub', skip=('into_program',))
    U.extract(S.CPR, 'impl NodeValue', fns=S.stubbed(S.NODEVALUE))
    U.extract(S.CP, "impl<'l> CelCompiler<'l>", fns={
        'new_label': A(stub=True, ret='r', ensures=[('fresh_label', 'r == old(self).next_label && final(self).next_label == old(self).next_label + 1 && final(self).tokenizer == old(self).tokenizer && final(self).bindings == old(self).bindings'),
                                                  ('ASSUMED_no_overflow_of_the_label_counter', 'old(self).next_label < u32::MAX')]),
        'parse_conditional_or': A(stub=True, ret='r', requires=[CURSOR], ensures=[UNTOUCHED, result_clause(f'sp_or({HERE})', ())]),
        'parse_expression': A(stub=True, ret='r', requires=[CURSOR], ensures=[UNTOUCHED, result_clause(f'sp_expr({HERE})', ())]),
        **({'parse_match_pattern': pattern_stub_for_x(), 'parse_match_expression': match_contract()} if x else {'parse_match_pattern': pattern_contract()}),
    }, others='stub', skip=('with_tokenizer', 'compile'))
    U.raw(C.FOOTER, 'footer')
    return U
