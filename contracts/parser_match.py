"""unit parser_match: `match` -- parse_match_pattern (the three pattern forms and the code each emits) and the pattern helpers.
C05 / C10 (each pattern consumes the duplicated scrutinee and leaves exactly one truth value), C02 (shape), C17 (identifiers of a comparison
pattern).  Pattern SPANS are deliberately not specified (C18 excludes them)."""
from vgen.gen import Unit, A
from . import common as C
from . import parser as P
from . import pshared as S
from .parser_expr import result_clause, UNTOUCHED, CURSOR, HERE

HAS_LOOP_CONTRACTS = False
PU = 'rscel/src/compiler/compiler/pattern_utils.rs'

SPEC = r'''
pub uninterp spec fn sp_or(toks: Seq<TokenWithLoc>, pos: nat, lbl: u32) -> Option<P<ConditionalOr>>;
pub uninterp spec fn sp_expr(toks: Seq<TokenWithLoc>, pos: nat, lbl: u32) -> Option<P<Expr>>;
pub open spec fn bc(b: ByteCode) -> PreResolvedCodePoint { PreResolvedCodePoint::Bytecode(b) }
impl<'a> BindContext<'a> { pub uninterp spec fn has_type(&self, name: Seq<char>) -> bool; }
/// which type names can be matched on (grammar::MatchTypePattern::try_from_type_str: a match over string literals)
pub uninterp spec fn type_pattern_of(name: Seq<char>) -> Option<MatchTypePattern>;

pub open spec fn prefix_of(t: Token) -> Option<PrefixPattern> {
    match t {
        Token::EqualEqual => Some(PrefixPattern::Eq), Token::NotEqual => Some(PrefixPattern::Neq), Token::GreaterThan => Some(PrefixPattern::Gt),
        Token::GreaterEqual => Some(PrefixPattern::Ge), Token::LessThan => Some(PrefixPattern::Lt), Token::LessEqual => Some(PrefixPattern::Le),
        _ => None,
    }
}
pub open spec fn prefix_bc(p: PrefixPattern) -> ByteCode {
    match p { PrefixPattern::Eq => ByteCode::Eq, PrefixPattern::Neq => ByteCode::Ne, PrefixPattern::Gt => ByteCode::Gt, PrefixPattern::Ge => ByteCode::Ge, PrefixPattern::Lt => ByteCode::Lt, PrefixPattern::Le => ByteCode::Le }
}
pub open spec fn prefix_cmp(p: PrefixPattern) -> MatchCmpOp {
    match p { PrefixPattern::Eq => MatchCmpOp::Eq, PrefixPattern::Neq => MatchCmpOp::Neq, PrefixPattern::Gt => MatchCmpOp::Gt, PrefixPattern::Ge => MatchCmpOp::Ge, PrefixPattern::Lt => MatchCmpOp::Lt, PrefixPattern::Le => MatchCmpOp::Le }
}
/// `case _`: drop the duplicated scrutinee, push true -- one value in, one value out
pub open spec fn any_code() -> Seq<PreResolvedCodePoint> { seq![bc(ByteCode::Pop), bc(ByteCode::Push(CelValue::Bool(true)))] }
/// `case T`: type(scrutinee) == T
pub open spec fn is_type_code(c: Seq<PreResolvedCodePoint>, name: Seq<char>) -> bool {
    &&& c.len() == 4
    &&& c[0] is Bytecode && c[0]->Bytecode_0 is Push && c[0]->Bytecode_0->Push_0 is Ident && c[0]->Bytecode_0->Push_0->Ident_0@ == "type"@
    &&& c[1] == bc(ByteCode::Call(1))
    &&& c[2] is Bytecode && c[2]->Bytecode_0 is Push && c[2]->Bytecode_0->Push_0 is Ident && c[2]->Bytecode_0->Push_0->Ident_0@ == name
    &&& c[3] == bc(ByteCode::Eq)
}
pub mod axp { use super::*; use vstd::prelude::*;
pub uninterp spec fn point_of<T>(t: T) -> PreResolvedCodePoint;
pub broadcast axiom fn axiom_point_of_bytecode(b: ByteCode) ensures #[trigger] point_of::<ByteCode>(b) == PreResolvedCodePoint::Bytecode(b);
pub broadcast axiom fn axiom_point_of_point(p: PreResolvedCodePoint) ensures #[trigger] point_of::<PreResolvedCodePoint>(p) == p;
}
pub use axp::point_of;
/// `i == "_"`: String == &str (std)
#[verifier::external_body] pub fn string_is(a: &String, b: &str) -> (r: bool) ensures r == (a@ == b@) { unimplemented!() }

impl SyntaxError {
    #[verifier::external_body] pub fn from_location(loc: SourceLocation) -> SyntaxError { unimplemented!() }
    #[verifier::external_body] pub fn with_message(self, msg: String) -> SyntaxError { unimplemented!() }
}
impl std::fmt::Debug for TokenWithLoc { #[verifier::external_body] fn fmt(&self, f: &mut std::fmt::Formatter<'_>) -> std::fmt::Result { unimplemented!() } }
impl Clone for ProgramDetails { #[verifier::external_body] fn clone(&self) -> (r: Self) ensures r == *self { unimplemented!() } }
impl<'a> BindContext<'a> {
    #[verifier::external_body] pub fn get_type(&self, name: &str) -> (r: Option<&CelValue>) ensures r is Some == self.has_type(name@) { unimplemented!() }
    #[verifier::external_body] pub fn get_param<'l>(&'l self, name: &str) -> Option<&'l CelValue> { unimplemented!() }
    #[verifier::external_body] pub fn is_bound(&self, name: &str) -> bool { unimplemented!() }
}
'''

T0 = 'old(self).tokenizer.toks()[old(self).tokenizer.pos() as int]'
HAVE = 'old(self).tokenizer.pos() < old(self).tokenizer.toks().len()'
ONE = 'final(self).tokenizer.pos() == old(self).tokenizer.pos() + 1 && final(self).next_label == old(self).next_label'
PROPS = ('C05', 'C10', 'C02', 'C17')


def pattern_contract(stub=False):
    wild = f'{HAVE} && {T0}.token is Ident && {T0}.token->Ident_0@ == "_"@'
    typ = f'{HAVE} && {T0}.token is Ident && {T0}.token->Ident_0@ != "_"@ && old(self).bindings.has_type({T0}.token->Ident_0@)'
    ens = [
        UNTOUCHED,
        ('wildcard_consumes_the_scrutinee_copy_and_yields_true', f'''r is Ok && {wild} ==> {ONE} && a_node(r->Ok_0.1) is Any
            && node_view(r->Ok_0.0.inner) is Code && node_view(r->Ok_0.0.inner)->Code_0 =~= any_code() && r->Ok_0.0.details@ == {S.EMPTY}''', ('C05', 'C10', 'C02')),
        ('type_pattern_compares_the_type_of_the_scrutinee', f'''r is Ok && {typ} ==> {ONE} && a_node(r->Ok_0.1) is Type
            && type_pattern_of({T0}.token->Ident_0@) == Some(a_node(a_node(r->Ok_0.1)->Type_0))
            && node_view(r->Ok_0.0.inner) is Code && is_type_code(node_view(r->Ok_0.0.inner)->Code_0, {T0}.token->Ident_0@) && r->Ok_0.0.details@ == {S.EMPTY}''', ('C05', 'C10', 'C02')),
        ('comparison_pattern_is_operand_then_operator', f'''r is Ok && !({wild}) && !({typ}) ==> ({{
            let toks = old(self).tokenizer.toks();
            let pre = if {HAVE} {{ prefix_of({T0}.token) }} else {{ None }};
            let k: nat = if pre is Some {{ 1 }} else {{ 0 }};
            let op = if pre is Some {{ pre->Some_0 }} else {{ PrefixPattern::Eq }};
            let o = sp_or(toks, old(self).tokenizer.pos() + k, old(self).next_label);
            &&& o is Some
            &&& final(self).tokenizer.pos() == o->Some_0.end && final(self).next_label == o->Some_0.lbl
            &&& r->Ok_0.0.details@ == o->Some_0.details
            &&& node_view(r->Ok_0.0.inner) is Code && node_view(r->Ok_0.0.inner)->Code_0 =~= code_of(o->Some_0.node) + seq![bc(prefix_bc(op))]
            &&& a_node(r->Ok_0.1) is Cmp && a_node(a_node(r->Ok_0.1)->Cmp_op) == prefix_cmp(op) && a_node(r->Ok_0.1)->Cmp_or == o->Some_0.ast
        }})''', PROPS),
        ('progress', 'r is Ok ==> final(self).tokenizer.pos() > old(self).tokenizer.pos()', ('C02',)),
    ]
    if stub:
        return A(stub=True, ret='r', requires=[CURSOR], ensures=ens)
    return A(ret='r', attrs=['#[verifier::exec_allows_no_decreases_clause]'], requires=[CURSOR], ensures=ens, mcalls=S.MC,
             rewrites=[('i == "_"', 'string_is(&i, "_")', 'R2: String == &str -> string_is (assumed: equality of the character sequences)')],
             props=PROPS + ('C01',))


def build():
    U = Unit('parser_match')
    U.global_rewrites.append(C.DYN_REWRITE)
    U.raw(C.HEADER, 'header')
    U.raw(C.STANDINS, 'S1 stand-ins')
    C.value_types(U)
    S.compiler_types(U, grammar='all')
    U.extract(PU, 'enum PrefixPattern')
    U.extract(S.CPR, 'macro_rules compile')
    U.extract(S.CP, 'struct CelCompiler')
    U.raw(C.DERIVED, 'assumed derived impls')
    U.raw(C.VALUE_SPECS + C.TRUTHY_SPEC, 'shared vocabulary')
    U.raw(C.TRAIT_FULL, 'CelValueDyn restated')
    U.raw('impl View for CelByteCode { type V = Seq<ByteCode>; closed spec fn view(&self) -> Seq<ByteCode> { self.inner@ } }\n' + S.core_with_full_tokenizer() + S.ITER + SPEC, 'grammar specs')
    U.raw(C.STD_SPECS, 'assumed std specs')
    U.raw(S.axioms().replace('ax::axiom_vec_bytecode_len, ', 'ax::axiom_vec_bytecode_len, axp::axiom_point_of_bytecode, axp::axiom_point_of_point, '), 'axioms')
    U.extract(C.CE, 'impl From<SyntaxError> for CelError', fns={'from': A(ret='r', ensures=[('def', 'r == CelError::Syntax(value)')], props=('C01',))})
    U.extract('rscel/src/compiler/tokenizer.rs', 'impl TokenWithLoc', fns={'token': A(ret='r', ensures=[('def', '*r == self.token')], props=('C01',))}, others='stub')
    U.extract('rscel/src/compiler/tokenizer.rs', 'impl AsToken for Option<&TokenWithLoc>', fns={
        'as_token': A(ret='r', ensures=[('def', '(match *self { Some(s) => r == Some(&s.token), None => r is None })')], props=('C02', 'C01'))})
    U.extract('rscel/src/compiler/tokenizer.rs', 'impl AsToken for &TokenWithLoc', fns={'as_token': A(ret='r', ensures=[('def', 'r == Some(&self.token)')], props=('C01',))})
    U.extract('rscel/src/compiler/tokenizer.rs', 'impl AsToken for TokenWithLoc', fns={'as_token': A(ret='r', ensures=[('def', 'r == Some(&self.token)')], props=('C01',))})
    U.extract('rscel/src/compiler/source_range.rs', 'impl SourceRange', fns={
        'new': A(ret='r', ensures=[('def', 'r == mk_range(start, end)')], props=('C18', 'C01')),
        'surrounding': A(stub=True, ret='r', ensures=[('smallest_span_containing_both', 'r == hull(self, other)')]),
    }, others='stub')
    U.extract('rscel/src/compiler/ast_node.rs', 'impl<T> AstNode<T>', fns={
        'new': A(ret='r', ensures=[('def', 'r == mk_ast(node, loc)')], props=('C18', 'C01')),
        'range': A(ret='r', ensures=[('def', 'r == a_loc(*self)')], props=('C18', 'C01')),
    }, others='stub')
    U.extract(PU, 'impl PrefixPattern', fns={
        'from_token': A(ret='r', ensures=[('the_six_comparison_tokens', 'r == prefix_of(*token)')], props=('C02', 'C05', 'C01')),
        'as_bytecode': A(ret='r', ensures=[('the_matching_instruction', 'r == prefix_bc(*self)')], props=('C05', 'C10', 'C01')),
        'as_ast': A(ret='r', ensures=[('the_matching_tree_node', 'r == prefix_cmp(*self)')], props=('C02', 'C01')),
    })
    U.extract(S.GR, 'impl MatchTypePattern', fns={
        'try_from_type_str': A(stub=True, ret='r', ensures=[('def', 'r == type_pattern_of(s@)')]),
    }, others='stub')
    U.extract('rscel/src/program/program_details.rs', 'impl ProgramDetails', fns=S.stubbed(S.DETAILS))
    U.extract(S.PR, 'impl From<ByteCode> for PreResolvedCodePoint', fns={'from': A(ret='r', ensures=[('def', 'r == PreResolvedCodePoint::Bytecode(value)')], props=('C10', 'C01'))})
    U.extract(S.PR, 'impl PreResolvedByteCode', fns={
        'new': A(stub=True, ret='r', ensures=[('empty', 'r@.len() == 0')]),
        'push': A(stub=True, ensures=[('appends_one_point', 'final(self)@ == old(self)@.push(point_of(val))')]),
        'extend': A(stub=True, ensures=[('appends_in_order', 'final(self)@ == old(self)@ + points_of(byte_codes)')]),
        'into_iter': A(external_body=True, ret='r', ensures=[('yields_the_points_in_order', 'points_of(r) == self@')]),
    }, others='stub')
    U.extract(C.CE, 'impl CelError', fns={}, others='stub')
    U.extract(C.CV, 'impl CelValue', fns={
        'true_': C.simple_ctor(C.CTORS['true_'], stub=True),
        'from_null': C.simple_ctor(C.CTORS['from_null'], stub=True),
    }, others='stub')
    d = S.stubbed(S.compprog_contracts())
    U.extract(S.CPR, 'impl CompiledProg', fns=d, others='stub', skip=('into_program',))
    U.extract(S.CPR, 'impl NodeValue', fns=S.stubbed(S.NODEVALUE))
    U.extract(S.CP, "impl<'l> CelCompiler<'l>", fns={
        'new_label': A(stub=True, ret='r', ensures=[('fresh_label', 'r == old(self).next_label && final(self).next_label == old(self).next_label + 1 && final(self).tokenizer == old(self).tokenizer && final(self).bindings == old(self).bindings'),
                                                  ('ASSUMED_no_overflow_of_the_label_counter', 'old(self).next_label < u32::MAX')]),
        'parse_conditional_or': A(stub=True, ret='r', requires=[CURSOR], ensures=[UNTOUCHED, result_clause(f'sp_or({HERE})', ())]),
        'parse_expression': A(stub=True, ret='r', requires=[CURSOR], ensures=[UNTOUCHED, result_clause(f'sp_expr({HERE})', ())]),
        'parse_match_pattern': pattern_contract(),
    })
    U.raw(C.FOOTER, 'footer')
    return U
