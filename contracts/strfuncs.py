"""unit strfuncs: the remaining string built-ins (C15): replace, remove, trimStartMatches / trimEndMatches, splitWhiteSpace, the regex
family matches / matchReplace / matchReplaceOnce, and the five functions that only exist after expanding `string_func!`
(toLower, toUpper, trim, trimStart, trimEnd).

As in unit wiring, std / regex are UNINTERPRETED: what is proved is which std / regex function is applied to which argument in which
order, that an invalid pattern is an error and a valid one never is, and the arity / receiver-type rejection of the macro-defined
functions -- not what std or the regex engine computes."""
import os
from vgen.gen import Unit, A
from vgen import rscan, mexpand
from . import common as C
from . import wiring as W

S = W.DFS + 'string/'
SF = W.DFS + 'string.rs'
VIRT = 'rscel/src/context/default_funcs/string.rs::string_func!'
P = ('C15', 'C01')

PRELUDE = r'''
// ---- more uninterpreted std string functions ------------------------------------------------------------------------------------
pub uninterp spec fn str_replace(s: Seq<char>, from: Seq<char>, to: Seq<char>) -> Seq<char>;      // every non-overlapping occurrence, left to right
pub uninterp spec fn str_remove(s: Seq<char>, pat: Seq<char>) -> Seq<char>;
pub uninterp spec fn str_trim(s: Seq<char>) -> Seq<char>;
pub uninterp spec fn str_trim_start(s: Seq<char>) -> Seq<char>;
pub uninterp spec fn str_trim_end(s: Seq<char>) -> Seq<char>;
pub uninterp spec fn str_trim_start_matches(s: Seq<char>, pat: Seq<char>) -> Seq<char>;
pub uninterp spec fn str_trim_end_matches(s: Seq<char>, pat: Seq<char>) -> Seq<char>;
pub uninterp spec fn str_split_ws(s: Seq<char>) -> Seq<Seq<char>>;
pub trait StrLike { spec fn sv(&self) -> Seq<char>; }
impl StrLike for String { open spec fn sv(&self) -> Seq<char> { self@ } }
impl StrLike for &str { open spec fn sv(&self) -> Seq<char> { self@ } }
#[verifier::external_body] pub struct CharsOf { _p: u8 }
impl CharsOf { pub uninterp spec fn view(&self) -> Seq<char>; }
#[verifier::external_body] pub fn s_chars<T: StrLike>(s: T) -> (r: CharsOf) ensures r@ == s.sv() { unimplemented!() }
#[verifier::external_body] pub fn s_collect_chars(c: CharsOf) -> (r: String) ensures r@ == c@ { unimplemented!() }
#[verifier::external_body] pub fn s_replace(s: &String, from: &String, to: &String) -> (r: String) ensures r@ == str_replace(s@, from@, to@) { unimplemented!() }
#[verifier::external_body] pub fn s_replacen(s: &String, from: &String, to: &String, n: usize) -> (r: String) { unimplemented!() }
#[verifier::external_body] pub fn s_remove_matches(s: &mut String, pat: &String) ensures final(s)@ == str_remove(old(s)@, pat@) { unimplemented!() }
#[verifier::external_body] pub fn s_trim<'a>(s: &'a String) -> (r: &'a str) ensures r@ == str_trim(s@) { unimplemented!() }
#[verifier::external_body] pub fn s_trim_start<'a>(s: &'a String) -> (r: &'a str) ensures r@ == str_trim_start(s@) { unimplemented!() }
#[verifier::external_body] pub fn s_trim_end<'a>(s: &'a String) -> (r: &'a str) ensures r@ == str_trim_end(s@) { unimplemented!() }
#[verifier::external_body] pub fn s_trim_start_matches<'a>(s: &'a String, pat: &String) -> (r: &'a str) ensures r@ == str_trim_start_matches(s@, pat@) { unimplemented!() }
#[verifier::external_body] pub fn s_trim_end_matches<'a>(s: &'a String, pat: &String) -> (r: &'a str) ensures r@ == str_trim_end_matches(s@, pat@) { unimplemented!() }
#[verifier::external_body] pub fn s_trim_matches<'a>(s: &'a String, pat: &String) -> (r: &'a str) { unimplemented!() }
#[verifier::external_body] pub fn s_to_owned(s: &str) -> (r: String) ensures r@ == s@ { unimplemented!() }
#[verifier::external_body] pub fn s_split_whitespace(s: &String) -> (r: Pieces) ensures r@ == str_split_ws(s@) { unimplemented!() }
// ---- the regex crate: a pattern compiles to a regex or is invalid; matching / replacing are functions of (regex, text[, replacement])
#[verifier::external_body] pub struct Regex { _p: u8 }
#[verifier::external_body] pub struct RegexError { _p: u8 }
pub uninterp spec fn regex_of(pattern: Seq<char>) -> Option<Regex>;
pub uninterp spec fn re_is_match(re: Regex, text: Seq<char>) -> bool;
pub uninterp spec fn re_replace_all(re: Regex, text: Seq<char>, rep: Seq<char>) -> Seq<char>;
pub uninterp spec fn re_replace_first(re: Regex, text: Seq<char>, rep: Seq<char>) -> Seq<char>;
#[verifier::external_body] pub fn s_regex_new(p: &str) -> (r: Result<Regex, RegexError>)
    ensures (match regex_of(p@) { Some(re) => r is Ok && r->Ok_0 == re, None => r is Err }) { unimplemented!() }
#[verifier::external_body] pub fn s_is_match(re: &Regex, text: &str) -> (r: bool) ensures r == re_is_match(*re, text@) { unimplemented!() }
#[verifier::external_body] pub fn s_replace_all(re: &Regex, text: &str, rep: &str) -> (r: CowStr) ensures r@ == re_replace_all(*re, text@, rep@) { unimplemented!() }
#[verifier::external_body] pub fn s_re_replace(re: &Regex, text: &str, rep: &str) -> (r: CowStr) ensures r@ == re_replace_first(*re, text@, rep@) { unimplemented!() }
#[verifier::external_body] pub fn s_re_replacen(re: &Regex, n: usize, text: &str, rep: &str) -> (r: CowStr) { unimplemented!() }
/// the text of the "Invalid regular expression: {}" message
#[verifier::external_body] pub fn s_fmt_regex_err(e: RegexError) -> (r: String) { unimplemented!() }
impl vstd::std_specs::convert::FromSpecImpl<String> for CelValue { open spec fn obeys_from_spec() -> bool { true } open spec fn from_spec(v: String) -> Self { CelValue::String(v) } }
impl vstd::std_specs::convert::FromSpecImpl<CelError> for CelValue { open spec fn obeys_from_spec() -> bool { true } open spec fn from_spec(v: CelError) -> Self { CelValue::Err(v) } }
'''

T = dict(W.TABLE)
T.pop('len', None)
for m, mode in (('replace', 'ref'), ('replacen', 'ref'), ('trim', 'ref'), ('trim_start', 'ref'), ('trim_end', 'ref'), ('trim_start_matches', 'ref'), ('trim_end_matches', 'ref'),
                ('trim_matches', 'ref'), ('split_whitespace', 'ref'), ('remove_matches', 'mut')):
    T[m] = ('s_' + m, mode)
T['to_owned'] = 's_to_owned'
T['to_string'] = 's_to_owned'
TC = dict(T, chars='s_chars', collect='s_collect_chars')                      # `.chars().collect()` (String from its characters)
TR = dict(T, is_match=('s_is_match', 'ref'), replace_all=('s_replace_all', 'ref'), replace=('s_re_replace', 'ref'), replacen=('s_re_replacen', 'ref'))

FMT = ('&format!("Invalid regular expression: {}", err)', '&s_fmt_regex_err(err)', 'R2: format! (text of an error message) -> trampoline')
FMT2 = ('&format!(\n                        "Invalid regular expression: {}",\n                        err\n                    )', '&s_fmt_regex_err(err)', 'R2: format! (text of an error message) -> trampoline')
RNEW = ('Regex::new(needle)', 's_regex_new(needle)', 'R2m: regex::Regex::new -> trampoline over the uninterpreted pattern compiler')


def macro_fn(name, f):
    return A(ret='r', ensures=[
        ('any_argument_is_rejected', 'args@.len() > 0 ==> r is Err'),
        ('the_std_function_of_the_receiver', f'args@.len() == 0 && this is String ==> r is String && r->String_0@ == {f}(this->String_0@)'),
        ('a_receiver_that_is_not_a_string_is_rejected', 'args@.len() == 0 && !(this is String) ==> r is Err'),
    ], method_table=TC, props=P)


def regex_fn(ok):
    return [('a_valid_pattern_gives_the_engine_result_and_an_invalid_one_an_error', f'(match regex_of(needle@) {{ Some(re) => {ok}, None => r is Err }})')]


def build():
    U = Unit('strfuncs')
    U.global_rewrites.append(C.DYN_REWRITE)
    U.raw(C.HEADER, 'header')
    U.raw(C.STANDINS, 'S1 stand-ins')
    C.value_types(U)
    U.raw(C.DERIVED, 'assumed derived impls')
    U.raw(W.PRELUDE + PRELUDE, 'uninterpreted std / regex functions and trampolines')
    U.raw(C.STD_SPECS, 'assumed std specs')
    U.raw(C.AXIOMS, 'axioms')
    U.extract(C.CV, 'impl CelValue', fns=C.ambient(['from_string', 'from_err']), others='stub')
    U.extract(C.CV, 'impl From<&str> for CelValue', fns={'from': A(stub=True)})
    U.extract(C.CV, 'impl From<String> for CelValue', fns={'from': A(ret='r', ensures=[('def', 'r == CelValue::String(val)')], props=P)})
    U.extract(C.CV, 'impl From<CelError> for CelValue', fns={'from': A(ret='r', ensures=[('def', 'r == CelValue::Err(value)')], props=P)})
    U.extract(C.CE, 'impl CelError', fns={'value': A(ret='r', ensures=[('kind', 'r is Value')], props=('C01',)),
                                          'argument': A(ret='r', ensures=[('kind', 'r is Argument')], props=('C01',))}, others='stub')
    U.extract(C.CB, 'impl Into<Vec<u8>> for CelBytes', fns={'into': A(props=('C01',))})
    # ---- plain wrappers -------------------------------------------------------------------------------------------------------
    one = lambda name, spec: A(ret='r', ensures=[('wiring', spec)], method_table=T, props=P)
    U.extract(S + 'replace.rs', 'mod replace', fns={'replace#0': one('replace', 'r@ == str_replace(this@, needle@, to@)')})
    U.extract(S + 'remove.rs', 'mod remove', fns={'remove#0': one('remove', 'r@ == str_remove(this@, pattern@)')})
    U.extract(S + 'trim_end_matches.rs', 'mod trim_end_matches', fns={'trim_end_matches#0': one('trim_end_matches', 'r@ == str_trim_end_matches(this@, pattern@)')})
    U.extract(S + 'trim_start_matches.rs', 'mod trim_start_matches', fns={'trim_start_matches#0': one('trim_start_matches', 'r@ == str_trim_start_matches(this@, pattern@)')})
    U.raw('pub mod split_whitespace { use super::*;', 'file module')
    U.extract(S + 'split_whitespace.rs', 'mod methods', qual_prefix='split_whitespace',
              fns={'split_whitespace#0': A(ret='r', ensures=[('whitespace_separated_pieces_left_to_right', 'strs_as_values(str_split_ws(this@), r@)')], method_table=T, props=P)})
    U.raw('}', 'end file module')
    # ---- regex family: `mod internal` is nested in `mod methods` in the source; here it is emitted as its sibling (D5), found through `use super::*`
    def regex(file, fname, ok_inner, ok_outer, args):
        U.raw(f'pub mod {file} {{ use super::*;\npub mod internal {{ use super::*;', 'file module + nested helper module (D5)')
        U.extract(S + file + '.rs', f'fn {fname}', inside='mod methods/mod internal',
                  annot=A(ret='r', ensures=regex_fn(ok_inner), method_table=TR, rewrites=[RNEW, FMT, FMT2], props=P))
        U.raw('}', 'end helper module')
        outer = file if file != 'matches' else 'matches'
        U.extract(S + file + '.rs', 'mod methods', qual_prefix=file,
                  fns={f'{outer}#0': A(ret='r', ensures=[(n, t.replace('needle@', 'needle@').replace('haystack@', 'this@')) for (n, t) in regex_fn(ok_outer)], props=P)})
        U.raw('}', 'end file module')
    regex('matches', 'matches', 'r is Ok && r->Ok_0 == re_is_match(re, haystack@)', 'r is Ok && r->Ok_0 == re_is_match(re, this@)', 2)
    regex('match_replace', 'match_replace', 'r is String && r->String_0@ == re_replace_all(re, haystack@, rep@)', 'r is String && r->String_0@ == re_replace_all(re, this@, rep@)', 3)
    regex('match_replace_once', 'match_replace_once', 'r is String && r->String_0@ == re_replace_first(re, haystack@, rep@)', 'r is String && r->String_0@ == re_replace_first(re, this@, rep@)', 3)
    # ---- string_func! expansions (R6) -----------------------------------------------------------------------------------------
    with open(os.path.join(U.repo, SF), encoding='utf-8') as f:
        U.sources[VIRT] = rscan.Source(mexpand.virtual_file(f.read(), 'string_func', SF), VIRT)
    for fn, spec in (('to_lower_impl', 'str_lower'), ('to_upper_impl', 'str_upper'), ('trim_impl', 'str_trim'), ('trim_start_impl', 'str_trim_start'), ('trim_end_impl', 'str_trim_end')):
        U.extract(VIRT, f'fn {fn}', annot=macro_fn(fn, spec))
    U.raw(C.FOOTER, 'footer')
    return U
