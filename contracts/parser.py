"""unit parser: the binary precedence levels of the recursive-descent compiler (parse_conditional_or / and / relation / addition /
multiplication) against the CEL grammar written as spec functions over a ghost token stream.
One contract per level decides, together: tree shape + spans (C02, C18), reported identifiers (C17), compile-time folding vs emitted
code (C09) and the emitted code template (C05, C10)."""
from vgen.gen import Unit, A
from . import common as C

HAS_LOOP_CONTRACTS = True
CP = 'rscel/src/compiler/compiler.rs'
GR = 'rscel/src/compiler/grammar.rs'
CPR = 'rscel/src/compiler/compiled_prog.rs'
PR = 'rscel/src/compiler/compiled_prog/preresolved.rs'

AMBIENT = r'''
// ambient surface WITHOUT contracts: the levels below Unary and CelValue's `==`. Nothing verified here calls them; they are present so
// that an edit which starts calling one of them is decided against the level's postcondition instead of failing to type-check.
#[verifier::external_body] pub struct Member { _p: u8 }
#[verifier::external_body] pub struct Primary { _p: u8 }
#[verifier::external_body] pub struct Expr { _p: u8 }
impl FromUnary for Unary { type InputType = Member; #[verifier::external_body] fn from_unary(inner: AstNode<Member>) -> Self { unimplemented!() } }
impl From<bool> for CelValue { #[verifier::external_body] fn from(val: bool) -> Self { unimplemented!() } }
impl PartialEq for CelValue { #[verifier::external_body] fn eq(&self, other: &Self) -> bool { unimplemented!() } }
impl<'l> CelCompiler<'l> {
    #[verifier::external_body] fn parse_member(&mut self) -> CelResult<(CompiledProg, AstNode<Member>)> { unimplemented!() }
    #[verifier::external_body] fn parse_primary(&mut self) -> CelResult<(CompiledProg, AstNode<Primary>)> { unimplemented!() }
    #[verifier::external_body] fn parse_expression(&mut self) -> CelResult<(CompiledProg, AstNode<Expr>)> { unimplemented!() }
}
'''

PRELUDE = r'''
// ---- S1: the grammar below the binary levels, bindings, details ---------------------------------------------------------------
#[verifier::external_body] pub struct Unary { _p: u8 }                 // grammar::Unary (and everything below it)
#[verifier::external_body] pub struct BindContext<'a> { _p: &'a u8 }
#[verifier::external_body] pub struct ProgramDetails { _p: u8 }
impl ProgramDetails { pub uninterp spec fn view(&self) -> Set<Seq<char>>; }      // the reported identifiers

// operators are functions of their operands (their own contracts: units value_arith / value_cmp / value_coll)
pub uninterp spec fn op2(op: ByteCode, a: CelValue, b: CelValue) -> CelValue;
impl vstd::std_specs::ops::AddSpecImpl for CelValue { open spec fn obeys_add_spec() -> bool { true } open spec fn add_req(self, rhs: CelValue) -> bool { true } open spec fn add_spec(self, rhs: CelValue) -> CelValue { op2(ByteCode::Add, self, rhs) } }
impl vstd::std_specs::ops::SubSpecImpl for CelValue { open spec fn obeys_sub_spec() -> bool { true } open spec fn sub_req(self, rhs: CelValue) -> bool { true } open spec fn sub_spec(self, rhs: CelValue) -> CelValue { op2(ByteCode::Sub, self, rhs) } }
impl vstd::std_specs::ops::MulSpecImpl for CelValue { open spec fn obeys_mul_spec() -> bool { true } open spec fn mul_req(self, rhs: CelValue) -> bool { true } open spec fn mul_spec(self, rhs: CelValue) -> CelValue { op2(ByteCode::Mul, self, rhs) } }
impl vstd::std_specs::ops::DivSpecImpl for CelValue { open spec fn obeys_div_spec() -> bool { true } open spec fn div_req(self, rhs: CelValue) -> bool { true } open spec fn div_spec(self, rhs: CelValue) -> CelValue { op2(ByteCode::Div, self, rhs) } }
impl vstd::std_specs::ops::RemSpecImpl for CelValue { open spec fn obeys_rem_spec() -> bool { true } open spec fn rem_req(self, rhs: CelValue) -> bool { true } open spec fn rem_spec(self, rhs: CelValue) -> CelValue { op2(ByteCode::Mod, self, rhs) } }
impl Add for CelValue { type Output = CelValue; #[verifier::external_body] fn add(self, rhs: CelValue) -> CelValue { unimplemented!() } }
impl Sub for CelValue { type Output = CelValue; #[verifier::external_body] fn sub(self, rhs: CelValue) -> CelValue { unimplemented!() } }
impl Mul for CelValue { type Output = CelValue; #[verifier::external_body] fn mul(self, rhs: CelValue) -> CelValue { unimplemented!() } }
impl Div for CelValue { type Output = CelValue; #[verifier::external_body] fn div(self, rhs: CelValue) -> CelValue { unimplemented!() } }
impl Rem for CelValue { type Output = CelValue; #[verifier::external_body] fn rem(self, rhs: CelValue) -> CelValue { unimplemented!() } }

// ---- the Tokenizer trait restated with a ghost model: the token sequence of the source and a cursor ----------------------------
pub trait Tokenizer {
    spec fn toks(&self) -> Seq<TokenWithLoc>;
    spec fn pos(&self) -> nat;
    fn peek(&mut self) -> (r: Result<Option<&TokenWithLoc>, SyntaxError>)
        requires old(self).pos() <= old(self).toks().len(),
        ensures
            final(self).toks() == old(self).toks(),
            final(self).pos() == old(self).pos(),
            r is Ok ==> (match r->Ok_0 {
                Some(t) => old(self).pos() < old(self).toks().len() && *t == old(self).toks()[old(self).pos() as int],
                None => old(self).pos() == old(self).toks().len(),
            });
    fn next(&mut self) -> (r: Result<Option<TokenWithLoc>, SyntaxError>)
        requires old(self).pos() <= old(self).toks().len(),
        ensures
            final(self).toks() == old(self).toks(),
            r is Ok ==> (match r->Ok_0 {
                Some(t) => old(self).pos() < old(self).toks().len() && t == old(self).toks()[old(self).pos() as int] && final(self).pos() == old(self).pos() + 1,
                None => old(self).pos() == old(self).toks().len() && final(self).pos() == old(self).pos(),
            }),
            r is Err ==> final(self).pos() == old(self).pos();
}
impl vstd::std_specs::convert::FromSpecImpl<SyntaxError> for CelError { open spec fn obeys_from_spec() -> bool { true } open spec fn from_spec(v: SyntaxError) -> Self { CelError::Syntax(v) } }
impl vstd::std_specs::convert::FromSpecImpl<ByteCode> for PreResolvedCodePoint { open spec fn obeys_from_spec() -> bool { true } open spec fn from_spec(v: ByteCode) -> Self { PreResolvedCodePoint::Bytecode(v) } }
impl Clone for SourceRange { #[verifier::external_body] fn clone(&self) -> (r: Self) ensures r == *self { unimplemented!() } }
impl Copy for SourceRange {}
impl Clone for SourceLocation { #[verifier::external_body] fn clone(&self) -> (r: Self) ensures r == *self { unimplemented!() } }
impl Copy for SourceLocation {}
impl View for PreResolvedByteCode { type V = Seq<PreResolvedCodePoint>; closed spec fn view(&self) -> Seq<PreResolvedCodePoint> { self.inner@ } }

// the points an `impl IntoIterator<Item = PreResolvedCodePoint>` yields, in order
pub mod ax3 { use super::*; use vstd::prelude::*;
pub uninterp spec fn points_of<I>(i: I) -> Seq<PreResolvedCodePoint>;
pub broadcast axiom fn axiom_points_of_array1(a: [PreResolvedCodePoint; 1]) ensures #[trigger] points_of::<[PreResolvedCodePoint; 1]>(a) == a@;
}
pub use ax3::points_of;

// module paths the compile! macro names (D3: the crate's module tree is flattened into one file)
pub mod compiler { pub mod compiled_prog { pub use crate::{NodeValue, PreResolvedByteCode}; } }
pub mod program { pub use crate::ProgramDetails; }

// AstNode has private fields: spec-level constructor / accessors
pub closed spec fn mk_ast<T>(node: T, loc: SourceRange) -> AstNode<T> { AstNode { loc: loc, node: node } }
pub closed spec fn a_loc<T>(a: AstNode<T>) -> SourceRange { a.loc }
pub closed spec fn a_node<T>(a: AstNode<T>) -> T { a.node }
pub broadcast proof fn lemma_mk_ast<T>(node: T, loc: SourceRange)
    ensures a_loc(#[trigger] mk_ast(node, loc)) == loc, a_node(mk_ast(node, loc)) == node {}
pub proof fn lemma_ast_ext<T>(a: AstNode<T>, b: AstNode<T>) requires a_loc(a) == a_loc(b), a_node(a) == a_node(b) ensures a == b {}

/// the smallest span containing both
pub uninterp spec fn hull(a: SourceRange, b: SourceRange) -> SourceRange;

// ---- what a parse function produces, abstractly -------------------------------------------------------------------------------
pub enum SNode { Const(CelValue), Code(Seq<PreResolvedCodePoint>) }
pub open spec fn node_view(n: NodeValue) -> SNode {
    match n { NodeValue::ConstExpr(c) => SNode::Const(c), NodeValue::Bytecode(b) => SNode::Code(b@) }
}
pub open spec fn code_of(n: SNode) -> Seq<PreResolvedCodePoint> {
    match n { SNode::Const(c) => seq![PreResolvedCodePoint::Bytecode(ByteCode::Push(c))], SNode::Code(s) => s }
}
/// compile!: all children constant => evaluate now with the operator; otherwise the children's code followed by the instruction
pub open spec fn fold2(op: ByteCode, a: SNode, b: SNode) -> SNode {
    match (a, b) {
        (SNode::Const(x), SNode::Const(y)) => SNode::Const(op2(op, x, y)),
        _ => SNode::Code(code_of(a) + code_of(b) + seq![PreResolvedCodePoint::Bytecode(op)]),
    }
}
pub struct P<T> { pub ast: AstNode<T>, pub end: nat, pub lbl: u32, pub details: Set<Seq<char>>, pub node: SNode }

pub open spec fn close_label(n: SNode, label: u32) -> SNode {
    match n { SNode::Code(s) => SNode::Code(s + seq![PreResolvedCodePoint::Label(label)]), SNode::Const(c) => SNode::Const(c) }
}
/// the next lower grammar level (unary / member / primary): uninterpreted here
pub uninterp spec fn sp_unary(toks: Seq<TokenWithLoc>, pos: nat, lbl: u32) -> Option<P<Unary>>;
'''


lower_of = {'mult': 'unary', 'add': 'mult', 'rel': 'add', 'and': 'rel', 'or': 'and'}


def level_spec(name, T, lower, lowerT, ops, binary_ctor):
    """spec functions of one left-associative binary level: X = lower (op lower)*
    ops: list of (Token variant, ByteCode variant, extra ctor fields text)"""
    is_op = ' || '.join(f't is {tok}' for tok, _, _ in ops)
    bc_of = ' '.join(f'Token::{tok} => ByteCode::{bc},' for tok, bc, _ in ops)
    ctor = ' '.join(f'Token::{tok} => {binary_ctor.format(extra=extra)},' for tok, _, extra in ops)
    return f'''
pub open spec fn is_{name}_op(t: Token) -> bool {{ {is_op} }}
pub open spec fn {name}_bytecode(t: Token) -> ByteCode {{ match t {{ {bc_of} _ => ByteCode::Pop }} }}
pub open spec fn {name}_binary(t: Token, lhs: AstNode<{T}>, rhs: AstNode<{lowerT}>) -> {T} {{ match t {{ {ctor} _ => {T}::Unary(rhs) }} }}
/// one more `op operand`: groups to the LEFT, the operand is one whole next-level expression
pub closed spec fn sp_{name}_loop(toks: Seq<TokenWithLoc>, acc: P<{T}>) -> Option<P<{T}>>
    decreases toks.len() - acc.end
{{
    if acc.end < toks.len() && is_{name}_op(toks[acc.end as int].token) {{
        match {lower}(toks, acc.end + 1, acc.lbl) {{
            Some(r) => if r.end > acc.end && r.end <= toks.len() {{
                    sp_{name}_loop(toks, P {{
                        ast: mk_ast({name}_binary(toks[acc.end as int].token, acc.ast, r.ast), hull(a_loc(acc.ast), a_loc(r.ast))),
                        end: r.end, lbl: r.lbl, details: acc.details + r.details,
                        node: fold2({name}_bytecode(toks[acc.end as int].token), acc.node, r.node) }})
                }} else {{ None }},
            None => None,
        }}
    }} else {{ Some(acc) }}
}}
pub closed spec fn sp_{name}(toks: Seq<TokenWithLoc>, pos: nat, lbl: u32) -> Option<P<{T}>> {{
    match {lower}(toks, pos, lbl) {{
        Some(f) => if f.end <= toks.len() {{
                sp_{name}_loop(toks, P {{ ast: mk_ast({T}::Unary(f.ast), a_loc(f.ast)), end: f.end, lbl: f.lbl, details: f.details, node: f.node }})
            }} else {{ None }},
        None => None,
    }}
}}
'''


MULT = level_spec('mult', 'Multiplication', 'sp_unary', 'Unary',
                  [('Multiply', 'Mul', 'MultOp::Mult'), ('Divide', 'Div', 'MultOp::Div'), ('Mod', 'Mod', 'MultOp::Mod')],
                  'Multiplication::Binary {{ lhs: Box::new(lhs), op: {extra}, rhs: rhs }}')
ADD = level_spec('add', 'Addition', 'sp_mult', 'Multiplication',
                 [('Add', 'Add', 'AddOp::Add'), ('Minus', 'Sub', 'AddOp::Sub')],
                 'Addition::Binary {{ lhs: Box::new(lhs), op: {extra}, rhs: rhs }}')


REL = level_spec('rel', 'Relation', 'sp_add', 'Addition',
                 [('LessThan', 'Lt', 'Relop::Lt'), ('LessEqual', 'Le', 'Relop::Le'), ('EqualEqual', 'Eq', 'Relop::Eq'), ('NotEqual', 'Ne', 'Relop::Ne'),
                  ('GreaterEqual', 'Ge', 'Relop::Ge'), ('GreaterThan', 'Gt', 'Relop::Gt'), ('In', 'In', 'Relop::In')],
                 'Relation::Binary {{ lhs: Box::new(lhs), op: {extra}, rhs: rhs }}')


def logic_spec(name, T, lower, lowerT, tok, bc, when):
    """|| and &&: X = lower (op lower)* compiled to  A TEST DUP JMPCOND(when, L) B OP ... L:  with ONE label per level, allocated after
    the first operand; never folded (the jump fragment is code); the label is appended only when the result is code"""
    return f'''
pub open spec fn {name}_jump(label: u32) -> Seq<PreResolvedCodePoint> {{
    seq![PreResolvedCodePoint::Bytecode(ByteCode::Test), PreResolvedCodePoint::Bytecode(ByteCode::Dup), PreResolvedCodePoint::JmpCond {{ when: JmpWhen::{when}, label: label }}]
}}
pub closed spec fn sp_{name}_loop(toks: Seq<TokenWithLoc>, acc: P<{T}>, label: u32) -> Option<P<{T}>>
    decreases toks.len() - acc.end
{{
    if acc.end < toks.len() && toks[acc.end as int].token is {tok} {{
        match {lower}(toks, acc.end + 1, acc.lbl) {{
            Some(r) => if r.end > acc.end && r.end <= toks.len() {{
                    sp_{name}_loop(toks, P {{
                        ast: mk_ast({T}::Binary {{ lhs: Box::new(acc.ast), rhs: r.ast }}, hull(a_loc(acc.ast), a_loc(r.ast))),
                        end: r.end, lbl: r.lbl, details: acc.details + r.details,
                        node: SNode::Code(code_of(acc.node) + {name}_jump(label) + code_of(r.node) + seq![PreResolvedCodePoint::Bytecode(ByteCode::{bc})]) }}, label)
                }} else {{ None }},
            None => None,
        }}
    }} else {{ Some(acc) }}
}}
pub closed spec fn sp_{name}(toks: Seq<TokenWithLoc>, pos: nat, lbl: u32) -> Option<P<{T}>> {{
    match {lower}(toks, pos, lbl) {{
        Some(f) => if f.end <= toks.len() && f.lbl < u32::MAX {{
                match sp_{name}_loop(toks, P {{ ast: mk_ast({T}::Unary(f.ast), a_loc(f.ast)), end: f.end, lbl: (f.lbl + 1) as u32, details: f.details, node: f.node }}, f.lbl) {{
                    Some(r) => Some(P {{ ast: r.ast, end: r.end, lbl: r.lbl, details: r.details, node: close_label(r.node, f.lbl) }}),
                    None => None,
                }}
            }} else {{ None }},
        None => None,
    }}
}}
'''


AND = logic_spec('and', 'ConditionalAnd', 'sp_rel', 'Relation', 'AndAnd', 'And', 'False')
OR = logic_spec('or', 'ConditionalOr', 'sp_and', 'ConditionalAnd', 'OrOr', 'Or', 'True')


def parse_logic(name, T, first, tok, bc, props, lowerT=None):
    """contract of parse_conditional_or / parse_conditional_and"""
    lower = lower_of[name]
    state = 'P { ast: current_ast, end: self.tokenizer.pos(), lbl: self.next_label, details: current_node.details@, node: node_view(current_node.inner) }'
    return A(
        ret='r', attrs=['#[verifier::exec_allows_no_decreases_clause]'],
        requires=[('cursor_in_range', 'old(self).tokenizer.pos() <= old(self).tokenizer.toks().len()')],
        ensures=parse_level(name, T, None, props).ensures,
        before={'current_node.append_if_bytecode(': 'proof { pre_node = node_view(current_node.inner); }',
                'Ok((current_node, current_ast))': '''proof {
    assert(points_of([PreResolvedCodePoint::Label(label)]) =~= seq![PreResolvedCodePoint::Label(label)]);
    if pre_node is Code { assert(node_view(current_node.inner)->Code_0 =~= pre_node->Code_0 + seq![PreResolvedCodePoint::Label(label)]); }
    assert(node_view(current_node.inner) == close_label(pre_node, label));
}'''},
        after={'let label = self.new_label();': f'let ghost first0 = sp_{lower}(old(self).tokenizer.toks(), old(self).tokenizer.pos(), old(self).next_label)->Some_0; let ghost mut pre_node: SNode = node_view(current_node.inner);',
               ('stmt', 'let (rhs_node, rhs_ast) =', 0): 'proof { rhs0 = P { ast: rhs_ast, end: self.tokenizer.pos(), lbl: self.next_label, details: rhs_node.details@, node: node_view(rhs_node.inner) }; }'},
        loops={0: dict(invariant=[
            ('token_stream_untouched', 'self.tokenizer.toks() == old(self).tokenizer.toks() && self.tokenizer.pos() <= self.tokenizer.toks().len() && self.bindings == old(self).bindings'),
            ('progress', 'self.tokenizer.pos() > old(self).tokenizer.pos()'),
            ('one_label_per_level', f'label == first0.lbl && sp_{lower}(old(self).tokenizer.toks(), old(self).tokenizer.pos(), old(self).next_label) == Some(first0) && first0.end <= self.tokenizer.toks().len() && first0.lbl < u32::MAX'),
            ('prefix_parsed_left_grouped', f'''sp_{name}_loop(self.tokenizer.toks(), P {{ ast: mk_ast({T}::Unary(first0.ast), a_loc(first0.ast)), end: first0.end, lbl: (first0.lbl + 1) as u32, details: first0.details, node: first0.node }}, label)
                == sp_{name}_loop(self.tokenizer.toks(), {state}, label)''', props),
        ], ensures=[
            ('no_further_operator_of_this_level', f'''sp_{name}_loop(self.tokenizer.toks(), P {{ ast: mk_ast({T}::Unary(first0.ast), a_loc(first0.ast)), end: first0.end, lbl: (first0.lbl + 1) as u32, details: first0.details, node: first0.node }}, label)
                == Some({state})''', props),
        ], pre=f'let ghost acc0 = {state}; let ghost mut rhs0: P<{lowerT}> = arbitrary();',
           post=f'''proof {{
    let toks = self.tokenizer.toks();
    if acc0.end < toks.len() && toks[acc0.end as int].token is {tok} {{
        assert(sp_{lower}(toks, acc0.end + 1, acc0.lbl) == Some(rhs0));
        assert(current_node.details@ =~= acc0.details + rhs0.details);
        assert(node_view(current_node.inner) is Code);
        assert(node_view(current_node.inner)->Code_0 =~= code_of(acc0.node) + {name}_jump(label) + code_of(rhs0.node) + seq![PreResolvedCodePoint::Bytecode(ByteCode::{bc})]);
        assert(current_ast == mk_ast({T}::Binary {{ lhs: Box::new(acc0.ast), rhs: rhs0.ast }}, hull(a_loc(acc0.ast), a_loc(rhs0.ast))));
    }}
}}''')},
        props=props + ('C01',))


def parse_level(name, T, first, props, arms=(), rlimit=None):
    """contract of parse_<level>"""
    return A(
        ret='r', attrs=['#[verifier::exec_allows_no_decreases_clause]'] + ([f'#[verifier::rlimit({rlimit})]'] if rlimit else []),
        requires=[('cursor_in_range', 'old(self).tokenizer.pos() <= old(self).tokenizer.toks().len()')],
        ensures=[
            ('token_stream_untouched', 'final(self).tokenizer.toks() == old(self).tokenizer.toks() && final(self).tokenizer.pos() <= final(self).tokenizer.toks().len() && final(self).bindings == old(self).bindings'),
            ('grammar_shape_spans_identifiers_and_code', f'''r is Ok ==> ({{
                let p = sp_{name}(old(self).tokenizer.toks(), old(self).tokenizer.pos(), old(self).next_label);
                &&& p is Some
                &&& r->Ok_0.1 == p->Some_0.ast
                &&& final(self).tokenizer.pos() == p->Some_0.end
                &&& final(self).next_label == p->Some_0.lbl
                &&& r->Ok_0.0.details@ == p->Some_0.details
                &&& node_view(r->Ok_0.0.inner) == p->Some_0.node
                &&& final(self).tokenizer.pos() > old(self).tokenizer.pos()
            }})''', props),
        ],
        loops={0: dict(invariant=[
            ('token_stream_untouched', 'self.tokenizer.toks() == old(self).tokenizer.toks() && self.tokenizer.pos() <= self.tokenizer.toks().len() && self.bindings == old(self).bindings'),
            ('progress', 'self.tokenizer.pos() > old(self).tokenizer.pos()'),
            ('prefix_parsed_left_grouped', f'''sp_{name}(old(self).tokenizer.toks(), old(self).tokenizer.pos(), old(self).next_label)
                == sp_{name}_loop(self.tokenizer.toks(), P {{ ast: current_ast, end: self.tokenizer.pos(), lbl: self.next_label, details: current_node.details@, node: node_view(current_node.inner) }})''', props),
        ], ensures=[
            ('no_further_operator_of_this_level', f'''sp_{name}(old(self).tokenizer.toks(), old(self).tokenizer.pos(), old(self).next_label)
                == Some(P {{ ast: current_ast, end: self.tokenizer.pos(), lbl: self.next_label, details: current_node.details@, node: node_view(current_node.inner) }})''', props),
        ])} if first else {},
        arm_begin={f'Some(Token::{tok})': 'let ghost acc0 = P { ast: current_ast, end: self.tokenizer.pos(), lbl: self.next_label, details: current_node.details@, node: node_view(current_node.inner) };'
                   for tok, bc in arms},
        after={('stmt', 'let (rhs_node, rhs_ast) =', k): 'let ghost rhs0 = P { ast: rhs_ast, end: self.tokenizer.pos(), lbl: self.next_label, details: rhs_node.details@, node: node_view(rhs_node.inner) };'
               for k, (tok, bc) in enumerate(arms)},
        arm_end={f'Some(Token::{tok})': f'''proof {{
    let toks = self.tokenizer.toks();
    assert(toks[acc0.end as int].token is {tok});
    assert(is_{name}_op(toks[acc0.end as int].token));
    assert(sp_{lower_of[name]}(toks, acc0.end + 1, acc0.lbl) == Some(rhs0));
    assert(current_node.details@ =~= acc0.details + rhs0.details);
    assert(node_view(current_node.inner) == fold2(ByteCode::{bc}, acc0.node, rhs0.node)) by {{
        if acc0.node is Const && rhs0.node is Const {{ }} else {{
            assert(node_view(current_node.inner)->Code_0 =~= code_of(acc0.node) + code_of(rhs0.node) + seq![PreResolvedCodePoint::Bytecode(ByteCode::{bc})]);
        }}
    }}
    assert(current_ast == mk_ast({name}_binary(toks[acc0.end as int].token, acc0.ast, rhs0.ast), hull(a_loc(acc0.ast), a_loc(rhs0.ast))));
    assert(sp_{name}_loop(toks, acc0) == sp_{name}_loop(toks, P {{ ast: current_ast, end: self.tokenizer.pos(), lbl: self.next_label, details: current_node.details@, node: node_view(current_node.inner) }}));
}}''' for tok, bc in arms},
        props=props + ('C01',))


def build():
    U = Unit('parser')
    U.global_rewrites.append(C.DYN_REWRITE)
    U.raw(C.HEADER, 'header')
    U.raw(C.STANDINS, 'S1 stand-ins')
    C.value_types(U)
    U.extract('rscel/src/compiler/tokens.rs', 'enum FStringSegment')
    U.extract('rscel/src/compiler/tokens.rs', 'enum Token')
    U.extract('rscel/src/compiler/tokens.rs', 'trait AsToken')
    U.extract('rscel/src/compiler/source_location.rs', 'struct SourceLocation')
    U.extract('rscel/src/compiler/source_range.rs', 'struct SourceRange')
    U.extract('rscel/src/compiler/tokenizer.rs', 'struct TokenWithLoc')
    U.extract('rscel/src/compiler/ast_node.rs', 'struct AstNode')
    U.extract(GR, 'trait FromUnary', annot=A(rewrites=[('pub trait FromUnary', 'pub trait FromUnary: Sized', 'Verus requires Self: Sized for a trait method returning Self')]))
    for e in ('enum Relop', 'enum AddOp', 'enum MultOp', 'enum Addition', 'enum Multiplication', 'enum Relation', 'enum ConditionalAnd', 'enum ConditionalOr'):
        U.extract(GR, e)
    U.extract(PR, 'enum PreResolvedCodePoint')
    U.extract(PR, 'struct PreResolvedByteCode')
    U.extract(CPR, 'enum NodeValue')
    U.extract(CPR, 'struct CompiledProg')
    U.extract(CPR, 'macro_rules compile')
    U.extract(CP, 'struct CelCompiler')
    U.raw(C.DERIVED, 'assumed derived impls')
    U.raw(C.VALUE_SPECS + C.TRUTHY_SPEC, 'shared vocabulary')
    # the contract of CelValueDyn::eq is stated on the (restated) trait through a spec method: with `ensures` on the impl Verus cannot
    # tell CelValueDyn::eq from PartialEq::eq once CelValue implements both (E0034 in its generated wrapper)
    U.raw(C.TRAIT_FULL.replace('    fn eq(&self, rhs: &CelValue) -> CelValue;\n', '    spec fn eq_sp(&self, rhs: &CelValue) -> CelValue;\n    fn eq(&self, rhs: &CelValue) -> (r: CelValue) ensures r == self.eq_sp(rhs);\n', 1), 'CelValueDyn restated')
    U.raw(PRELUDE + MULT + ADD + REL + AND + OR, 'grammar specs')
    U.raw(AMBIENT, 'ambient stubs without contracts')
    U.raw(C.STD_SPECS, 'assumed std specs')
    U.raw(C.AXIOMS.replace('ax::axiom_vec_bytecode_len};', 'ax::axiom_vec_bytecode_len, ax3::axiom_points_of_array1};'), 'axioms')
    U.extract(C.CE, 'impl From<SyntaxError> for CelError', fns={'from': A(ret='r', ensures=[('def', 'r == CelError::Syntax(value)')], props=('C01',))})
    U.extract('rscel/src/compiler/tokenizer.rs', 'impl AsToken for Option<&TokenWithLoc>', fns={
        'as_token': A(ret='r', ensures=[('def', '(match *self { Some(s) => r == Some(&s.token), None => r is None })')], props=('C02', 'C01'))})
    U.extract('rscel/src/compiler/tokenizer.rs', 'impl AsToken for &TokenWithLoc', fns={'as_token': A(ret='r', ensures=[('def', 'r == Some(&self.token)')], props=('C01',))})
    U.extract('rscel/src/compiler/tokenizer.rs', 'impl AsToken for TokenWithLoc', fns={'as_token': A(ret='r', ensures=[('def', 'r == Some(&self.token)')], props=('C01',))})
    U.extract('rscel/src/compiler/source_range.rs', 'impl SourceRange', fns={
        'surrounding': A(stub=True, ret='r', ensures=[('smallest_span_containing_both', 'r == hull(self, other)')]),
    }, others='stub')
    U.extract('rscel/src/compiler/ast_node.rs', 'impl<T> AstNode<T>', fns={
        'new': A(ret='r', ensures=[('def', 'r == mk_ast(node, loc)')], props=('C18', 'C01')),
        'range': A(ret='r', ensures=[('def', 'r == a_loc(*self)')], props=('C18', 'C01')),
    }, others='stub')
    U.extract(GR, 'impl FromUnary for Addition', fns={'from_unary': A(ret='r', ensures=[('def', 'r == Addition::Unary(inner)')], props=('C02', 'C01'))})
    U.extract(GR, 'impl FromUnary for Multiplication', fns={'from_unary': A(ret='r', ensures=[('def', 'r == Multiplication::Unary(inner)')], props=('C02', 'C01'))})
    U.extract(GR, 'impl FromUnary for Relation', fns={'from_unary': A(ret='r', ensures=[('def', 'r == Relation::Unary(inner)')], props=('C02', 'C01'))})
    U.extract(GR, 'impl FromUnary for ConditionalAnd', fns={'from_unary': A(ret='r', ensures=[('def', 'r == ConditionalAnd::Unary(inner)')], props=('C02', 'C01'))})
    U.extract(GR, 'impl FromUnary for ConditionalOr', fns={'from_unary': A(ret='r', ensures=[('def', 'r == ConditionalOr::Unary(inner)')], props=('C02', 'C01'))})
    U.extract(GR, 'fn into_unary', annot=A(stub=True, ret='r', ensures=[('wraps', 'r.0 == v.0 && exists|n: U| call_ensures(U::from_unary, (v.1,), n) && r.1 == mk_ast(n, a_loc(v.1))')]))
    U.extract('rscel/src/program/program_details.rs', 'impl ProgramDetails', fns={
        'new': A(stub=True, ret='r', ensures=[('empty', 'r@ == Set::<Seq<char>>::empty()')]),
        'union_from': A(stub=True, ensures=[('union', 'final(self)@ == old(self)@ + other@')]),
    })
    U.extract(PR, 'impl From<ByteCode> for PreResolvedCodePoint', fns={'from': A(ret='r', ensures=[('def', 'r == PreResolvedCodePoint::Bytecode(value)')], props=('C10', 'C01'))})
    U.extract(PR, 'impl PreResolvedByteCode', fns={
        'new': A(ret='r', ensures=[('empty', 'r@.len() == 0')], props=('C10', 'C01')),
        'extend': A(stub=True, ensures=[('appends_in_order', 'final(self)@ == old(self)@ + points_of(byte_codes)')]),
        'into_iter': A(external_body=True, ret='r', ensures=[('yields_the_points_in_order', 'points_of(r) == self@')]),
    })
    binop = lambda op: A(stub=True, ret='r', ensures=[('function_of_operands', f'r == op2(ByteCode::{op}, self, rhs)')])
    U.extract(C.CV, 'impl CelValue', fns={
        'or': A(stub=True, ret='r', ensures=[('function_of_operands', 'r == op2(ByteCode::Or, *self, *rhs)')]),
        'and': binop('And'), 'lt': binop('Lt'), 'le': binop('Le'), 'gt': binop('Gt'), 'ge': binop('Ge'), 'neq': binop('Ne'), 'in_': binop('In'),
    }, others='stub')
    U.extract(C.CV, 'impl CelValueDyn for CelValue', fns={
        'eq': A(stub=True, attrs=['open spec fn eq_sp(&self, rhs: &CelValue) -> CelValue { op2(ByteCode::Eq, *self, *rhs) }']),
    }, others='stub', skip=('any_ref',))
    U.extract(CPR, 'impl CompiledProg', fns={
        'with_code_points': A(stub=True, ret='r', ensures=[('code_without_identifiers', 'node_view(r.inner) == SNode::Code(bytecode@) && r.details@ == Set::<Seq<char>>::empty()')]),
        'append_if_bytecode': A(stub=True, ensures=[('appends_to_code_only', 'node_view(final(self).inner) == (match node_view(old(self).inner) { SNode::Code(s) => SNode::Code(s + points_of(b)), SNode::Const(c) => SNode::Const(c) }) && final(self).details@ == old(self).details@')]),
    })
    U.extract(CPR, 'impl NodeValue', fns={
        'into_bytecode': A(stub=True, ret='r', ensures=[('a_constant_becomes_a_push', 'r@ == code_of(node_view(self))')]),
    })
    U.extract(CP, "impl<'l> CelCompiler<'l>", fns={
        'parse_unary': A(stub=True, ret='r',
                         requires=[('cursor_in_range', 'old(self).tokenizer.pos() <= old(self).tokenizer.toks().len()')],
                         ensures=parse_level('unary', 'Unary', None, ('C02',)).ensures),
        'new_label': A(stub=True, ret='r', ensures=[('fresh_label', 'r == old(self).next_label && final(self).next_label == old(self).next_label + 1 && final(self).tokenizer == old(self).tokenizer && final(self).bindings == old(self).bindings'),
                                                  ('ASSUMED_no_overflow_of_the_label_counter', 'old(self).next_label < u32::MAX')]),
        'parse_relation': parse_level('rel', 'Relation', 'parse_addition', ('C02', 'C18', 'C17', 'C09', 'C10'),
                                      [('LessThan', 'Lt'), ('LessEqual', 'Le'), ('EqualEqual', 'Eq'), ('NotEqual', 'Ne'), ('GreaterEqual', 'Ge'), ('GreaterThan', 'Gt'), ('In', 'In')], rlimit=200),
        'parse_conditional_and': parse_logic('and', 'ConditionalAnd', 'parse_relation', 'AndAnd', 'And', ('C02', 'C18', 'C17', 'C05', 'C09', 'C10'), 'Relation'),
        'parse_conditional_or': parse_logic('or', 'ConditionalOr', 'parse_conditional_and', 'OrOr', 'Or', ('C02', 'C18', 'C17', 'C05', 'C09', 'C10'), 'ConditionalAnd'),
        'parse_multiplication': parse_level('mult', 'Multiplication', 'parse_unary', ('C02', 'C18', 'C17', 'C09', 'C10'), [('Multiply', 'Mul'), ('Divide', 'Div'), ('Mod', 'Mod')]),
        'parse_addition': parse_level('add', 'Addition', 'parse_multiplication', ('C02', 'C18', 'C17', 'C09', 'C10'), [('Add', 'Add'), ('Minus', 'Sub')]),
    })
    U.raw(C.FOOTER, 'footer')
    return U
