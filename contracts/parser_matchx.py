"""unit parser_matchx: parse_match_expression (`match e { case p: x, ... }`) against the grammar: cases in order, each pattern tests a copy
of the scrutinee, only the first matching arm runs, null when none matches; identifiers of scrutinee, patterns and all arms (C05, C10, C17, C02, C18)."""
from . import parser_match as PM

HAS_LOOP_CONTRACTS = True


def build():
    return PM.build(x=True)
