"""unit bindctx: context/bind_context.rs -- the four name tables behind every lookup (C12: which table a name is bound in; C17: `is_bound` = bound
as a variable, a function or a macro, exactly).  The maps are std HashMap<String, _>; their lookups by &str go through trampolines over the map's
abstract content (keys viewed as character sequences)."""
from vgen.gen import Unit, A
from . import common as C

HAS_LOOP_CONTRACTS = False
BC = 'rscel/src/context/bind_context.rs'

PRELUDE = r'''
// S1: the callable types (dyn Fn trait objects): opaque
#[verifier::external_body] pub struct RsCelFunction { _p: u8 }
#[verifier::external_body] pub struct RsCelMacro { _p: u8 }
/// the content of a String-keyed table: which character sequences are keys, and what they map to (HashMap<String, V>: ASSUMED to behave as this map)
pub uninterp spec fn table<V>(m: HashMap<String, V>) -> Map<Seq<char>, V>;
#[verifier::external_body] pub fn t_contains<V>(m: &HashMap<String, V>, k: &str) -> (r: bool) ensures r == table(*m).contains_key(k@) { unimplemented!() }
#[verifier::external_body] pub fn t_get<'m, V>(m: &'m HashMap<String, V>, k: &str) -> (r: Option<&'m V>)
    ensures (match r { Some(v) => table(*m).contains_key(k@) && *v == table(*m)[k@], None => !table(*m).contains_key(k@) }) { unimplemented!() }
#[verifier::external_body] pub fn t_insert<V>(m: &mut HashMap<String, V>, k: String, v: V) ensures table(*final(m)) == table(*old(m)).insert(k@, v) { unimplemented!() }
impl<'a> BindContext<'a> {
    pub closed spec fn vars(&self) -> Map<Seq<char>, CelValue> { table(self.params) }
    pub closed spec fn fns(&self) -> Map<Seq<char>, &'a RsCelFunction> { table(self.funcs) }
    pub closed spec fn mcs(&self) -> Map<Seq<char>, &'a RsCelMacro> { table(self.macros) }
    pub closed spec fn tys(&self) -> Map<Seq<char>, CelValue> { table(self.types) }
}
'''


def build():
    U = Unit('bindctx')
    U.global_rewrites.append(C.DYN_REWRITE)
    U.raw(C.HEADER, 'header')
    U.raw(C.STANDINS, 'S1 stand-ins')
    C.value_types(U)
    U.extract(BC, 'struct BindContext')
    U.raw(C.DERIVED, 'assumed derived impls')
    U.raw(PRELUDE, 'tables')
    MC = {'contains_key': ('t_contains', 'ref'), 'get': ('t_get', 'ref')}
    INS = lambda t, k, v: (f'self.{t}.insert({k}, {v});', f't_insert(&mut self.{t}, {k}, {v});', 'R2m: HashMap::insert -> trampoline over the abstract table (assumed: insert-or-replace)')
    P12 = ('C12', 'C01')
    keep = lambda which: ' && '.join(f'final(self).{t}() == old(self).{t}()' for t in ('vars', 'fns', 'mcs', 'tys') if t != which)
    U.extract(BC, "impl<'a> BindContext<'a>", fns={
        'bind_param': A(ensures=[('binds_or_rebinds_exactly_this_variable', f'final(self).vars() == old(self).vars().insert(name@, value) && {keep("vars")}')], rewrites=[INS('params', 'name.to_owned()', 'value')], props=P12),
        'bind_func': A(ensures=[('binds_or_rebinds_exactly_this_function', f'final(self).fns() == old(self).fns().insert(name@, func) && {keep("fns")}')], rewrites=[INS('funcs', 'name.to_owned()', 'func')], props=P12),
        'bind_macro': A(ensures=[('binds_or_rebinds_exactly_this_macro', f'final(self).mcs() == old(self).mcs().insert(name@, macro_) && {keep("mcs")}')], rewrites=[INS('macros', 'name.to_owned()', 'macro_')], props=P12),
        'get_param': A(ret='r', ensures=[('looks_in_the_variables_only', '(match r { Some(v) => self.vars().contains_key(name@) && *v == self.vars()[name@], None => !self.vars().contains_key(name@) })')], mcalls=MC, props=P12),
        'get_func': A(ret='r', ensures=[('looks_in_the_functions_only', '(match r { Some(v) => self.fns().contains_key(name@) && v == self.fns()[name@], None => !self.fns().contains_key(name@) })')], mcalls=MC, props=P12),
        'get_macro': A(ret='r', ensures=[('looks_in_the_macros_only', '(match r { Some(v) => self.mcs().contains_key(name@) && v == self.mcs()[name@], None => !self.mcs().contains_key(name@) })')], mcalls=MC, props=P12),
        'get_type': A(ret='r', ensures=[('looks_in_the_types_only', '(match r { Some(v) => self.tys().contains_key(name@) && *v == self.tys()[name@], None => !self.tys().contains_key(name@) })')], mcalls=MC, props=P12),
        'is_bound': A(ret='r', ensures=[('bound_as_variable_function_or_macro', 'r == (self.vars().contains_key(name@) || self.fns().contains_key(name@) || self.mcs().contains_key(name@))', ('C17', 'C12'))], mcalls=MC, props=('C17', 'C12', 'C01')),
    }, skip=('new', 'for_compile', 'bind_params_from_json_obj', 'bind_param_proto_msg', 'add_type'))   # add_type: its `r#type` parameter crashes Verus (internal panic in the SMT encoder): not extracted
    U.raw(C.FOOTER, 'footer')
    return U
