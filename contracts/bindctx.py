"""unit bindctx: context/bind_context.rs -- the four name tables behind every lookup (C12: which table a name is bound in; C17: `is_bound` = bound
as a variable, a function or a macro, exactly).  The maps are std HashMap<String, _>; their lookups by &str go through trampolines over the map's
abstract content (keys viewed as character sequences)."""
from vgen.gen import Unit, A
from . import common as C

HAS_LOOP_CONTRACTS = False
BC = 'rscel/src/context/bind_context.rs'

PRELUDE = r'''
// S1: the callable types (dyn Fn trait objects): opaque
#[verifier::external_body] pub struct RsCelFunction { _p: u8 }
#[verifier::external_body] pub struct RsCelMacro { _p: u8 }
/// the content of a String-keyed table: which character sequences are keys, and what they map to (HashMap<String, V>: ASSUMED to behave as this map)
pub uninterp spec fn table<V>(m: HashMap<String, V>) -> Map<Seq<char>, V>;
#[verifier::external_body] pub fn t_contains<V>(m: &HashMap<String, V>, k: &str) -> (r: bool) ensures r == table(*m).contains_key(k@) { unimplemented!() }
#[verifier::external_body] pub fn t_get<'m, V>(m: &'m HashMap<String, V>, k: &str) -> (r: Option<&'m V>)
    ensures (match r { Some(v) => table(*m).contains_key(k@) && *v == table(*m)[k@], None => !table(*m).contains_key(k@) }) { unimplemented!() }
#[verifier::external_body] pub fn t_insert<V>(m: &mut HashMap<String, V>, k: String, v: V) ensures table(*final(m)) == table(*old(m)).insert(k@, v) { unimplemented!() }
// ---- serde_json (binding a JSON object): stand-ins; the conversion of a value is unit json's, known here as a relation ----------------
#[verifier::external_body] pub struct JsonNumber { _p: u8 }
#[verifier::external_body] pub struct JsonMap { _p: u8 }
pub enum Value { Null, Bool(bool), Number(JsonNumber), String(String), Array(Vec<Value>), Object(JsonMap) }
impl JsonMap { pub uninterp spec fn view(&self) -> Map<Seq<char>, Value>; }
pub uninterp spec fn json_conv(v: Value, c: CelValue) -> bool;
#[verifier::external_body] pub fn cel_from_json(v: Value) -> (r: CelValue) ensures json_conv(v, r) { unimplemented!() }
/// serde_json::Map::into_iter, materialized: every entry exactly once
pub open spec fn entries_of_obj(m: Map<Seq<char>, Value>, es: Seq<(String, Value)>) -> bool {
    &&& forall|j: int| 0 <= j < es.len() ==> m.contains_key((#[trigger] es[j]).0@) && m[es[j].0@] == es[j].1
    &&& forall|i: int, j: int| 0 <= i < j < es.len() ==> (#[trigger] es[i]).0@ != (#[trigger] es[j]).0@
    &&& forall|k: Seq<char>| #[trigger] m.contains_key(k) ==> exists|j: int| 0 <= j < es.len() && (#[trigger] es[j]).0@ == k
}
#[verifier::external_body] pub fn json_entries(m: JsonMap) -> (r: Vec<(String, Value)>) ensures entries_of_obj(m@, r@) { unimplemented!() }
/// `map.entry(k).or_insert_with(f)`: inserts f() only when the key is absent (std)
#[verifier::external_body] pub fn t_entry_or_insert_with<V, F: FnOnce() -> V>(m: &mut HashMap<String, V>, k: String, f: F)
    requires call_requires(f, ())
    ensures table(*old(m)).contains_key(k@) ==> table(*final(m)) == table(*old(m)),
        !table(*old(m)).contains_key(k@) ==> exists|v: V| call_ensures(f, (), v) && table(*final(m)) == table(*old(m)).insert(k@, v) { unimplemented!() }
/// binding a JSON object: every entry binds or rebinds its name to the converted value, nothing else changes
pub open spec fn json_bound(obj: Map<Seq<char>, Value>, before: Map<Seq<char>, CelValue>, after: Map<Seq<char>, CelValue>) -> bool {
    &&& forall|k: Seq<char>| #[trigger] obj.contains_key(k) ==> after.contains_key(k) && json_conv(obj[k], after[k])
    &&& forall|k: Seq<char>| !obj.contains_key(k) ==> (#[trigger] after.contains_key(k)) == before.contains_key(k) && (before.contains_key(k) ==> after[k] == before[k])
}
impl<'a> BindContext<'a> {
    pub closed spec fn vars(&self) -> Map<Seq<char>, CelValue> { table(self.params) }
    pub closed spec fn fns(&self) -> Map<Seq<char>, &'a RsCelFunction> { table(self.funcs) }
    pub closed spec fn mcs(&self) -> Map<Seq<char>, &'a RsCelMacro> { table(self.macros) }
    pub closed spec fn tys(&self) -> Map<Seq<char>, CelValue> { table(self.types) }
}
'''


def build():
    U = Unit('bindctx')
    U.global_rewrites.append(C.DYN_REWRITE)
    U.raw(C.HEADER, 'header')
    U.raw(C.STANDINS, 'S1 stand-ins')
    C.value_types(U)
    U.extract(BC, 'struct BindContext')
    U.raw(C.DERIVED, 'assumed derived impls')
    U.raw(PRELUDE, 'tables')
    U.extract(C.CE, 'impl CelError', fns={}, others='stub')
    MC = {'contains_key': ('t_contains', 'ref'), 'get': ('t_get', 'ref')}
    INS = lambda t, k, v: (f'self.{t}.insert({k}, {v});', f't_insert(&mut self.{t}, {k}, {v});', 'R2m: HashMap::insert -> trampoline over the abstract table (assumed: insert-or-replace)')
    P12 = ('C12', 'C01')
    keep = lambda which: ' && '.join(f'final(self).{t}() == old(self).{t}()' for t in ('vars', 'fns', 'mcs', 'tys') if t != which)
    U.extract(BC, "impl<'a> BindContext<'a>", fns={
        'bind_param': A(ensures=[('binds_or_rebinds_exactly_this_variable', f'final(self).vars() == old(self).vars().insert(name@, value) && {keep("vars")}')], rewrites=[INS('params', 'name.to_owned()', 'value')], props=P12),
        'bind_func': A(ensures=[('binds_or_rebinds_exactly_this_function', f'final(self).fns() == old(self).fns().insert(name@, func) && {keep("fns")}')], rewrites=[INS('funcs', 'name.to_owned()', 'func')], props=P12),
        'bind_macro': A(ensures=[('binds_or_rebinds_exactly_this_macro', f'final(self).mcs() == old(self).mcs().insert(name@, macro_) && {keep("mcs")}')], rewrites=[INS('macros', 'name.to_owned()', 'macro_')], props=P12),
        'get_param': A(ret='r', ensures=[('looks_in_the_variables_only', '(match r { Some(v) => self.vars().contains_key(name@) && *v == self.vars()[name@], None => !self.vars().contains_key(name@) })')], mcalls=MC, props=P12),
        'get_func': A(ret='r', ensures=[('looks_in_the_functions_only', '(match r { Some(v) => self.fns().contains_key(name@) && v == self.fns()[name@], None => !self.fns().contains_key(name@) })')], mcalls=MC, props=P12),
        'get_macro': A(ret='r', ensures=[('looks_in_the_macros_only', '(match r { Some(v) => self.mcs().contains_key(name@) && v == self.mcs()[name@], None => !self.mcs().contains_key(name@) })')], mcalls=MC, props=P12),
        'get_type': A(ret='r', ensures=[('looks_in_the_types_only', '(match r { Some(v) => self.tys().contains_key(name@) && *v == self.tys()[name@], None => !self.tys().contains_key(name@) })')], mcalls=MC, props=P12),
        'is_bound': A(ret='r', ensures=[('bound_as_variable_function_or_macro', 'r == (self.vars().contains_key(name@) || self.fns().contains_key(name@) || self.mcs().contains_key(name@))', ('C17', 'C12'))], mcalls=MC, props=('C17', 'C12', 'C01')),
        'bind_params_from_json_obj': A(ret='r', ensures=[
            ('anything_but_an_object_is_rejected', f'!(values is Object) ==> r is Err && final(self).vars() == old(self).vars() && {keep("vars")}'),
            ('every_entry_binds_or_rebinds_its_name_to_the_converted_value', f'values is Object ==> r is Ok && json_bound(values->Object_0@, old(self).vars(), final(self).vars()) && {keep("vars")}')],
            rewrites=[('obj.into_iter()', 'json_entries(obj)', 'R2m: serde_json::Map::into_iter -> materialized entry list (assumed: every entry once)'),
                      ('CelValue::from(value)', 'cel_from_json(value)', 'R1: `From<Value> for CelValue` (verified in unit json) -> trampoline known here by the relation json_conv'),
                      ('self.params.insert(key,', 't_insert(&mut self.params, key,', 'R2m: HashMap::insert -> trampoline over the abstract table (assumed: insert-or-replace)'),
                      ('self.params.entry(', 't_entry_or_insert_with(&mut self.params, ', 'R2m (if present): HashMap::entry(..).or_insert_with(..) -> one trampoline with the std behaviour (insert only when absent)'),
                      (').or_insert_with(', ', ', 'the same chain')],
            body_begin='let ghost v0 = self.vars();',
            after={('stmt', 'let obj =', 0): 'let ghost om = obj@;'},
            loops={0: dict(ghost='it', invariant=[
                ('every_entry_once', 'entries_of_obj(om, it.seq())'),
                ('entries_bound_so_far', 'forall|j: int| 0 <= j < it.index@ ==> self.vars().contains_key((#[trigger] it.seq()[j]).0@) && json_conv(it.seq()[j].1, self.vars()[it.seq()[j].0@])'),
                ('other_names_untouched', 'forall|k: Seq<char>| (forall|j: int| 0 <= j < it.index@ ==> (#[trigger] it.seq()[j]).0@ != k) ==> (#[trigger] self.vars().contains_key(k)) == v0.contains_key(k) && (v0.contains_key(k) ==> self.vars()[k] == v0[k])'),
                ('other_tables_untouched', f'{keep("vars").replace("final(self)", "self")}')],
                pre='let ghost i0 = it.index@ as int; let ghost vb = self.vars(); proof { assert((key, value) == it.seq()[i0]); assert(forall|j: int| 0 <= j < i0 ==> (#[trigger] it.seq()[j]).0@ != it.seq()[i0].0@); }',
                post='''proof {
    assert(self.vars() == vb.insert(it.seq()[i0].0@, self.vars()[it.seq()[i0].0@]));
    assert forall|j: int| 0 <= j < i0 + 1 implies self.vars().contains_key((#[trigger] it.seq()[j]).0@) && json_conv(it.seq()[j].1, self.vars()[it.seq()[j].0@]) by {
        if j < i0 { assert(it.seq()[j].0@ != it.seq()[i0].0@); assert(vb.contains_key(it.seq()[j].0@)); }
    }
}''')},
            props=P12),
    }, skip=('new', 'for_compile', 'bind_param_proto_msg', 'add_type'))   # add_type: its `r#type` parameter crashes Verus (internal panic in the SMT encoder): not extracted
    U.raw(C.FOOTER, 'footer')
    return U
