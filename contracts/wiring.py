"""unit wiring: the one-line wrappers over std / chrono (string predicates, split family, size, calendar accessors).
Their bodies are mechanically rewritten to trampolines over UNINTERPRETED std/chrono functions, so what is proved is the wiring:
which std function is applied to which argument, in which order, with which base adjustment -- not what std computes (C15, C16, C06 size)."""
from vgen.gen import Unit, A
from . import common as C

DFS = 'rscel/src/context/default_funcs/'
TF = DFS + 'time_funcs/'

STR_METHODS = ['contains', 'starts_with', 'ends_with', 'to_lowercase', 'to_uppercase', 'split', 'rsplit', 'map', 'collect', 'len', 'reverse']
TIME_METHODS = ['weekday', 'num_days_from_sunday', 'number_from_sunday', 'time', 'hour', 'minute', 'second', 'month0', 'day', 'ordinal0', 'year',
                'timestamp_subsec_millis', 'num_hours', 'num_minutes', 'num_seconds', 'subsec_nanos', 'with_timezone']
TABLE = {m: 's_' + m for m in STR_METHODS + TIME_METHODS}

PRELUDE = r'''
// ---- uninterpreted std string functions (what they compute is std's; assumed) -----------------------------------------------
pub uninterp spec fn str_contains(hay: Seq<char>, needle: Seq<char>) -> bool;
pub uninterp spec fn str_starts_with(s: Seq<char>, p: Seq<char>) -> bool;
pub uninterp spec fn str_ends_with(s: Seq<char>, p: Seq<char>) -> bool;
pub uninterp spec fn str_lower(s: Seq<char>) -> Seq<char>;
pub uninterp spec fn str_upper(s: Seq<char>) -> Seq<char>;
pub uninterp spec fn str_split(s: Seq<char>, d: Seq<char>) -> Seq<Seq<char>>;     // left-to-right scan
pub uninterp spec fn str_rsplit(s: Seq<char>, d: Seq<char>) -> Seq<Seq<char>>;    // right-to-left scan, pieces right to left
pub uninterp spec fn utf8_len(s: Seq<char>) -> nat;
#[verifier::external_body] pub struct Pieces { _p: u8 }
impl Pieces { pub uninterp spec fn view(&self) -> Seq<Seq<char>>; }
#[verifier::external_body] pub struct MappedPieces { _p: u8 }
impl MappedPieces { pub uninterp spec fn view(&self) -> Seq<Seq<char>>; }
pub open spec fn strs_as_values(p: Seq<Seq<char>>, v: Seq<CelValue>) -> bool {
    v.len() == p.len() && forall|i: int| 0 <= i < v.len() ==> (#[trigger] v[i]) is String && v[i]->String_0@ == p[i]
}
#[verifier::external_body] pub fn s_contains(s: String, n: &String) -> (r: bool) ensures r == str_contains(s@, n@) { unimplemented!() }
#[verifier::external_body] pub fn s_starts_with(s: String, n: &String) -> (r: bool) ensures r == str_starts_with(s@, n@) { unimplemented!() }
#[verifier::external_body] pub fn s_ends_with(s: String, n: &String) -> (r: bool) ensures r == str_ends_with(s@, n@) { unimplemented!() }
#[verifier::external_body] pub fn s_to_lowercase(s: String) -> (r: String) ensures r@ == str_lower(s@) { unimplemented!() }
#[verifier::external_body] pub fn s_to_uppercase(s: String) -> (r: String) ensures r@ == str_upper(s@) { unimplemented!() }
#[verifier::external_body] pub fn s_split(s: String, d: &String) -> (r: Pieces) ensures r@ == str_split(s@, d@) { unimplemented!() }
#[verifier::external_body] pub fn s_rsplit(s: String, d: &String) -> (r: Pieces) ensures r@ == str_rsplit(s@, d@) { unimplemented!() }
#[verifier::external_body] pub fn s_map<F: Fn(&str) -> CelValue>(p: Pieces, f: F) -> (r: MappedPieces) ensures r@ == p@ { unimplemented!() }   // the closure is `|s| s.into()` (str -> CelValue::String)
#[verifier::external_body] pub fn s_collect(p: MappedPieces) -> (r: Vec<CelValue>) ensures strs_as_values(p@, r@) { unimplemented!() }
pub trait SLen { spec fn slen(&self) -> nat; }
impl SLen for String { open spec fn slen(&self) -> nat { utf8_len(self@) } }
impl SLen for CelBytes { open spec fn slen(&self) -> nat { self@.len() } }
impl SLen for Vec<CelValue> { open spec fn slen(&self) -> nat { self@.len() } }
#[verifier::external_body] pub fn s_len<T: SLen>(t: T) -> (r: usize) ensures r == t.slen() { unimplemented!() }

// ---- uninterpreted chrono accessors, generic in the time zone: civil-time fields of the instant in that zone ------------------
#[verifier::external_body] pub struct Tz { _p: u8 }
#[verifier::external_body] pub struct Weekday { _p: u8 }
#[verifier::external_body] pub struct NaiveTime { _p: u8 }
pub uninterp spec fn f_weekday<T>(t: DateTime<T>) -> Weekday;
pub uninterp spec fn days_from_sunday(w: Weekday) -> u32;      // 0 = Sunday
pub uninterp spec fn f_time<T>(t: DateTime<T>) -> NaiveTime;
pub uninterp spec fn f_hour(t: NaiveTime) -> u32;
pub uninterp spec fn f_minute(t: NaiveTime) -> u32;
pub uninterp spec fn f_second(t: NaiveTime) -> u32;
pub uninterp spec fn f_month0<T>(t: DateTime<T>) -> u32;
pub uninterp spec fn f_day<T>(t: DateTime<T>) -> u32;          // 1-based day of month
pub uninterp spec fn f_ordinal0<T>(t: DateTime<T>) -> u32;
pub uninterp spec fn f_year<T>(t: DateTime<T>) -> i32;
pub uninterp spec fn f_millis<T>(t: DateTime<T>) -> u32;
pub uninterp spec fn zone_of(name: Seq<char>) -> Option<Tz>;
pub uninterp spec fn in_zone(t: DateTime<Utc>, z: Tz) -> DateTime<Tz>;
pub uninterp spec fn d_hours(d: Duration) -> i64;
pub uninterp spec fn d_minutes(d: Duration) -> i64;
pub uninterp spec fn d_seconds(d: Duration) -> i64;
pub uninterp spec fn d_subsec_nanos(d: Duration) -> i32;
#[verifier::external_body] pub fn s_weekday<T>(t: DateTime<T>) -> (r: Weekday) ensures r == f_weekday(t) { unimplemented!() }
#[verifier::external_body] pub fn s_num_days_from_sunday(w: Weekday) -> (r: u32) ensures r == days_from_sunday(w), r < 7 { unimplemented!() }
#[verifier::external_body] pub fn s_number_from_sunday(w: Weekday) -> (r: u32) ensures r == days_from_sunday(w) + 1, r <= 7 { unimplemented!() }
#[verifier::external_body] pub fn s_time<T>(t: DateTime<T>) -> (r: NaiveTime) ensures r == f_time(t) { unimplemented!() }
#[verifier::external_body] pub fn s_hour(t: NaiveTime) -> (r: u32) ensures r == f_hour(t) { unimplemented!() }
#[verifier::external_body] pub fn s_minute(t: NaiveTime) -> (r: u32) ensures r == f_minute(t) { unimplemented!() }
#[verifier::external_body] pub fn s_second(t: NaiveTime) -> (r: u32) ensures r == f_second(t) { unimplemented!() }
#[verifier::external_body] pub fn s_month0<T>(t: DateTime<T>) -> (r: u32) ensures r == f_month0(t) { unimplemented!() }
#[verifier::external_body] pub fn s_day<T>(t: DateTime<T>) -> (r: u32) ensures r == f_day(t) { unimplemented!() }
#[verifier::external_body] pub fn s_ordinal0<T>(t: DateTime<T>) -> (r: u32) ensures r == f_ordinal0(t) { unimplemented!() }
#[verifier::external_body] pub fn s_year<T>(t: DateTime<T>) -> (r: i32) ensures r == f_year(t) { unimplemented!() }
#[verifier::external_body] pub fn s_timestamp_subsec_millis<T>(t: DateTime<T>) -> (r: u32) ensures r == f_millis(t) { unimplemented!() }
#[verifier::external_body] pub fn s_num_hours(d: Duration) -> (r: i64) ensures r == d_hours(d) { unimplemented!() }
#[verifier::external_body] pub fn s_num_minutes(d: Duration) -> (r: i64) ensures r == d_minutes(d) { unimplemented!() }
#[verifier::external_body] pub fn s_num_seconds(d: Duration) -> (r: i64) ensures r == d_seconds(d) { unimplemented!() }
#[verifier::external_body] pub fn s_subsec_nanos(d: Duration) -> (r: i32) ensures r == d_subsec_nanos(d), -1_000_000_000 < r < 1_000_000_000 { unimplemented!() }
pub mod helpers_mod { }
/// the named IANA zone or an error; the instant is the same, seen in that zone
#[verifier::external_body] pub fn get_adjusted_datetime(this: DateTime<Utc>, timezone: String) -> (r: CelResult<DateTime<Tz>>)
    ensures zone_of(timezone@) is Some ==> r == Ok::<DateTime<Tz>, CelError>(in_zone(this, zone_of(timezone@)->Some_0)), zone_of(timezone@) is None ==> r is Err { unimplemented!() }
'''


def pred(name, spec):
    return A(ret='r', ensures=[('wiring', f'r == {spec}')], method_table=TABLE, props=('C15', 'C01'))


def accessor(field, base=''):
    """zone-less form and zoned form apply the same accessor with the same base adjustment"""
    P = ('C16', 'C01')
    return {
        0: A(ret='r', ensures=[('utc_field', f'r == {field.format(t="this")}{base}')], method_table=TABLE, props=P),
        1: A(ret='r', ensures=[('same_field_same_base_in_the_named_zone', f'zone_of(timezone@) is Some ==> r is Ok && r->Ok_0 == {field.format(t="in_zone(this, zone_of(timezone@)->Some_0)")}{base}'),
                               ('unknown_zone_fails', 'zone_of(timezone@) is None ==> r is Err')], method_table=TABLE, props=P),
    }


def build():
    U = Unit('wiring')
    U.global_rewrites.append(C.DYN_REWRITE)
    U.raw(C.HEADER, 'header')
    U.raw(C.STANDINS, 'S1 stand-ins')
    C.value_types(U)
    U.raw(C.DERIVED, 'assumed derived impls')
    U.raw(PRELUDE, 'uninterpreted std / chrono functions and trampolines')
    U.raw(C.STD_SPECS, 'assumed std specs')
    U.raw(C.AXIOMS, 'axioms')
    U.extract(C.CV, 'impl CelValue', fns=C.ambient(['from_string']), others='stub')
    U.extract(C.CV, 'impl From<&str> for CelValue', fns={'from': A(stub=True)})
    # ---- strings -----------------------------------------------------------------------------------------------------------
    S = DFS + 'string/'
    U.extract(S + 'contains.rs', 'mod contains_methods', fns={'contains#0': pred('contains', 'str_contains(this@, needle@)')})
    U.extract(S + 'contains.rs', 'mod contains_i_methods', fns={'contains_i#0': pred('contains_i', 'str_contains(str_lower(this@), str_lower(needle@))')})
    U.extract(S + 'starts_with.rs', 'mod starts_with_methods', fns={'starts_with#0': pred('starts_with', 'str_starts_with(this@, needle@)')})
    U.extract(S + 'starts_with.rs', 'mod starts_with_i_methods', fns={'starts_with_i#0': pred('starts_with_i', 'str_starts_with(str_lower(this@), str_lower(needle@))')})
    U.extract(S + 'ends_with.rs', 'mod ends_with_methods', fns={'ends_with#0': pred('ends_with', 'str_ends_with(this@, needle@)')})
    U.extract(S + 'ends_with.rs', 'mod ends_with_i_methods', fns={'ends_with_i#0': pred('ends_with_i', 'str_ends_with(str_lower(this@), str_lower(needle@))')})
    U.extract(S + 'split.rs', 'mod split', fns={'split#0': A(ret='r', ensures=[('left_to_right_pieces', 'strs_as_values(str_split(this@, needle@), r@)')], method_table=TABLE, props=('C15', 'C01'))})
    U.extract(S + 'split.rs', 'mod rsplit', fns={'rsplit#0': A(ret='r', ensures=[('right_to_left_pieces', 'strs_as_values(str_rsplit(this@, needle@), r@)')], method_table=TABLE, props=('C15', 'C01'))})
    sz = lambda who, what: A(ret='r', ensures=[('element_count', f'r == {what}')], method_table=TABLE, props=('C06', 'C15', 'C01'))
    U.raw('pub mod size { use super::*;', 'file module')
    U.extract(DFS + 'size.rs', 'mod methods', qual_prefix='size', fns={
        'size#0': sz('this', 'utf8_len(this@)'), 'size#1': sz('this', 'this@.len()'), 'size#2': sz('this', 'this@.len()'),
        'size#3': sz('arg', 'utf8_len(arg@)'), 'size#4': sz('arg', 'arg@.len()'), 'size#5': sz('arg', 'arg@.len()')})
    U.raw('}', 'end file module')
    # ---- calendar accessors ------------------------------------------------------------------------------------------------
    def acc(file, name, field, base='', extra=None):
        a = accessor(field, base)
        fns = {f'{name}#0': a[0], f'{name}#1': a[1]}
        if extra:
            fns[f'{name}#2'] = extra
        U.raw(f'pub mod {name} {{ use super::*;', 'file module')
        U.extract(TF + file, 'mod methods', fns=fns, qual_prefix=name)
        U.raw('}', 'end file module')
    D = ('C16', 'C01')
    acc('get_date.rs', 'get_date', 'f_day({t}) as i64')
    acc('get_day_of_month.rs', 'get_day_of_month', 'f_day({t}) as i64', ' - 1')
    acc('get_day_of_week.rs', 'get_day_of_week', 'days_from_sunday(f_weekday({t})) as i64')
    acc('get_day_of_year.rs', 'get_day_of_year', 'f_ordinal0({t}) as i64')
    acc('get_full_year.rs', 'get_full_year', 'f_year({t}) as i64')
    acc('get_month.rs', 'get_month', 'f_month0({t}) as i64')
    acc('get_hours.rs', 'get_hours', 'f_hour(f_time({t})) as i64', extra=A(ret='r', ensures=[('total_whole_hours', 'r == d_hours(this)')], method_table=TABLE, props=D))
    acc('get_minutes.rs', 'get_minutes', 'f_minute(f_time({t})) as i64', extra=A(ret='r', ensures=[('total_whole_minutes', 'r == d_minutes(this)')], method_table=TABLE, props=D))
    acc('get_seconds.rs', 'get_seconds', 'f_second(f_time({t})) as i64', extra=A(ret='r', ensures=[('total_whole_seconds', 'r == d_seconds(this)')], method_table=TABLE, props=D))
    acc('get_milliseconds.rs', 'get_milliseconds', 'f_millis({t}) as i64', extra=A(ret='r', ensures=[('millisecond_part', 'd_subsec_nanos(this) >= 0 ==> r == d_subsec_nanos(this) as i64 / 1000000i64'), ('below_one_second', '-1000 < r < 1000')], method_table=TABLE, props=D))
    U.raw(C.FOOTER, 'footer')
    return U
