"""unit wiring: the one-line wrappers over std / chrono (string predicates, split family, size, calendar accessors).
Their bodies are mechanically rewritten to trampolines over UNINTERPRETED std/chrono functions, so what is proved is the wiring:
which std function is applied to which argument, in which order, with which base adjustment -- not what std computes (C15, C16, C06 size)."""
from vgen.gen import Unit, A
from . import common as C

DFS = 'rscel/src/context/default_funcs/'
TF = DFS + 'time_funcs/'

STR_METHODS = ['contains', 'starts_with', 'ends_with', 'to_lowercase', 'to_uppercase', 'split', 'rsplit', 'map', 'collect', 'len']
TIME_METHODS = ['weekday', 'num_days_from_sunday', 'number_from_sunday', 'time', 'hour', 'minute', 'second', 'month0', 'day', 'ordinal0', 'year',
                'timestamp_subsec_millis', 'num_hours', 'num_minutes', 'num_seconds', 'subsec_nanos',
                # not used by the code today; present so that a changed wrapper that reaches for them still type-checks and then fails its contract
                'naive_utc', 'naive_local', 'to_utc', 'month', 'ordinal', 'day0', 'num_days_from_monday', 'number_from_monday', 'hour12', 'nanosecond',
                'timestamp_subsec_micros', 'timestamp_subsec_nanos', 'num_milliseconds', 'num_days', 'subsec_millis', 'abs']
TABLE = {m: 's_' + m for m in STR_METHODS + TIME_METHODS}
for _m in ('contains', 'starts_with', 'ends_with', 'to_lowercase', 'to_uppercase', 'split', 'rsplit', 'len'):
    TABLE[_m] = ('s_' + _m, 'ref')     # std takes &self: the receiver stays usable afterwards
TABLE['is_char_boundary'] = ('s_is_char_boundary', 'ref')
TABLE['chars'] = ('s_char_items', 'ref')      # not used by the code today: a changed wrapper that counts characters type-checks and then fails its contract
TABLE['count'] = 's_count'
TABLE['bytes'] = ('s_bytes', 'ref')
TABLE['map_err'] = 's_map_err'
TABLE['into_bytes'] = 's_into_bytes'
TABLE['as_slice'] = ('s_as_slice', 'ref')
TABLE['into_owned'] = 's_into_owned'
TABLE['split_at'] = ('s_split_at', 'ref')
TABLE['with_timezone'] = ('s_with_timezone', 'ref')
for _m in ('offset_from_local_datetime', 'offset_from_utc_datetime', 'from_local_datetime', 'from_utc_datetime'):
    TABLE[_m] = ('s_' + _m, 'ref')

PRELUDE = r'''
// ---- uninterpreted std string functions (what they compute is std's; assumed) -----------------------------------------------
pub uninterp spec fn str_contains(hay: Seq<char>, needle: Seq<char>) -> bool;
pub uninterp spec fn str_starts_with(s: Seq<char>, p: Seq<char>) -> bool;
pub uninterp spec fn str_ends_with(s: Seq<char>, p: Seq<char>) -> bool;
pub uninterp spec fn str_lower(s: Seq<char>) -> Seq<char>;
pub uninterp spec fn str_upper(s: Seq<char>) -> Seq<char>;
pub uninterp spec fn str_split(s: Seq<char>, d: Seq<char>) -> Seq<Seq<char>>;     // left-to-right scan
pub uninterp spec fn str_rsplit(s: Seq<char>, d: Seq<char>) -> Seq<Seq<char>>;    // right-to-left scan, pieces right to left
pub uninterp spec fn utf8_len(s: Seq<char>) -> nat;
#[verifier::external_body] pub struct Pieces { _p: u8 }
impl Pieces { pub uninterp spec fn view(&self) -> Seq<Seq<char>>; }
#[verifier::external_body] pub struct MappedPieces { _p: u8 }
impl MappedPieces { pub uninterp spec fn view(&self) -> Seq<Seq<char>>; }
pub open spec fn strs_as_values(p: Seq<Seq<char>>, v: Seq<CelValue>) -> bool {
    v.len() == p.len() && forall|i: int| 0 <= i < v.len() ==> (#[trigger] v[i]) is String && v[i]->String_0@ == p[i]
}
#[verifier::external_body] pub fn s_contains(s: &String, n: &String) -> (r: bool) ensures r == str_contains(s@, n@) { unimplemented!() }
#[verifier::external_body] pub fn s_starts_with(s: &String, n: &String) -> (r: bool) ensures r == str_starts_with(s@, n@) { unimplemented!() }
#[verifier::external_body] pub fn s_ends_with(s: &String, n: &String) -> (r: bool) ensures r == str_ends_with(s@, n@) { unimplemented!() }
#[verifier::external_body] pub fn s_to_lowercase(s: &String) -> (r: String) ensures r@ == str_lower(s@) { unimplemented!() }
#[verifier::external_body] pub fn s_to_uppercase(s: &String) -> (r: String) ensures r@ == str_upper(s@) { unimplemented!() }
#[verifier::external_body] pub fn s_split(s: &String, d: &String) -> (r: Pieces) ensures r@ == str_split(s@, d@) { unimplemented!() }
#[verifier::external_body] pub fn s_rsplit(s: &String, d: &String) -> (r: Pieces) ensures r@ == str_rsplit(s@, d@) { unimplemented!() }
#[verifier::external_body] pub fn s_map<F: Fn(&str) -> CelValue>(p: Pieces, f: F) -> (r: MappedPieces) ensures r@ == p@ { unimplemented!() }   // the closure is `|s| s.into()` (str -> CelValue::String)
#[verifier::external_body] pub fn s_collect(p: MappedPieces) -> (r: Vec<CelValue>) ensures strs_as_values(p@, r@) { unimplemented!() }
#[verifier::external_body] pub struct CharsIt { _p: u8 }
impl CharsIt { pub uninterp spec fn n(&self) -> nat; }
#[verifier::external_body] pub fn s_char_items(s: &String) -> (r: CharsIt) ensures r.n() == s@.len() { unimplemented!() }      // one item per character
#[verifier::external_body] pub fn s_bytes(s: &String) -> (r: CharsIt) ensures r.n() == utf8_len(s@) { unimplemented!() }  // one item per UTF-8 byte
#[verifier::external_body] pub fn s_count(c: CharsIt) -> (r: usize) ensures r == c.n() { unimplemented!() }
pub uninterp spec fn char_boundary(s: Seq<char>, at: usize) -> bool;       // `at` is 0, the byte length, or the first byte of a character
pub uninterp spec fn str_split_at(s: Seq<char>, at: usize) -> (Seq<char>, Seq<char>);
#[verifier::external_body] pub fn s_is_char_boundary(s: &String, at: usize) -> (r: bool) ensures r == char_boundary(s@, at) { unimplemented!() }
/// str::split_at PANICS when `at` is not on a character boundary (or past the end): that is its precondition
#[verifier::external_body] pub fn s_split_at(s: &String, at: usize) -> (r: (&str, &str))
    requires char_boundary(s@, at)
    ensures r.0@ == str_split_at(s@, at).0, r.1@ == str_split_at(s@, at).1 { unimplemented!() }
pub assume_specification<T>[ <[T]>::reverse ](s: &mut [T]) ensures final(s)@ == old(s)@.reverse();
// UTF-8: the text a byte string spells, None when it is not valid UTF-8
pub uninterp spec fn utf8_decode(b: Seq<u8>) -> Option<Seq<char>>;
pub uninterp spec fn utf8_encode(s: Seq<char>) -> Seq<u8>;
pub uninterp spec fn utf8_lossy(b: Seq<u8>) -> Seq<char>;
#[verifier::external_body] pub struct FromUtf8Error { _p: u8 }
#[verifier::external_body] pub struct CowStr { _p: u8 }
impl CowStr { pub uninterp spec fn view(&self) -> Seq<char>; }
#[verifier::external_body] pub fn s_from_utf8(v: Vec<u8>) -> (r: Result<String, FromUtf8Error>)
    ensures (match utf8_decode(v@) { Some(t) => r is Ok && r->Ok_0@ == t, None => r is Err }) { unimplemented!() }
#[verifier::external_body] pub fn s_from_utf8_lossy(v: &[u8]) -> (r: CowStr) ensures r@ == utf8_lossy(v@) { unimplemented!() }
#[verifier::external_body] pub fn s_into_owned(c: CowStr) -> (r: String) ensures r@ == c@ { unimplemented!() }
#[verifier::external_body] pub fn s_into_bytes(s: String) -> (r: Vec<u8>) ensures r@ == utf8_encode(s@) { unimplemented!() }
#[verifier::external_body] pub fn s_as_slice(b: &CelBytes) -> (r: &[u8]) ensures r@ == b@ { unimplemented!() }
#[verifier::external_body] pub fn s_map_err<T, E, F, O: FnOnce(E) -> F>(r: Result<T, E>, f: O) -> (out: Result<T, F>)
    ensures r is Ok ==> out is Ok && out->Ok_0 == r->Ok_0, r is Err ==> out is Err { unimplemented!() }
impl vstd::std_specs::convert::IntoSpecImpl<Vec<u8>> for CelBytes { open spec fn obeys_into_spec() -> bool { true } closed spec fn into_spec(self) -> Vec<u8> { self.inner } }
pub broadcast proof fn lemma_celbytes_into(b: CelBytes) ensures #[trigger] <CelBytes as vstd::std_specs::convert::IntoSpec<Vec<u8>>>::into_spec(b)@ == b@ {}
pub trait SLen { spec fn slen(&self) -> nat; }
impl SLen for String { open spec fn slen(&self) -> nat { utf8_len(self@) } }
impl SLen for CelBytes { open spec fn slen(&self) -> nat { self@.len() } }
impl SLen for Vec<CelValue> { open spec fn slen(&self) -> nat { self@.len() } }
#[verifier::external_body] pub fn s_len<T: SLen>(t: &T) -> (r: usize) ensures r == t.slen() { unimplemented!() }

// ---- uninterpreted chrono accessors, generic in the time zone: civil-time fields of the instant in that zone ------------------
#[verifier::external_body] pub struct Tz { _p: u8 }
#[verifier::external_body] pub struct Weekday { _p: u8 }
#[verifier::external_body] pub struct NaiveTime { _p: u8 }
pub uninterp spec fn f_weekday<D>(t: D) -> Weekday;
pub uninterp spec fn days_from_sunday(w: Weekday) -> u32;      // 0 = Sunday
pub uninterp spec fn days_from_monday(w: Weekday) -> u32;
pub uninterp spec fn f_time<D>(t: D) -> NaiveTime;
pub uninterp spec fn f_hour<D>(t: D) -> u32;
pub uninterp spec fn f_hour12<D>(t: D) -> (bool, u32);
pub uninterp spec fn f_minute<D>(t: D) -> u32;
pub uninterp spec fn f_second<D>(t: D) -> u32;
pub uninterp spec fn f_nanosecond<D>(t: D) -> u32;
pub uninterp spec fn f_month0<D>(t: D) -> u32;
pub uninterp spec fn f_month<D>(t: D) -> u32;
pub uninterp spec fn f_day<D>(t: D) -> u32;          // 1-based day of month
pub uninterp spec fn f_day0<D>(t: D) -> u32;
pub uninterp spec fn f_ordinal0<D>(t: D) -> u32;
pub uninterp spec fn f_ordinal<D>(t: D) -> u32;
pub uninterp spec fn f_year<D>(t: D) -> i32;
pub uninterp spec fn f_millis<D>(t: D) -> u32;
pub uninterp spec fn f_micros<D>(t: D) -> u32;
pub uninterp spec fn f_nanos<D>(t: D) -> u32;
pub uninterp spec fn f_naive_utc<D>(t: D) -> NaiveDateTime;
pub uninterp spec fn f_naive_local<D>(t: D) -> NaiveDateTime;
pub uninterp spec fn f_to_utc<D>(t: D) -> DateTime<Utc>;
pub uninterp spec fn zone_of(name: Seq<char>) -> Option<Tz>;
pub uninterp spec fn in_zone(t: DateTime<Utc>, z: Tz) -> DateTime<Tz>;
pub uninterp spec fn d_hours(d: Duration) -> i64;
pub uninterp spec fn d_minutes(d: Duration) -> i64;
pub uninterp spec fn d_seconds(d: Duration) -> i64;
pub uninterp spec fn d_millis(d: Duration) -> i64;
pub uninterp spec fn d_days(d: Duration) -> i64;
pub uninterp spec fn d_subsec_nanos(d: Duration) -> i32;
pub uninterp spec fn d_subsec_millis(d: Duration) -> i32;
pub uninterp spec fn d_abs(d: Duration) -> Duration;
#[verifier::external_body] pub struct NaiveDateTime { _p: u8 }
#[verifier::external_body] pub fn s_weekday<D>(t: D) -> (r: Weekday) ensures r == f_weekday(t) { unimplemented!() }
#[verifier::external_body] pub fn s_num_days_from_sunday(w: Weekday) -> (r: u32) ensures r == days_from_sunday(w), r < 7 { unimplemented!() }
#[verifier::external_body] pub fn s_number_from_sunday(w: Weekday) -> (r: u32) ensures r == days_from_sunday(w) + 1, r <= 7 { unimplemented!() }
#[verifier::external_body] pub fn s_num_days_from_monday(w: Weekday) -> (r: u32) ensures r == days_from_monday(w), r < 7 { unimplemented!() }
#[verifier::external_body] pub fn s_number_from_monday(w: Weekday) -> (r: u32) ensures r == days_from_monday(w) + 1, r <= 7 { unimplemented!() }
#[verifier::external_body] pub fn s_time<D>(t: D) -> (r: NaiveTime) ensures r == f_time(t) { unimplemented!() }
#[verifier::external_body] pub fn s_hour<D>(t: D) -> (r: u32) ensures r == f_hour(t) { unimplemented!() }
#[verifier::external_body] pub fn s_hour12<D>(t: D) -> (r: (bool, u32)) ensures r == f_hour12(t) { unimplemented!() }
#[verifier::external_body] pub fn s_minute<D>(t: D) -> (r: u32) ensures r == f_minute(t) { unimplemented!() }
#[verifier::external_body] pub fn s_second<D>(t: D) -> (r: u32) ensures r == f_second(t) { unimplemented!() }
#[verifier::external_body] pub fn s_nanosecond<D>(t: D) -> (r: u32) ensures r == f_nanosecond(t) { unimplemented!() }
#[verifier::external_body] pub fn s_month0<D>(t: D) -> (r: u32) ensures r == f_month0(t) { unimplemented!() }
#[verifier::external_body] pub fn s_month<D>(t: D) -> (r: u32) ensures r == f_month(t) { unimplemented!() }
#[verifier::external_body] pub fn s_day<D>(t: D) -> (r: u32) ensures r == f_day(t) { unimplemented!() }
#[verifier::external_body] pub fn s_day0<D>(t: D) -> (r: u32) ensures r == f_day0(t) { unimplemented!() }
#[verifier::external_body] pub fn s_ordinal0<D>(t: D) -> (r: u32) ensures r == f_ordinal0(t) { unimplemented!() }
#[verifier::external_body] pub fn s_ordinal<D>(t: D) -> (r: u32) ensures r == f_ordinal(t) { unimplemented!() }
#[verifier::external_body] pub fn s_year<D>(t: D) -> (r: i32) ensures r == f_year(t) { unimplemented!() }
#[verifier::external_body] pub fn s_timestamp_subsec_millis<D>(t: D) -> (r: u32) ensures r == f_millis(t) { unimplemented!() }
#[verifier::external_body] pub fn s_timestamp_subsec_micros<D>(t: D) -> (r: u32) ensures r == f_micros(t) { unimplemented!() }
#[verifier::external_body] pub fn s_timestamp_subsec_nanos<D>(t: D) -> (r: u32) ensures r == f_nanos(t) { unimplemented!() }
#[verifier::external_body] pub fn s_naive_utc<D>(t: D) -> (r: NaiveDateTime) ensures r == f_naive_utc(t) { unimplemented!() }
#[verifier::external_body] pub fn s_naive_local<D>(t: D) -> (r: NaiveDateTime) ensures r == f_naive_local(t) { unimplemented!() }
#[verifier::external_body] pub fn s_to_utc<D>(t: D) -> (r: DateTime<Utc>) ensures r == f_to_utc(t) { unimplemented!() }
#[verifier::external_body] pub fn s_num_hours(d: Duration) -> (r: i64) ensures r == d_hours(d) { unimplemented!() }
#[verifier::external_body] pub fn s_num_minutes(d: Duration) -> (r: i64) ensures r == d_minutes(d) { unimplemented!() }
#[verifier::external_body] pub fn s_num_nanoseconds(d: Duration) -> (r: Option<i64>) { unimplemented!() }   // chrono: None beyond ~292 years
#[verifier::external_body] pub fn f_div(a: f64, b: f64) -> f64 { unimplemented!() }
#[verifier::external_body] pub fn f_add(a: f64, b: f64) -> f64 { unimplemented!() }
#[verifier::external_body] pub fn i64_f(a: i64) -> f64 { unimplemented!() }
#[verifier::external_body] pub fn i32_f(a: i32) -> f64 { unimplemented!() }
#[verifier::external_body] pub fn s_num_seconds(d: Duration) -> (r: i64) ensures r == d_seconds(d) { unimplemented!() }
#[verifier::external_body] pub fn s_num_milliseconds(d: Duration) -> (r: i64) ensures r == d_millis(d) { unimplemented!() }
#[verifier::external_body] pub fn s_num_days(d: Duration) -> (r: i64) ensures r == d_days(d) { unimplemented!() }
#[verifier::external_body] pub fn s_subsec_nanos(d: Duration) -> (r: i32) ensures r == d_subsec_nanos(d), -1_000_000_000 < r < 1_000_000_000 { unimplemented!() }
#[verifier::external_body] pub fn s_subsec_millis(d: Duration) -> (r: i32) ensures r == d_subsec_millis(d), -1000 < r < 1000 { unimplemented!() }
#[verifier::external_body] pub fn s_abs(d: Duration) -> (r: Duration) ensures r == d_abs(d) { unimplemented!() }
// ---- str::parse of the numeric types (std): the number a text spells, None when it is not one (uninterpreted) ----------------------
pub uninterp spec fn parse_i64(s: Seq<char>) -> Option<i64>;
pub uninterp spec fn parse_u64(s: Seq<char>) -> Option<u64>;
pub uninterp spec fn parse_f64(s: Seq<char>) -> Option<f64>;
#[verifier::external_body] pub struct NumParseError { _p: u8 }
#[verifier::external_body] pub fn s_parse_i64(s: &String) -> (r: Result<i64, NumParseError>) ensures (match parse_i64(s@) { Some(v) => r is Ok && r->Ok_0 == v, None => r is Err }) { unimplemented!() }
#[verifier::external_body] pub fn s_parse_u64(s: &String) -> (r: Result<u64, NumParseError>) ensures (match parse_u64(s@) { Some(v) => r is Ok && r->Ok_0 == v, None => r is Err }) { unimplemented!() }
#[verifier::external_body] pub fn s_parse_f64(s: &String) -> (r: Result<f64, NumParseError>) ensures (match parse_f64(s@) { Some(v) => r is Ok && r->Ok_0 == v, None => r is Err }) { unimplemented!() }
#[verifier::external_body] pub fn s_conv_msg(arg: &String) -> (r: String) { unimplemented!() }       // text of an error message
pub mod helpers_mod { }
// ---- chrono-tz: the zone a name denotes, and the same instant seen in a zone ------------------------------------------------------
#[verifier::external_body] pub struct TzParseError { _p: u8 }
#[verifier::external_body] pub fn s_tz_from_str(name: &String) -> (r: Result<Tz, TzParseError>)
    ensures (match zone_of(name@) { Some(z) => r is Ok && r->Ok_0 == z, None => r is Err }) { unimplemented!() }
#[verifier::external_body] pub fn s_with_timezone(t: &DateTime<Utc>, z: &Tz) -> (r: DateTime<Tz>) ensures r == in_zone(*t, *z) { unimplemented!() }
// other ways chrono offers to build a zoned time: NO contract (present so that a changed helper that reaches for them is decided
// against the helper's postcondition instead of failing to type-check)
#[verifier::external_body] pub struct TzOffset { _p: u8 }
pub enum LocalResult<T> { None, Single(T), Ambiguous(T, T) }
#[verifier::external_body] pub fn s_offset_from_local_datetime(z: &Tz, n: &NaiveDateTime) -> LocalResult<TzOffset> { unimplemented!() }
#[verifier::external_body] pub fn s_offset_from_utc_datetime(z: &Tz, n: &NaiveDateTime) -> TzOffset { unimplemented!() }
#[verifier::external_body] pub fn s_from_local_datetime(z: &Tz, n: &NaiveDateTime) -> LocalResult<DateTime<Tz>> { unimplemented!() }
#[verifier::external_body] pub fn s_from_utc_datetime(z: &Tz, n: &NaiveDateTime) -> DateTime<Tz> { unimplemented!() }
impl DateTime<Tz> { #[verifier::external_body] pub fn from_naive_utc_and_offset(n: NaiveDateTime, o: TzOffset) -> Self { unimplemented!() } }
'''


def pred(name, spec):
    return A(ret='r', ensures=[('wiring', f'r == {spec}')], method_table=TABLE, props=('C15', 'C01'))


def accessor(field, base=''):
    """zone-less form and zoned form apply the same accessor with the same base adjustment"""
    P = ('C16', 'C01')
    return {
        0: A(ret='r', ensures=[('utc_field', f'r == {field.format(t="this")}{base}')], method_table=TABLE, props=P),
        1: A(ret='r', ensures=[('same_field_same_base_in_the_named_zone', f'zone_of(timezone@) is Some ==> r is Ok && r->Ok_0 == {field.format(t="in_zone(this, zone_of(timezone@)->Some_0)")}{base}'),
                               ('unknown_zone_fails', 'zone_of(timezone@) is None ==> r is Err')], method_table=TABLE, props=P),
    }


def build():
    U = Unit('wiring')
    U.global_rewrites.append(C.DYN_REWRITE)
    U.raw(C.HEADER, 'header')
    U.raw(C.STANDINS, 'S1 stand-ins')
    C.value_types(U)
    U.raw(C.DERIVED, 'assumed derived impls')
    U.raw(PRELUDE, 'uninterpreted std / chrono functions and trampolines')
    U.raw(C.STD_SPECS, 'assumed std specs')
    U.raw(C.AXIOMS, 'axioms')
    U.extract(C.CV, 'impl CelValue', fns=C.ambient(['from_string']) | {'from_bytes': A(stub=True, ret='r', ensures=[('def', 'r is Bytes && r->Bytes_0@ == val@')])}, others='stub')
    U.extract(C.CV, 'impl From<&str> for CelValue', fns={'from': A(stub=True)})
    # ---- strings -----------------------------------------------------------------------------------------------------------
    S = DFS + 'string/'
    U.extract(S + 'contains.rs', 'mod contains_methods', fns={'contains#0': pred('contains', 'str_contains(this@, needle@)')})
    U.extract(S + 'contains.rs', 'mod contains_i_methods', fns={'contains_i#0': pred('contains_i', 'str_contains(str_lower(this@), str_lower(needle@))')})
    U.extract(S + 'starts_with.rs', 'mod starts_with_methods', fns={'starts_with#0': pred('starts_with', 'str_starts_with(this@, needle@)')})
    U.extract(S + 'starts_with.rs', 'mod starts_with_i_methods', fns={'starts_with_i#0': pred('starts_with_i', 'str_starts_with(str_lower(this@), str_lower(needle@))')})
    U.extract(S + 'ends_with.rs', 'mod ends_with_methods', fns={'ends_with#0': pred('ends_with', 'str_ends_with(this@, needle@)')})
    U.extract(S + 'ends_with.rs', 'mod ends_with_i_methods', fns={'ends_with_i#0': pred('ends_with_i', 'str_ends_with(str_lower(this@), str_lower(needle@))')})
    U.extract(S + 'split.rs', 'mod split', fns={'split#0': A(ret='r', ensures=[('left_to_right_pieces', 'strs_as_values(str_split(this@, needle@), r@)')], method_table=TABLE, props=('C15', 'C01'))})
    U.extract(S + 'split.rs', 'mod rsplit', fns={'rsplit#0': A(ret='r', ensures=[('right_to_left_pieces', 'strs_as_values(str_rsplit(this@, needle@), r@)')], method_table=TABLE, props=('C15', 'C01'))})
    U.extract(C.CE, 'impl CelError', fns={'value': A(ret='r', ensures=[('kind', 'r is Value')], props=('C01',))}, others='stub')
    U.extract(S + 'split.rs', 'mod split_at', fns={'split_at#0': A(ret='r', ensures=[
        ('negative_index_is_an_error', 'at < 0 ==> r is Err'),
        ('index_off_a_character_boundary_is_an_error', 'at >= 0 && !char_boundary(this@, at as usize) ==> r is Err'),
        ('two_pieces_at_the_boundary', 'at >= 0 && char_boundary(this@, at as usize) ==> r is Ok && r->Ok_0@.len() == 2'),
    ], method_table=TABLE, props=('C15', 'C01'))})
    U.extract(C.CB, 'impl Into<Vec<u8>> for CelBytes', fns={'into': A(props=('C01',))})
    U.raw('pub mod string_type { use super::*;', 'file module')
    U.extract('rscel/src/context/type_funcs/string_type.rs', 'mod methods', qual_prefix='string_type', fns={
        'string#3': A(ret='r', ensures=[('identity', 'r == arg')], method_table=TABLE, props=('C14', 'C01')),
        'string#6': A(ret='r', method_table=dict(TABLE, num_nanoseconds='s_num_nanoseconds'), props=('C01', 'C14'),
                      rewrites=[('nanos as f64 / 1_000_000_000.0', 'f_div(i64_f(nanos), 1_000_000_000.0)', 'R2: f64 arithmetic / int -> double casts -> trampolines (Verus gives f64 operators an unprovable precondition)'),
                                ('arg.num_seconds() as f64 + arg.subsec_nanos() as f64 / 1_000_000_000.0', 'f_add(i64_f(arg.num_seconds()), f_div(i32_f(arg.subsec_nanos()), 1_000_000_000.0))', 'R2: f64 arithmetic -> trampolines')]),
        'string#4': A(ret='r', ensures=[('the_text_the_bytes_spell_or_an_error_for_invalid_utf8',
                                          '(match utf8_decode(arg@) { Some(t) => r is Ok && r->Ok_0@ == t, None => r is Err })')],
                      ret_type='CelResult<String>', method_table=TABLE, rewrites=[('String::from_utf8_lossy', 's_from_utf8_lossy', 'R2m: std associated function -> trampoline over an uninterpreted function'),
                                                    ('String::from_utf8', 's_from_utf8', 'R2m: std associated function -> trampoline over an uninterpreted function'),
                                                    ('|_|', '|_e|', 'Verus does not accept the `_` pattern as a closure parameter')], props=('C14', 'C01')),
    })
    U.raw('}', 'end file module')
    U.raw('pub mod bytes_type { use super::*;', 'file module')
    U.extract('rscel/src/context/type_funcs/bytes_type.rs', 'mod methods', qual_prefix='bytes_type', fns={
        'bytes#0': A(ret='r', ensures=[('utf8_encoding', 'r is Bytes && r->Bytes_0@ == utf8_encode(arg@)')], method_table=TABLE, props=('C14', 'C01')),
        'bytes#1': A(ret='r', ensures=[('identity', 'r == CelValue::Bytes(arg)')], method_table=TABLE, props=('C14', 'C01')),
    })
    U.raw('}', 'end file module')
    def from_text(kind, ty, k):
        return A(ret='r', ensures=[('the_number_std_reads_from_exactly_this_text_or_an_error', f'(match parse_{ty}(arg@) {{ Some(v) => r is Ok && r->Ok_0 == v, None => r is Err }})')],
                 rewrites=[(f'arg.parse::<{ty}>()', f's_parse_{ty}(&arg)', 'R2m: str::parse -> trampoline over the uninterpreted std parser (which text is handed to it is what is pinned)'),
                           ('&format!("int conversion invalid for \\"{}\\"", arg)', '&s_conv_msg(&arg)', 'R2: format! (text of an error message) -> trampoline'),
                           ('|_|', '|_e|', 'Verus does not accept the `_` pattern as a closure parameter')],
                 method_table=TABLE, props=('C14', 'C01'))
    for kind, ty, k in (('int', 'i64', 4), ('uint', 'u64', 4), ('double', 'f64', 4)):
        U.raw(f'pub mod {kind}_type {{ use super::*;', 'file module')
        U.extract(f'rscel/src/context/type_funcs/{kind}_type.rs', 'mod methods', qual_prefix=f'{kind}_type', fns={f'{kind}#{k}': from_text(kind, ty, k)})
        U.raw('}', 'end file module')
    sz = lambda who, what: A(ret='r', ensures=[('element_count', f'r == {what}')], method_table=TABLE, props=('C06', 'C15', 'C01'))
    U.raw('pub mod size { use super::*;', 'file module')
    U.extract(DFS + 'size.rs', 'mod methods', qual_prefix='size', fns={
        'size#0': sz('this', 'utf8_len(this@)'), 'size#1': sz('this', 'this@.len()'), 'size#2': sz('this', 'this@.len()'),
        'size#3': sz('arg', 'utf8_len(arg@)'), 'size#4': sz('arg', 'arg@.len()'), 'size#5': sz('arg', 'arg@.len()')})
    U.raw('}', 'end file module')
    U.extract(TF + 'helpers.rs', 'fn get_adjusted_datetime', annot=A(
        ret='r', ensures=[('the_same_instant_in_the_named_zone', 'zone_of(timezone@) is Some ==> r == Ok::<DateTime<Tz>, CelError>(in_zone(this, zone_of(timezone@)->Some_0))'),
                          ('unknown_zone_fails', 'zone_of(timezone@) is None ==> r is Err')],
        method_table=TABLE, props=('C16', 'C01'),
        rewrites=[('Tz::from_str(&timezone)', 's_tz_from_str(&timezone)', 'R2m: chrono_tz::Tz::from_str -> trampoline over the uninterpreted zone table'),
                  ('|_|', '|_e|', 'Verus does not accept the `_` pattern as a closure parameter')]))
    # ---- calendar accessors ------------------------------------------------------------------------------------------------
    def acc(file, name, field, base='', extra=None):
        a = accessor(field, base)
        fns = {f'{name}#0': a[0], f'{name}#1': a[1]}
        if extra:
            fns[f'{name}#2'] = extra
        U.raw(f'pub mod {name} {{ use super::*;', 'file module')
        U.extract(TF + file, 'mod methods', fns=fns, qual_prefix=name)
        U.raw('}', 'end file module')
    D = ('C16', 'C01')
    acc('get_date.rs', 'get_date', 'f_day({t}) as i64')
    acc('get_day_of_month.rs', 'get_day_of_month', 'f_day({t}) as i64', ' - 1')
    acc('get_day_of_week.rs', 'get_day_of_week', 'days_from_sunday(f_weekday({t})) as i64')
    acc('get_day_of_year.rs', 'get_day_of_year', 'f_ordinal0({t}) as i64')
    acc('get_full_year.rs', 'get_full_year', 'f_year({t}) as i64')
    acc('get_month.rs', 'get_month', 'f_month0({t}) as i64')
    acc('get_hours.rs', 'get_hours', 'f_hour(f_time::<_>({t})) as i64', extra=A(ret='r', ensures=[('total_whole_hours', 'r == d_hours(this)')], method_table=TABLE, props=D))
    acc('get_minutes.rs', 'get_minutes', 'f_minute(f_time({t})) as i64', extra=A(ret='r', ensures=[('total_whole_minutes', 'r == d_minutes(this)')], method_table=TABLE, props=D))
    acc('get_seconds.rs', 'get_seconds', 'f_second(f_time({t})) as i64', extra=A(ret='r', ensures=[('total_whole_seconds', 'r == d_seconds(this)')], method_table=TABLE, props=D))
    acc('get_milliseconds.rs', 'get_milliseconds', 'f_millis({t}) as i64', extra=A(ret='r', ensures=[('millisecond_part', 'd_subsec_nanos(this) >= 0 ==> r == d_subsec_nanos(this) as i64 / 1000000i64'), ('below_one_second', '-1000 < r < 1000')], method_table=TABLE, props=D))
    U.raw(C.FOOTER, 'footer')
    return U
