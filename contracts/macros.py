"""unit macros: all/exists/exists_one/filter/map/reduce/has/coalesce against their defining folds (C07, C08, C12 depth inheritance, C01)"""
from vgen.gen import Unit, A
from . import common as C

M = 'rscel/src/context/default_macros/'
HAS_LOOP_CONTRACTS = True

SPECS = r'''
// ---- the interpreter as an abstract callee ---------------------------------------------------------------------------------
/// what an evaluation can see: the stored programs (opaque), the variable bindings, and the call depth already used
pub struct Env { pub cel: int, pub vars: Map<Seq<char>, CelValue>, pub depth: nat }
pub uninterp spec fn spec_eval(env: Env, bc: CelByteCode, resolve: bool) -> CelResult<CelValue>;
pub uninterp spec fn spec_ident(bc: CelByteCode) -> CelResult<String>;

#[verifier::external_body] pub struct CelContext { _p: u8 }
#[verifier::external_body] pub struct BindContext<'a> { _p: &'a u8 }
#[verifier::external_body] pub struct Interpreter<'a> { _p: &'a u8 }
impl CelContext { pub uninterp spec fn view(&self) -> int; }
impl<'a> BindContext<'a> { pub uninterp spec fn view(&self) -> Map<Seq<char>, CelValue>; }
impl<'a> Interpreter<'a> { pub uninterp spec fn view(&self) -> Env; }

/// a body run for one element: the loop variable shadows an outer binding of the same name, everything else stays visible,
/// the stored programs and the call depth are the caller's
pub open spec fn body_env(ctx: Env, vars: Map<Seq<char>, CelValue>) -> Env { Env { cel: ctx.cel, vars: vars, depth: ctx.depth } }

pub enum Fold { Fail(CelError), Items(Seq<CelValue>) }

pub open spec fn spec_all(ctx: Env, vars: Map<Seq<char>, CelValue>, name: Seq<char>, list: Seq<CelValue>, i: int, body: CelByteCode) -> CelValue
    decreases list.len() - i
{
    if i >= list.len() { CelValue::Bool(true) } else {
        let vars2 = vars.insert(name, list[i]);
        match spec_eval(body_env(ctx, vars2), body, true) {
            Err(e) => CelValue::Err(e),
            Ok(v) => if !spec_truthy(v) { CelValue::Bool(false) } else { spec_all(ctx, vars2, name, list, i + 1, body) },
        }
    }
}
pub open spec fn spec_exists(ctx: Env, vars: Map<Seq<char>, CelValue>, name: Seq<char>, list: Seq<CelValue>, i: int, body: CelByteCode) -> CelValue
    decreases list.len() - i
{
    if i >= list.len() { CelValue::Bool(false) } else {
        let vars2 = vars.insert(name, list[i]);
        match spec_eval(body_env(ctx, vars2), body, true) {
            Err(e) => CelValue::Err(e),
            Ok(v) => if spec_truthy(v) { CelValue::Bool(true) } else { spec_exists(ctx, vars2, name, list, i + 1, body) },
        }
    }
}
/// exactly one: the second hit decides (false) and stops the evaluation
pub open spec fn spec_exists_one(ctx: Env, vars: Map<Seq<char>, CelValue>, name: Seq<char>, list: Seq<CelValue>, i: int, hits: int, body: CelByteCode) -> CelValue
    decreases list.len() - i
{
    if i >= list.len() { CelValue::Bool(hits == 1) } else {
        let vars2 = vars.insert(name, list[i]);
        match spec_eval(body_env(ctx, vars2), body, true) {
            Err(e) => CelValue::Err(e),
            Ok(v) => if spec_truthy(v) {
                    if hits + 1 > 1 { CelValue::Bool(false) } else { spec_exists_one(ctx, vars2, name, list, i + 1, hits + 1, body) }
                } else { spec_exists_one(ctx, vars2, name, list, i + 1, hits, body) },
        }
    }
}
/// filter keeps the elements with a truthy predicate, in order and multiplicity
pub open spec fn spec_filter(ctx: Env, vars: Map<Seq<char>, CelValue>, name: Seq<char>, list: Seq<CelValue>, i: int, acc: Seq<CelValue>, pred: CelByteCode) -> Fold
    decreases list.len() - i
{
    if i >= list.len() { Fold::Items(acc) } else {
        let vars2 = vars.insert(name, list[i]);
        match spec_eval(body_env(ctx, vars2), pred, true) {
            Err(e) => Fold::Fail(e),
            Ok(v) => spec_filter(ctx, vars2, name, list, i + 1, if spec_truthy(v) { acc.push(list[i]) } else { acc }, pred),
        }
    }
}
/// map(x, e) collects e for every element
pub open spec fn spec_map2(ctx: Env, vars: Map<Seq<char>, CelValue>, name: Seq<char>, list: Seq<CelValue>, i: int, acc: Seq<CelValue>, e: CelByteCode) -> Fold
    decreases list.len() - i
{
    if i >= list.len() { Fold::Items(acc) } else {
        let vars2 = vars.insert(name, list[i]);
        match spec_eval(body_env(ctx, vars2), e, true) {
            Err(err) => Fold::Fail(err),
            Ok(v) => spec_map2(ctx, vars2, name, list, i + 1, acc.push(v), e),
        }
    }
}
/// map(x, p, e) collects e only for the elements with truthy p (e is not evaluated for the others)
pub open spec fn spec_map3(ctx: Env, vars: Map<Seq<char>, CelValue>, name: Seq<char>, list: Seq<CelValue>, i: int, acc: Seq<CelValue>, p: CelByteCode, e: CelByteCode) -> Fold
    decreases list.len() - i
{
    if i >= list.len() { Fold::Items(acc) } else {
        let vars2 = vars.insert(name, list[i]);
        match spec_eval(body_env(ctx, vars2), p, true) {
            Err(err) => Fold::Fail(err),
            Ok(pv) => if spec_truthy(pv) {
                    match spec_eval(body_env(ctx, vars2), e, true) {
                        Err(err) => Fold::Fail(err),
                        Ok(v) => spec_map3(ctx, vars2, name, list, i + 1, acc.push(v), p, e),
                    }
                } else { spec_map3(ctx, vars2, name, list, i + 1, acc, p, e) },
        }
    }
}
/// reduce(acc, x, step, seed) threads acc from seed through step, left to right
pub open spec fn spec_reduce(ctx: Env, vars: Map<Seq<char>, CelValue>, cur: Seq<char>, next: Seq<char>, list: Seq<CelValue>, i: int, acc: CelValue, step: CelByteCode) -> CelValue
    decreases list.len() - i
{
    if i >= list.len() { acc } else {
        let vars2 = vars.insert(next, list[i]).insert(cur, acc);
        match spec_eval(body_env(ctx, vars2), step, true) {
            Err(e) => CelValue::Err(e),
            Ok(v) => spec_reduce(ctx, vars2, cur, next, list, i + 1, v, step),
        }
    }
}
pub open spec fn fold_result(f: Fold, r: CelValue) -> bool {
    match f {
        Fold::Fail(e) => r == CelValue::Err(e),
        Fold::Items(s) => r is List && r->List_0@ == s,
    }
}

/// the one fixed order in which filter/map visit the keys of a map (the code sorts them; the order itself is uninterpreted here)
pub uninterp spec fn key_order(m: Map<String, CelValue>) -> Seq<String>;
pub open spec fn keys_as_values(keys: Seq<String>) -> Seq<CelValue> { Seq::new(keys.len(), |i: int| CelValue::String(keys[i])) }

// ---- C08 -------------------------------------------------------------------------------------------------------------------
/// absent data: an unbound variable or a missing field/key -- and nothing else
pub open spec fn absent(e: CelError) -> bool { e is Binding || e is Attribute }
pub open spec fn spec_has(res: CelResult<CelValue>) -> CelValue {
    match res {
        Ok(_) => CelValue::Bool(true),
        Err(e) => if absent(e) { CelValue::Bool(false) } else { CelValue::Err(e) },
    }
}
pub open spec fn spec_coalesce(env: Env, args: Seq<&CelByteCode>, i: int) -> CelValue
    decreases args.len() - i
{
    if i >= args.len() { CelValue::Null } else {
        match spec_eval(env, *args[i], true) {
            Ok(CelValue::Null) => spec_coalesce(env, args, i + 1),
            Ok(v) => v,
            Err(e) => if absent(e) { spec_coalesce(env, args, i + 1) } else { CelValue::Err(e) },
        }
    }
}
'''

TRAIT = r'''
// generic Vec<T> -> CelValue conversion: element-wise Into (uninterpreted), the identity for T = CelValue (std's blanket impl)
pub mod ax2 { use super::*; use vstd::prelude::*;
pub uninterp spec fn vec_into_cel<T>(v: Vec<T>) -> Vec<CelValue>;
pub broadcast axiom fn axiom_vec_into_cel_id(v: Vec<CelValue>) ensures #[trigger] vec_into_cel::<CelValue>(v)@ == v@;
}
pub use ax2::vec_into_cel;
impl<T: Into<CelValue>> vstd::std_specs::convert::FromSpecImpl<Vec<T>> for CelValue {
    open spec fn obeys_from_spec() -> bool { true }
    open spec fn from_spec(v: Vec<T>) -> Self { CelValue::List(vec_into_cel(v)) }
}
impl vstd::std_specs::convert::FromSpecImpl<String> for CelValue { open spec fn obeys_from_spec() -> bool { true } open spec fn from_spec(v: String) -> Self { CelValue::String(v) } }
'''


def list_loop_inv(spec_call_start, spec_call_now, extra=()):
    """common invariants of `for value in list.into_iter()` loops"""
    return [
        ('iterates_the_list', 'it.seq() == l'),
        ('same_programs', 'cel@ == ctx@.cel'),
    ] + list(extra) + [('fold_so_far', f'{spec_call_start} == {spec_call_now}')]


def simple_list_macro(name, spec, nargs_msg_kind='Argument'):
    """all / exists: (ctx, this, bytecode[ident, body])"""
    start = f'{spec}(ctx@, ctx@.vars, nm, l, 0, *bytecode@[1])'
    now = f'{spec}(ctx@, bindings@, nm, l, it.index@ as int, *bytecode@[1])'
    return A(ret='r', ensures=[
        ('arity', 'bytecode@.len() != 2 ==> (r is Err && r->Err_0 is Argument)'),
        ('loop_variable_must_be_an_identifier', 'bytecode@.len() == 2 && spec_ident(*bytecode@[0]) is Err ==> r == CelValue::Err(spec_ident(*bytecode@[0])->Err_0)'),
        ('receiver_must_be_a_list', 'bytecode@.len() == 2 && spec_ident(*bytecode@[0]) is Ok && !(this is List) ==> r is Err'),
        ('equals_its_fold', f'bytecode@.len() == 2 && spec_ident(*bytecode@[0]) is Ok && this is List ==> r == {spec}(ctx@, ctx@.vars, spec_ident(*bytecode@[0])->Ok_0@, this->List_0@, 0, *bytecode@[1])'),
    ], after={'let (cel, mut bindings) = helpers::setup_context(ctx);': 'let ghost l = list@; let ghost nm = ident_name@;'},
        loops={0: dict(ghost='it', invariant=list_loop_inv(start, now, [
            ('args', 'bytecode@.len() == 2'), ('name', 'nm == ident_name@'),
            ('ident_ok', 'spec_ident(*bytecode@[0]) is Ok && nm == spec_ident(*bytecode@[0])->Ok_0@'),
            ('receiver', 'this is List && l == this->List_0@')]))},
        props=('C07', 'C12', 'C01'))


def build():
    U = Unit('macros')
    U.global_rewrites.append(C.DYN_REWRITE)
    U.raw(C.HEADER, 'header')
    U.raw(C.STANDINS, 'S1 stand-ins')
    C.value_types(U)
    U.raw(C.DERIVED, 'assumed derived impls')
    U.raw(C.VALUE_SPECS + C.TRUTHY_SPEC + SPECS, 'spec functions')
    U.raw(C.TRAIT_FULL + TRAIT, 'plumbing')
    U.raw(C.STD_SPECS, 'assumed std specs')
    U.raw(C.AXIOMS.replace('ax::axiom_vec_bytecode_len};', 'ax::axiom_vec_bytecode_len, ax2::axiom_vec_into_cel_id};'), 'axioms')
    U.extract(C.CE, 'impl CelError', fns={
        'argument': A(ret='r', ensures=[('kind', 'r is Argument')], props=('C01',)),
        'value': A(ret='r', ensures=[('kind', 'r is Value')], props=('C01',)),
    })
    U.extract(C.CV, 'impl CelValue', fns=C.ctor_fns(['from_err', 'from_null', 'true_', 'false_', 'from_bool'], stub=False) | {
        'from_string': C.simple_ctor('r == CelValue::String(val)')} | C.ambient(['is_null', 'is_true', 'is_err', 'from_int', 'from_uint', 'from_float', 'from_list', 'from_map']), others='stub')
    C.from_impls(U, ('bool', 'CelError'))
    U.extract(C.CV, 'impl From<String> for CelValue', fns={'from': C.simple_ctor('r == CelValue::String(val)')})
    U.extract(C.CV, 'impl<T: Into<CelValue>> From<Vec<T>> for CelValue', fns={'from': A(stub=True, ret='r', ensures=[('def', 'r == CelValue::List(vec_into_cel(value))')],
                                                                                      note='iterator map/collect: not verified; element-wise Into')})
    U.raw(C.FROM_SPEC_IMPLS.split('\n')[4] + '\n' + C.FROM_SPEC_IMPLS.split('\n')[5], 'From spec impls')
    U.extract(C.CV, 'impl CelValueDyn for CelValue', fns={'is_truthy': A(stub=True, ret='r', ensures=[('truthiness_table', 'r == spec_truthy(*self)')])}, others='stub', skip=('any_ref',))
    # the interpreter: contract-only stubs with their verbatim signatures
    U.extract('rscel/src/interp/interp.rs', "impl<'a> Interpreter<'a>", fns={
        'new': A(stub=True, ret='r', ensures=[('fresh_depth', 'r@ == (Env { cel: cel@, vars: bindings@, depth: 0 })')]),
        'nested_in': A(stub=True, ret='r', ensures=[('same_programs_bindings_and_depth', 'r@ == (Env { cel: cel@, vars: bindings@, depth: parent@.depth })')]),
        'run_raw': A(stub=True, ret='r', ensures=[('abstract_eval', 'r == spec_eval(self@, *prog, resolve)')]),
    })
    U.extract('rscel/src/context/bind_context.rs', "impl<'a> BindContext<'a>", fns={
        'bind_param': A(stub=True, ensures=[('rebinding_replaces', 'final(self)@ == old(self)@.insert(name@, value)')]),
    })
    U.extract('rscel/src/utils/eval_utils.rs', 'fn eval_ident', annot=A(stub=True, ret='r', ensures=[('abstract', 'r == spec_ident(*prog)')]))
    U.raw('pub mod helpers { use super::*;', 'mod helpers')
    U.extract(M + 'helpers.rs', 'fn setup_context', annot=A(stub=True, ret='r', ensures=[('private_copies_with_the_callers_view', 'r.0@ == ctx@.cel && r.1@ == ctx@.vars')]))
    U.extract(M + 'helpers.rs', 'fn sorted_keys', annot=A(stub=True, ret='r', ensures=[('one_fixed_order', 'r@ == key_order(map@)')]))
    U.raw('}', 'end mod helpers')

    U.extract(M + 'all.rs', 'fn all_impl', annot=simple_list_macro('all', 'spec_all'))
    U.extract(M + 'exists.rs', 'fn exists_impl', annot=simple_list_macro('exists', 'spec_exists'))
    start = 'spec_exists_one(ctx@, ctx@.vars, nm, l, 0, 0, *bytecode@[1])'
    now = 'spec_exists_one(ctx@, bindings@, nm, l, it.index@ as int, count as int, *bytecode@[1])'
    U.extract(M + 'exists_one.rs', 'fn exists_one_impl', annot=A(ret='r', ensures=[
        ('arity', 'bytecode@.len() != 2 ==> (r is Err && r->Err_0 is Argument)'),
        ('loop_variable_must_be_an_identifier', 'bytecode@.len() == 2 && spec_ident(*bytecode@[0]) is Err ==> r == CelValue::Err(spec_ident(*bytecode@[0])->Err_0)'),
        ('receiver_must_be_a_list', 'bytecode@.len() == 2 && spec_ident(*bytecode@[0]) is Ok && !(this is List) ==> r is Err'),
        ('equals_its_fold', 'bytecode@.len() == 2 && spec_ident(*bytecode@[0]) is Ok && this is List ==> r == spec_exists_one(ctx@, ctx@.vars, spec_ident(*bytecode@[0])->Ok_0@, this->List_0@, 0, 0, *bytecode@[1])'),
    ], after={'let (cel, mut bindings) = helpers::setup_context(ctx);': 'let ghost l = list@; let ghost nm = ident_name@;'},
        loops={0: dict(ghost='it', invariant=list_loop_inv(start, now, [
            ('args', 'bytecode@.len() == 2'), ('name', 'nm == ident_name@'), ('hits_bounded', '0 <= count <= 1'),
            ('ident_ok', 'spec_ident(*bytecode@[0]) is Ok && nm == spec_ident(*bytecode@[0])->Ok_0@'),
            ('receiver', 'this is List && l == this->List_0@')]))},
        props=('C07', 'C12', 'C01')))

    # filter
    U.extract(M + 'filter.rs', 'fn filter_impl', annot=A(ret='r', ensures=[
        ('arity', 'bytecode@.len() != 2 ==> (r is Err && r->Err_0 is Argument)'),
        ('loop_variable_must_be_an_identifier', 'bytecode@.len() == 2 && spec_ident(*bytecode@[0]) is Err ==> r == CelValue::Err(spec_ident(*bytecode@[0])->Err_0)'),
        ('receiver_must_be_list_or_map', 'bytecode@.len() == 2 && spec_ident(*bytecode@[0]) is Ok && !(this is List) && !(this is Map) ==> r is Err'),
        ('list_equals_its_fold', 'bytecode@.len() == 2 && spec_ident(*bytecode@[0]) is Ok && this is List ==> fold_result(spec_filter(ctx@, ctx@.vars, spec_ident(*bytecode@[0])->Ok_0@, this->List_0@, 0, Seq::empty(), *bytecode@[1]), r)'),
        ('map_ranges_over_keys_in_the_fixed_order', 'bytecode@.len() == 2 && spec_ident(*bytecode@[0]) is Ok && this is Map ==> fold_result(spec_filter(ctx@, ctx@.vars, spec_ident(*bytecode@[0])->Ok_0@, keys_as_values(key_order(this->Map_0@)), 0, Seq::empty(), *bytecode@[1]), r)'),
    ], props=('C07', 'C01')))
    fstart = 'spec_filter(ctx@, ctx@.vars, ident_name@, l, 0, Seq::empty(), *predicate)'
    fnow = 'spec_filter(ctx@, bindings@, ident_name@, l, it.index@ as int, filtered_list@, *predicate)'
    U.extract(M + 'filter.rs', 'fn filter_list', annot=A(ret='r', ensures=[
        ('equals_its_fold', 'fold_result(spec_filter(ctx@, ctx@.vars, ident_name@, list@, 0, Seq::empty(), *predicate), r)')],
        after={'let mut filtered_list = Vec::new();': 'let ghost l = list@;'},
        loops={0: dict(ghost='it', invariant=list_loop_inv(fstart, fnow))}, props=('C07', 'C12', 'C01')))
    kstart = 'spec_filter(ctx@, ctx@.vars, ident_name@, keys_as_values(l), 0, Seq::empty(), *predicate)'
    know = 'spec_filter(ctx@, bindings@, ident_name@, keys_as_values(l), it.index@ as int, filtered_list@, *predicate)'
    U.extract(M + 'filter.rs', 'fn filter_map', annot=A(ret='r', ensures=[
        ('keys_in_the_fixed_order', 'fold_result(spec_filter(ctx@, ctx@.vars, ident_name@, keys_as_values(key_order(map@)), 0, Seq::empty(), *predicate), r)')],
        after={'let mut filtered_list = Vec::new();': 'let ghost l = key_order(map@);'},
        loops={0: dict(ghost='it', invariant=list_loop_inv(kstart, know))}, props=('C07', 'C12', 'C01')))

    # map
    def map_spec(lst, vars_, i, acc):
        return (f'(if bytecode@.len() == 2 {{ spec_map2(ctx@, {vars_}, ident_name@, {lst}, {i}, {acc}, *bytecode@[1]) }} '
                f'else {{ spec_map3(ctx@, {vars_}, ident_name@, {lst}, {i}, {acc}, *bytecode@[1], *bytecode@[2]) }})')
    U.extract(M + 'map.rs', 'fn map_impl', annot=A(ret='r', ensures=[
        ('arity', '!(bytecode@.len() == 2 || bytecode@.len() == 3) ==> (r is Err && r->Err_0 is Argument)'),
        ('loop_variable_must_be_an_identifier', '(bytecode@.len() == 2 || bytecode@.len() == 3) && spec_ident(*bytecode@[0]) is Err ==> r == CelValue::Err(spec_ident(*bytecode@[0])->Err_0)'),
        ('receiver_must_be_list_or_map', '(bytecode@.len() == 2 || bytecode@.len() == 3) && spec_ident(*bytecode@[0]) is Ok && !(this is List) && !(this is Map) ==> r is Err'),
        ('list_equals_its_fold', '(bytecode@.len() == 2 || bytecode@.len() == 3) && spec_ident(*bytecode@[0]) is Ok && this is List ==> fold_result('
         + map_spec('this->List_0@', 'ctx@.vars', '0', 'Seq::empty()').replace('ident_name@', 'spec_ident(*bytecode@[0])->Ok_0@') + ', r)'),
        ('map_ranges_over_keys_in_the_fixed_order', '(bytecode@.len() == 2 || bytecode@.len() == 3) && spec_ident(*bytecode@[0]) is Ok && this is Map ==> fold_result('
         + map_spec('keys_as_values(key_order(this->Map_0@))', 'ctx@.vars', '0', 'Seq::empty()').replace('ident_name@', 'spec_ident(*bytecode@[0])->Ok_0@') + ', r)'),
    ], props=('C07', 'C01')))
    U.extract(M + 'map.rs', 'fn map_list', annot=A(ret='r', requires=[('arity', 'bytecode@.len() == 2 || bytecode@.len() == 3')], ensures=[
        ('equals_its_fold', 'fold_result(' + map_spec('list@', 'ctx@.vars', '0', 'Seq::empty()') + ', r)')],
        after={'let mut mapped = Vec::new();': 'let ghost l = list@;'},
        loops={0: dict(ghost='it', invariant=list_loop_inv(map_spec('l', 'ctx@.vars', '0', 'Seq::empty()'), map_spec('l', 'bindings@', 'it.index@ as int', 'mapped@'),
                                                          [('arity', 'bytecode@.len() == 2 || bytecode@.len() == 3')]))}, props=('C07', 'C12', 'C01')))
    U.extract(M + 'map.rs', 'fn map_map', annot=A(ret='r', requires=[('arity', 'bytecode@.len() == 2 || bytecode@.len() == 3')], ensures=[
        ('keys_in_the_fixed_order', 'fold_result(' + map_spec('keys_as_values(key_order(map@))', 'ctx@.vars', '0', 'Seq::empty()') + ', r)')],
        after={'let mut mapped = Vec::new();': 'let ghost l = key_order(map@);'},
        loops={0: dict(ghost='it', invariant=list_loop_inv(map_spec('keys_as_values(l)', 'ctx@.vars', '0', 'Seq::empty()'), map_spec('keys_as_values(l)', 'bindings@', 'it.index@ as int', 'mapped@'),
                                                          [('arity', 'bytecode@.len() == 2 || bytecode@.len() == 3')]))}, props=('C07', 'C12', 'C01')))

    # reduce
    rstart = 'spec_reduce(ctx@, ctx@.vars, cn, nn, l, 0, seed, *bytecode@[2])'
    rnow = 'spec_reduce(ctx@, bindings@, cn, nn, l, it.index@ as int, cur_value, *bytecode@[2])'
    U.extract(M + 'reduce.rs', 'fn reduce_impl', annot=A(ret='r', ensures=[
        ('arity', 'bytecode@.len() != 4 ==> (r is Err && r->Err_0 is Argument)'),
        ('accumulator_must_be_an_identifier', 'bytecode@.len() == 4 && spec_ident(*bytecode@[0]) is Err ==> r == CelValue::Err(spec_ident(*bytecode@[0])->Err_0)'),
        ('loop_variable_must_be_an_identifier', 'bytecode@.len() == 4 && spec_ident(*bytecode@[0]) is Ok && spec_ident(*bytecode@[1]) is Err ==> r == CelValue::Err(spec_ident(*bytecode@[1])->Err_0)'),
        ('failing_seed_fails', 'bytecode@.len() == 4 && spec_ident(*bytecode@[0]) is Ok && spec_ident(*bytecode@[1]) is Ok && spec_eval(ctx@, *bytecode@[3], true) is Err ==> r == CelValue::Err(spec_eval(ctx@, *bytecode@[3], true)->Err_0)'),
        ('equals_its_fold', 'bytecode@.len() == 4 && spec_ident(*bytecode@[0]) is Ok && spec_ident(*bytecode@[1]) is Ok && spec_eval(ctx@, *bytecode@[3], true) is Ok && this is List ==> '
         'r == spec_reduce(ctx@, ctx@.vars, spec_ident(*bytecode@[0])->Ok_0@, spec_ident(*bytecode@[1])->Ok_0@, this->List_0@, 0, spec_eval(ctx@, *bytecode@[3], true)->Ok_0, *bytecode@[2])'),
        ('receiver_must_be_a_list', 'bytecode@.len() == 4 && spec_ident(*bytecode@[0]) is Ok && spec_ident(*bytecode@[1]) is Ok && spec_eval(ctx@, *bytecode@[3], true) is Ok && !(this is List) ==> r is Err'),
    ], after={'let (cel, mut bindings) = helpers::setup_context(ctx);': 'let ghost l = list@; let ghost cn = curr_name@; let ghost nn = next_name@; let ghost seed = cur_value;'},
        loops={0: dict(ghost='it', invariant=list_loop_inv(rstart, rnow, [
            ('args', 'bytecode@.len() == 4'), ('names', 'cn == curr_name@ && nn == next_name@'),
            ('idents_ok', 'spec_ident(*bytecode@[0]) is Ok && cn == spec_ident(*bytecode@[0])->Ok_0@ && spec_ident(*bytecode@[1]) is Ok && nn == spec_ident(*bytecode@[1])->Ok_0@'),
            ('seed_ok', 'spec_eval(ctx@, *bytecode@[3], true) == Ok::<CelValue, CelError>(seed)'),
            ('receiver', 'this is List && l == this->List_0@')]))},
        props=('C07', 'C12', 'C01')))

    # has / coalesce (C08)
    U.extract(M + 'has.rs', 'fn has_impl', annot=A(ret='r', ensures=[
        ('arity', 'exprlist@.len() != 1 ==> (r is Err && r->Err_0 is Argument)'),
        ('true_when_it_evaluates_false_only_when_absent_else_propagates', 'exprlist@.len() == 1 ==> r == spec_has(spec_eval(ctx@, *exprlist@[0], true))'),
    ], props=('C08', 'C01')))
    U.extract(M + 'coalesce.rs', 'fn coalesce_impl', annot=A(ret='r', ensures=[
        ('first_present_non_null_left_to_right', 'r == spec_coalesce(ctx@, bytecode@, 0)'),
    ], loops={0: dict(ghost='it', invariant=[('skipped_so_far_were_null_or_absent', 'spec_coalesce(ctx@, bytecode@, 0) == spec_coalesce(ctx@, bytecode@, it.index@ as int)')])},
        props=('C08', 'C01')))
    # C01 / C12 mechanism: the interpreter that runs a macro body continues the caller's call depth (a fresh one would give every
    # level of a cyclic reference chain through a macro body a new budget: the depth guard never fires and the stack overflows)
    for op in U.ops:
        if op[0] == 'extract' and op[1]['selector'] in ('fn all_impl', 'fn exists_impl', 'fn exists_one_impl', 'fn filter_list', 'fn filter_map', 'fn map_list', 'fn map_map', 'fn reduce_impl'):
            op[1]['annot'].after[('stmt', 'let interp =', 0)] = ('the_body_runs_at_the_callers_depth', 'interp@.depth == ctx@.depth', ('C01', 'C12'))
    U.raw(C.FOOTER, 'footer')
    return U
