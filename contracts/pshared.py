"""shared by the compiler units (parser, compprog, parser2): the ghost vocabulary of parser.py, the iterator trampolines (R2m) and the
contract objects of the CompiledProg / NodeValue combinators (verified in unit compprog, stubs with the same clause text elsewhere)."""
from vgen.gen import A
from . import common as C
from . import parser as P

CP = P.CP
GR = P.GR
CPR = P.CPR
PR = P.PR

_UNARY = "#[verifier::external_body] pub struct Unary { _p: u8 }                 // grammar::Unary (and everything below it)\n"
_SPU = "/// the next lower grammar level (unary / member / primary): uninterpreted here\npub uninterp spec fn sp_unary(toks: Seq<TokenWithLoc>, pos: nat, lbl: u32) -> Option<P<Unary>>;\n"
assert _UNARY in P.PRELUDE and _SPU in P.PRELUDE
CORE = P.PRELUDE.replace(_UNARY, '').replace(_SPU, '')
# ax3 is re-declared (extended) by ITER below
_AX3_START = CORE.index('// the points an `impl IntoIterator')
_AX3_END = CORE.index('pub use ax3::points_of;') + len('pub use ax3::points_of;')
CORE = CORE[:_AX3_START] + CORE[_AX3_END:]
_VIEW = "impl View for PreResolvedByteCode { type V = Seq<PreResolvedCodePoint>; closed spec fn view(&self) -> Seq<PreResolvedCodePoint> { self.inner@ } }\n"
assert _VIEW in CORE
_HULL = "/// the smallest span containing both\npub uninterp spec fn hull(a: SourceRange, b: SourceRange) -> SourceRange;\n"
assert _HULL in CORE
CORE = CORE.replace(_HULL, '')     # moved into axh together with its axiom
CORE = CORE.replace(_VIEW, '')     # moved into ax3 (an axiom there mentions it; Verus rejects a root -> ax3 -> root dependency cycle)

ITER = r"""
// ---- R2m: iterator adapters.  Verus has no support for std iterator adapters; `.into_iter()`, `.chain(..)`, `.collect()` are rewritten
// call by call into these trampolines.  ASSUMED std behaviour: chain = concatenation, collect = the yielded items in order, collecting
// ByteCode items into pre-resolved code wraps each in PreResolvedCodePoint::Bytecode (what `impl From<ByteCode>` does).
pub mod vw { use super::*; use vstd::prelude::*;
""" + _VIEW + r"""pub(crate) broadcast proof fn lemma_prbc_view(b: PreResolvedByteCode) ensures #[trigger] b@ == b.inner@ {}
}
pub mod ax3 { use super::*; use vstd::prelude::*;
/// the pre-resolved code points an iterable yields, in order (ByteCode items: each converted with From<ByteCode>)
pub uninterp spec fn points_of<I>(i: I) -> Seq<PreResolvedCodePoint>;
/// the byte codes an iterable of ByteCode yields, in order
pub uninterp spec fn codes_of<I>(i: I) -> Seq<ByteCode>;
pub broadcast axiom fn axiom_points_of_array<const N: usize>(a: [PreResolvedCodePoint; N]) ensures #[trigger] points_of::<[PreResolvedCodePoint; N]>(a) == a@;
pub broadcast axiom fn axiom_points_of_vec(v: Vec<PreResolvedCodePoint>) ensures #[trigger] points_of::<Vec<PreResolvedCodePoint>>(v) == v@;
pub broadcast axiom fn axiom_points_of_prbc(b: PreResolvedByteCode) ensures #[trigger] points_of::<PreResolvedByteCode>(b) == b@;
pub broadcast axiom fn axiom_points_of_codes1(a: [ByteCode; 1]) ensures #[trigger] points_of::<[ByteCode; 1]>(a) == seq![PreResolvedCodePoint::Bytecode(a@[0])];
pub broadcast axiom fn axiom_points_of_codevec(v: Vec<ByteCode>) ensures #[trigger] points_of::<Vec<ByteCode>>(v) == v@.map_values(|b: ByteCode| PreResolvedCodePoint::Bytecode(b));
pub broadcast axiom fn axiom_codes_of_array<const N: usize>(a: [ByteCode; N]) ensures #[trigger] codes_of::<[ByteCode; N]>(a) == a@;
}
pub use ax3::{points_of, codes_of};
#[verifier::external_body] pub struct SeqIter { _p: u8 }
#[verifier::external_body] pub fn it_into_iter<I>(i: I) -> (r: SeqIter) ensures points_of(r) == points_of(i), codes_of(r) == codes_of(i) { unimplemented!() }
#[verifier::external_body] pub fn it_chain<I, J>(i: I, j: J) -> (r: SeqIter) ensures points_of(r) == points_of(i) + points_of(j), codes_of(r) == codes_of(i) + codes_of(j) { unimplemented!() }
impl SeqIter {
    /// stands for `.map(|b| b.into())` on an iterator of ByteCode (rewritten only where the source has exactly that text)
    #[verifier::external_body] pub fn map_into_points(self) -> (r: SeqIter) ensures points_of(r) == points_of(self) { unimplemented!() }
}
// formatting a token (or the tokenizer's answer) for an error message is assumed not to panic (derived Debug impls)
pub mod axf { use super::*; use vstd::prelude::*;
pub broadcast axiom fn axiom_debug_opt_tokenwithloc() ensures #[trigger] vstd::std_specs::fmt::fmt_req_all::<Option<TokenWithLoc>>();
pub broadcast axiom fn axiom_debug_opt_token() ensures #[trigger] vstd::std_specs::fmt::fmt_req_all::<Option<Token>>();
pub broadcast axiom fn axiom_debug_token() ensures #[trigger] vstd::std_specs::fmt::fmt_req_all::<Token>();
pub broadcast axiom fn axiom_debug_peek_result<'a>() ensures #[trigger] vstd::std_specs::fmt::fmt_req_all::<Result<Option<&'a TokenWithLoc>, SyntaxError>>();
pub broadcast axiom fn axiom_debug_tokenwithloc() ensures #[trigger] vstd::std_specs::fmt::fmt_req_all::<TokenWithLoc>();
}
pub trait FromYielded: Sized { spec fn pts(&self) -> Seq<PreResolvedCodePoint>; spec fn cds(&self) -> Seq<ByteCode>; }
pub uninterp spec fn no_codes<T>(t: T) -> Seq<ByteCode>;
pub uninterp spec fn no_points<T>(t: T) -> Seq<PreResolvedCodePoint>;
impl FromYielded for PreResolvedByteCode { open spec fn pts(&self) -> Seq<PreResolvedCodePoint> { self@ } open spec fn cds(&self) -> Seq<ByteCode> { no_codes(*self) } }
impl FromYielded for Vec<PreResolvedCodePoint> { open spec fn pts(&self) -> Seq<PreResolvedCodePoint> { self@ } open spec fn cds(&self) -> Seq<ByteCode> { no_codes(*self) } }
impl FromYielded for CelByteCode { open spec fn pts(&self) -> Seq<PreResolvedCodePoint> { no_points(*self) } open spec fn cds(&self) -> Seq<ByteCode> { self@ } }
#[verifier::external_body] pub fn it_collect<I, R: FromYielded>(i: I) -> (r: R) ensures r.pts() == points_of(i), r.cds() == codes_of(i) { unimplemented!() }
"""
ITER_BROADCAST = ('axh::axiom_hull_commutes, vw::lemma_prbc_view, axf::axiom_debug_opt_tokenwithloc, axf::axiom_debug_opt_token, axf::axiom_debug_token, axf::axiom_debug_tokenwithloc, axf::axiom_debug_peek_result, ax3::axiom_points_of_array, ax3::axiom_points_of_vec, ax3::axiom_points_of_prbc, '
                  'ax3::axiom_points_of_codes1, ax3::axiom_points_of_codevec, ax3::axiom_codes_of_array')
MC = {'into_iter': 'it_into_iter', 'chain': 'it_chain', 'collect': 'it_collect'}
MAP_INTO = ('.map(|b| b.into())', '.map_into_points()', 'R2m: `.map(|b| b.into())` over ByteCode items -> SeqIter::map_into_points (the conversion is part of points_of)')


def axioms():
    return C.AXIOMS.replace('ax::axiom_vec_bytecode_len};', 'ax::axiom_vec_bytecode_len, ' + ITER_BROADCAST + '};')


EMPTY = 'Set::<Seq<char>>::empty()'

# ---- contracts of compiled_prog.rs (one object per function; `stubbed()` turns them into callee-only contracts) ----------------------
DETAILS = {
    'new': A(stub=True, ret='r', ensures=[('empty', f'r@ == {EMPTY}')]),
    'union_from': A(stub=True, ensures=[('union', 'final(self)@ == old(self)@ + other@')]),
    'joined2': A(ret='r', ensures=[('union', 'r@ == pd1@ + pd2@')], props=('C17', 'C01')),
    'add_param': A(stub=True, ensures=[('one_more_identifier', 'final(self)@ == old(self)@.insert(name@)')]),
}


def compprog_contracts():
    P17 = ('C17', 'C01')
    P10 = ('C10', 'C09', 'C01')
    return {
        'new': A(ret='r', ensures=[('def', 'r.inner == inner && r.details == details')], props=P17),
        'empty': A(ret='r', ensures=[('no_code_no_identifiers', f'node_view(r.inner) is Code && node_view(r.inner)->Code_0 =~= Seq::empty() && r.details@ == {EMPTY}')], props=P10),
        'from_node': A(ret='r', ensures=[('same_program', 'r.inner == other.inner && r.details == other.details')], props=P17 + ('C10',)),
        'with_code_points': A(ret='r', ensures=[('code_without_identifiers', f'node_view(r.inner) == SNode::Code(bytecode@) && r.details@ == {EMPTY}')],
                              mcalls=MC, props=P10 + ('C17',)),
        'with_bytecode': A(stub=True, ret='r', ensures=[('ASSUMED_resolved_code_wrapped_point_by_point', f'node_view(r.inner) == SNode::Code(bytecode@.map_values(|b: ByteCode| PreResolvedCodePoint::Bytecode(b))) && r.details@ == {EMPTY}')]),
        'details': A(ret='r', ensures=[('def', '*r == self.details')], props=P17),
        'into_parts': A(ret='r', ensures=[('def', 'r.0 == self.inner && r.1 == self.details')], props=P17 + ('C10',)),
        'with_const': A(ret='r', ensures=[('constant_without_identifiers', f'node_view(r.inner) == SNode::Const(val) && r.details@ == {EMPTY}')], props=('C09', 'C17', 'C01')),
        'add_ident': A(ret='r', ensures=[('same_code_one_more_identifier', 'r.inner == self.inner && r.details@ == self.details@.insert(ident@)')], props=P17,
                       body_begin='let mut this = self;',
                       rewrites=[('mut self, ident', 'self, ident', 'R4: Verus does not support a `mut self` parameter: rebound as `let mut this = self`'),
                                 ('self.details.add_param(ident); self }', 'this.details.add_param(ident); this }', 'R4: `mut self` rebound as `this`')]),
        'append_result': A(ret='r', ensures=[('own_code_then_the_others', 'node_view(r.inner) == SNode::Code(code_of(node_view(self.inner)) + code_of(node_view(other.inner)))', ('C10', 'C09', 'C05')),
                                             ('identifiers_of_both', 'r.details@ == self.details@ + other.details@', ('C17',))],
                           mcalls=MC, props=P10 + ('C17',)),
        'consume_child': A(ret='r', ensures=[('own_code_then_the_childs', 'node_view(r.inner) == SNode::Code(code_of(node_view(self.inner)) + code_of(node_view(child.inner)))', ('C10', 'C09', 'C05')),
                                             ('identifiers_of_both', 'r.details@ == self.details@ + child.details@', ('C17',))], props=P10 + ('C17',)),
        'into_unresolved_bytecode': A(ret='r', ensures=[('a_constant_becomes_a_push', 'r@ == code_of(node_view(self.inner))')], props=P10),
        'is_const': A(ret='r', ensures=[('def', 'r == (node_view(self.inner) is Const)')], props=('C09', 'C01')),
        'const_val': A(ret='r', requires=[('is_constant', 'node_view(self.inner) is Const')], ensures=[('def', 'r == node_view(self.inner)->Const_0')], props=('C09', 'C01')),
        'from_children2_w_bytecode_cannone': A(
            ret='r',
            requires=[('resolver_total', 'forall|a: &CelValue, b: &CelValue| call_requires(resolve, (a, b))')],
            ensures=[
                ('identifiers_of_both', 'r.details@ == child1.details@ + child2.details@', ('C17',)),
                ('folds_only_two_constants_and_only_with_the_resolver', '''match (node_view(child1.inner), node_view(child2.inner)) {
                    (SNode::Const(c1), SNode::Const(c2)) => exists|res: Option<CelValue>| call_ensures(resolve, (&c1, &c2), res) && (match res {
                        Some(v) => node_view(r.inner) == SNode::Const(v),
                        None => node_view(r.inner) == SNode::Code(seq![PreResolvedCodePoint::Bytecode(ByteCode::Push(c1)), PreResolvedCodePoint::Bytecode(ByteCode::Push(c2))]
                            + bytecode@.map_values(|b: ByteCode| PreResolvedCodePoint::Bytecode(b))),
                    }),
                    (n1, n2) => node_view(r.inner) == SNode::Code(code_of(n1) + code_of(n2) + bytecode@.map_values(|b: ByteCode| PreResolvedCodePoint::Bytecode(b))),
                }''', ('C09', 'C10')),
            ], mcalls=MC, rewrites=[MAP_INTO], props=('C09', 'C10', 'C17', 'C01')),
    }


FCWB_SPEC = r'''
// ---- from_children_w_bytecode (list / map literals): the identifiers of ALL children, folded only when ALL are constant ----------
pub open spec fn all_details(ch: Seq<CompiledProg>, n: int) -> Set<Seq<char>> decreases n { if n <= 0 { Set::empty() } else { all_details(ch, n - 1) + ch[n - 1].details@ } }
pub open spec fn all_consts(ch: Seq<CompiledProg>, n: int) -> bool decreases n { if n <= 0 { true } else { all_consts(ch, n - 1) && node_view(ch[n - 1].inner) is Const } }
pub open spec fn flat_code(ch: Seq<CompiledProg>, n: int) -> Seq<PreResolvedCodePoint> decreases n { if n <= 0 { Seq::empty() } else { flat_code(ch, n - 1) + code_of(node_view(ch[n - 1].inner)) } }
/// R2m: `children.into_iter().map(|c| c.const_val()).collect()`
#[verifier::external_body] pub fn s_const_vals(children: Vec<CompiledProg>) -> (r: Vec<CelValue>)
    requires all_consts(children@, children@.len() as int)
    ensures r@.len() == children@.len(), forall|i: int| 0 <= i < r@.len() ==> node_view(children@[i].inner) == SNode::Const(#[trigger] r@[i]) { unimplemented!() }
/// R2m: `children.into_iter().map(|c| c.inner.into_bytecode().into_iter()).flatten()`
#[verifier::external_body] pub fn s_flat_code(children: Vec<CompiledProg>) -> (r: SeqIter) ensures points_of(r) == flat_code(children@, children@.len() as int) { unimplemented!() }
impl Clone for ProgramDetails { #[verifier::external_body] fn clone(&self) -> (r: Self) ensures r == *self { unimplemented!() } }
'''

FCWB = A(ret='r',
         requires=[('resolver_accepts_one_value_per_child', 'forall|v: Vec<CelValue>| v@.len() == children@.len() ==> call_requires(resolve, (v,))')],
         ensures=[('identifiers_of_every_child', 'r.details@ == all_details(children@, children@.len() as int)', ('C17',)),
                  ('folded_only_when_every_child_is_constant_and_only_with_the_resolver', '''if all_consts(children@, children@.len() as int) {
                        exists|vals: Vec<CelValue>, res: CelValue| call_ensures(resolve, (vals,), res) && node_view(r.inner) == SNode::Const(res) && vals@.len() == children@.len()
                            && (forall|i: int| 0 <= i < vals@.len() ==> node_view(children@[i].inner) == SNode::Const(#[trigger] vals@[i]))
                    } else {
                        node_view(r.inner) == SNode::Code(flat_code(children@, children@.len() as int) + bytecode@.map_values(|b: ByteCode| PreResolvedCodePoint::Bytecode(b)))
                    }''', ('C09', 'C10', 'C06'))],
         loops={0: dict(ghost='it', invariant=[('identifiers_so_far', 'details@ == all_details(children@, it.index@ as int) && all_const == all_consts(children@, it.index@ as int)')])},
         mcalls=MC,
         rewrites=[('all_const &= c.is_const();', 'all_const = all_const && c.is_const();', 'R7: Verus has no `&=` on bool; is_const is pure, so the short-circuit form is equivalent'),
                   ('children.into_iter().map(|c| c.const_val()).collect()', 's_const_vals(children)', 'R2m: iterator map/collect of the constant values -> trampoline (assumed std behaviour: element-wise, in order)'),
                   ('children .into_iter() .map(|c| c.inner.into_bytecode().into_iter()) .flatten()', 's_flat_code(children)', 'R2m: iterator map/flatten of the children code -> trampoline (assumed std behaviour: concatenation in order)'),
                   MAP_INTO],
         props=('C17', 'C09', 'C10', 'C06', 'C01'))

NODEVALUE = {
    'is_const': A(ret='r', ensures=[('def', 'r == (node_view(*self) is Const)')], props=('C09', 'C01')),
    'into_bytecode': A(ret='r', ensures=[('a_constant_becomes_a_push', 'r@ == code_of(node_view(self))')], mcalls=MC, props=('C10', 'C09', 'C01')),
}


def stubbed(d, keep=()):
    """the same contracts as callee-only stubs (bodies dropped)"""
    out = {}
    for k, a in d.items():
        if k in keep:
            out[k] = a
            continue
        out[k] = A(stub=True, ret=a.ret, requires=a.requires, ensures=a.ensures, rewrites=[r for r in a.rewrites if r[0].startswith('mut self')])
    return out


def compiler_types(U, grammar='binary'):
    U.extract('rscel/src/compiler/tokens.rs', 'enum FStringSegment')
    U.extract('rscel/src/compiler/tokens.rs', 'enum Token')
    U.extract('rscel/src/compiler/tokens.rs', 'trait AsToken')
    U.extract('rscel/src/compiler/source_location.rs', 'struct SourceLocation')
    U.extract('rscel/src/compiler/source_range.rs', 'struct SourceRange')
    U.extract('rscel/src/compiler/tokenizer.rs', 'struct TokenWithLoc')
    U.extract('rscel/src/compiler/ast_node.rs', 'struct AstNode')
    if grammar:
        U.extract(GR, 'trait FromUnary', annot=A(rewrites=[('pub trait FromUnary', 'pub trait FromUnary: Sized', 'Verus requires Self: Sized for a trait method returning Self')]))
        names = ['enum Relop', 'enum AddOp', 'enum MultOp', 'enum Addition', 'enum Multiplication', 'enum Relation', 'enum ConditionalAnd', 'enum ConditionalOr']
        if grammar == 'all':
            names += ['enum Expr', 'struct MatchCase', 'enum MatchPattern', 'enum MatchCmpOp', 'enum MatchTypePattern', 'struct MatchAnyPattern', 'enum Unary', 'enum NotList', 'enum NegList',
                      'struct Member', 'enum MemberPrime', 'struct Ident', 'enum Primary', 'struct ExprList', 'struct ObjInit', 'struct ObjInits', 'enum LiteralsAndKeywords']
        for e in names:
            U.extract(GR, e)
    U.extract(PR, 'enum PreResolvedCodePoint')
    U.extract(PR, 'struct PreResolvedByteCode')
    U.extract(CPR, 'enum NodeValue')
    U.extract(CPR, 'struct CompiledProg')


def grammar_ambient(U):
    """`into_unary` and the FromUnary impls as callees known by contract (they are verified in units parser / parser_unary): present in
    every parser unit so that an edit which re-levels a sub-expression (`into_unary(self.parse_x()?)`) is decided against the grammar
    instead of failing to type-check"""
    for t, inner in (('Addition', 'Addition::Unary(inner)'), ('Multiplication', 'Multiplication::Unary(inner)'), ('Relation', 'Relation::Unary(inner)'),
                     ('ConditionalAnd', 'ConditionalAnd::Unary(inner)'), ('ConditionalOr', 'ConditionalOr::Unary(inner)'), ('Unary', 'Unary::Member(inner)')):
        U.extract(GR, f'impl FromUnary for {t}', fns={'from_unary': A(stub=True, ret='r', ensures=[('def', f'r == {inner}')])})
    U.extract(GR, 'fn into_unary', annot=A(stub=True, ret='r', ensures=[('wraps', 'r.0 == v.0 && exists|n: U| call_ensures(U::from_unary, (v.1,), n) && r.1 == mk_ast(n, a_loc(v.1))')]))


# ---- the Tokenizer trait with the scanner position (for spans that the parser takes from location()) ------------------------------
TOKENIZER_FULL = r"""
/// the end of a span (SourceRange has private fields)
pub closed spec fn r_end(r: SourceRange) -> SourceLocation { r.end }
pub closed spec fn r_start(r: SourceRange) -> SourceLocation { r.start }
pub closed spec fn mk_range(a: SourceLocation, b: SourceLocation) -> SourceRange { SourceRange { start: a, end: b } }
pub trait Tokenizer {
    spec fn toks(&self) -> Seq<TokenWithLoc>;
    spec fn pos(&self) -> nat;
    /// how many tokens the scanner has read: pos() after a next(), pos() + 1 after a peek() (the look-ahead has been scanned)
    spec fn scanned(&self) -> nat;
    fn peek(&mut self) -> (r: Result<Option<&TokenWithLoc>, SyntaxError>)
        requires old(self).pos() <= old(self).toks().len(),
        ensures
            final(self).toks() == old(self).toks(),
            final(self).pos() == old(self).pos(),
            r is Ok ==> final(self).scanned() == old(self).pos() + 1,
            r is Ok ==> (match r->Ok_0 {
                Some(t) => old(self).pos() < old(self).toks().len() && *t == old(self).toks()[old(self).pos() as int],
                None => old(self).pos() == old(self).toks().len(),
            });
    fn next(&mut self) -> (r: Result<Option<TokenWithLoc>, SyntaxError>)
        requires old(self).pos() <= old(self).toks().len(),
        ensures
            final(self).toks() == old(self).toks(),
            r is Ok ==> final(self).scanned() == old(self).pos() + 1,
            r is Ok ==> (match r->Ok_0 {
                Some(t) => old(self).pos() < old(self).toks().len() && t == old(self).toks()[old(self).pos() as int] && final(self).pos() == old(self).pos() + 1,
                None => old(self).pos() == old(self).toks().len() && final(self).pos() == old(self).pos(),
            }),
            r is Err ==> final(self).pos() == old(self).pos();
    /// ASSUMED of every tokenizer: the scanner stands at the end of the last token it has read
    fn location(&self) -> (r: SourceLocation)
        ensures 1 <= self.scanned() <= self.toks().len() ==> r == r_end(self.toks()[self.scanned() - 1].loc);
}
"""


def core_with_full_tokenizer():
    a = CORE.index('pub trait Tokenizer {')
    b = CORE.index('impl vstd::std_specs::convert::FromSpecImpl<SyntaxError> for CelError')
    return CORE[:a] + TOKENIZER_FULL + CORE[b:]


HULL_AXIOMS = r"""
pub mod axh { use super::*; use vstd::prelude::*;
/// the smallest span containing both
pub uninterp spec fn hull(a: SourceRange, b: SourceRange) -> SourceRange;
/// the hull of two spans does not depend on their order (min of the starts, max of the ends)
pub broadcast axiom fn axiom_hull_commutes(a: SourceRange, b: SourceRange) ensures #[trigger] hull(a, b) == hull(b, a);
}
pub use axh::hull;
"""
ITER = HULL_AXIOMS + ITER


# ambient, contract-less members of the BindContext stand-in (so that a changed body that starts consulting the bindings still type-checks)
BINDCTX_AMBIENT = r"""
impl<'a> BindContext<'a> {
    #[verifier::external_body] pub fn get_param<'l>(&'l self, name: &str) -> Option<&'l CelValue> { unimplemented!() }
    #[verifier::external_body] pub fn is_bound(&self, name: &str) -> bool { unimplemented!() }
    #[verifier::external_body] pub fn get_type(&self, name: &str) -> Option<&CelValue> { unimplemented!() }
    #[verifier::external_body] pub fn has_func(&self, name: &str) -> bool { unimplemented!() }
    #[verifier::external_body] pub fn has_macro(&self, name: &str) -> bool { unimplemented!() }
}
"""


# ---- comma separated expression lists (call arguments, list literals) ----------------------------------------------------------------
EXPR_LIST_SPEC = r"""
pub struct EL { pub items: Seq<P<Expr>>, pub end: nat, pub lbl: u32 }
pub open spec fn tok_is_ending(t: Token, ending: Token) -> bool { (ending is RParen && t is RParen) || (ending is RBracket && t is RBracket) }
/// Expr (`,` Expr)* [`,`]  up to (not including) the closing token; an empty list is allowed
pub closed spec fn sp_el_loop(toks: Seq<TokenWithLoc>, acc: EL, ending: Token) -> Option<EL>
    decreases toks.len() - acc.end
{
    if acc.end < toks.len() && tok_is_ending(toks[acc.end as int].token, ending) { Some(acc) } else {
        match sp_expr(toks, acc.end, acc.lbl) {
            Some(e) => if e.end > acc.end && e.end <= toks.len() {
                    if e.end < toks.len() && toks[e.end as int].token is Comma { sp_el_loop(toks, EL { items: acc.items.push(e), end: e.end + 1, lbl: e.lbl }, ending) }
                    else { Some(EL { items: acc.items.push(e), end: e.end, lbl: e.lbl }) }
                } else { None },
            None => None,
        }
    }
}
pub closed spec fn sp_expr_list(toks: Seq<TokenWithLoc>, pos: nat, lbl: u32, ending: Token) -> Option<EL> { sp_el_loop(toks, EL { items: Seq::empty(), end: pos, lbl: lbl }, ending) }
"""
EXPR_LIST_CLAUSE = ('list_of_expressions', '''r is Ok ==> ({
                let l = sp_expr_list(old(self).tokenizer.toks(), old(self).tokenizer.pos(), old(self).next_label, ending);
                &&& l is Some && final(self).tokenizer.pos() == l->Some_0.end && final(self).next_label == l->Some_0.lbl && final(self).tokenizer.pos() >= old(self).tokenizer.pos()
                &&& r->Ok_0@.len() == l->Some_0.items.len()
                &&& forall|i: int| 0 <= i < r->Ok_0@.len() ==> (#[trigger] r->Ok_0@[i]).1 == l->Some_0.items[i].ast && r->Ok_0@[i].0.details@ == l->Some_0.items[i].details && node_view(r->Ok_0@[i].0.inner) == l->Some_0.items[i].node
            })''', ('C02', 'C17', 'C18'))
ENDING_REQ = ('closing_token_is_a_bracket', 'ending is RParen || ending is RBracket')
