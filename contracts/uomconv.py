"""unit uomconv: `uomConvert` (C16) -- rscel/src/context/default_funcs/uom.rs.

The `uom` crate (typed quantities, floating-point conversion factors) is an external dependency: its API is restated as stand-ins
(S1) with UNINTERPRETED meaning -- `Q::new::<unit>(v)` is `q_new(tag(unit), v)` and `q.get::<unit>()` is `q_get(tag(unit), q)`.  What is
proved is rscel's own part of "agreement with the exact unit definitions": which uom unit each CEL unit name stands for, that the
conversion goes *into* the quantity with the source unit and *out of* it with the target unit (direction), that both directions of
one unit use the same uom unit, the factor for `stone` (14 pounds, applied in the matching direction), and that unknown or
incompatible units are errors.  What uom computes (its factors, its floating-point chains) is assumed."""
from vgen.gen import Unit, A
from . import common as C

F = 'rscel/src/context/default_funcs/uom.rs'
P = ('C16', 'C01')

MASS = ['kilogram', 'gram', 'milligram', 'pound', 'ounce', 'ton', 'slug']
VOLUME = ['liter', 'milliliter', 'gallon', 'quart_liquid', 'quart_dry', 'pint_liquid', 'pint_dry', 'cup', 'fluid_ounce', 'tablespoon', 'teaspoon', 'cubic_meter', 'cubic_foot', 'cubic_yard']
VELOCITY = ['meter_per_second', 'kilometer_per_hour', 'mile_per_hour', 'foot_per_second', 'knot']
TEMP = ['kelvin', 'degree_celsius', 'degree_fahrenheit']
# every unit uom 0.36 defines for these four quantities (the ones rscel does not use are present so that an edit reaching for one of
# them is decided against the unit definitions instead of failing to type-check)
UOM_ALL = {'mass': ['yottagram', 'zettagram', 'exagram', 'petagram', 'teragram', 'gigagram', 'megagram', 'kilogram', 'hectogram', 'decagram', 'gram', 'decigram', 'centigram', 'milligram', 'microgram', 'nanogram', 'picogram', 'femtogram', 'attogram', 'zeptogram', 'yoctogram', 'carat', 'dalton', 'grain', 'hundredweight_long', 'hundredweight_short', 'ounce', 'ounce_troy', 'pennyweight', 'pound', 'pound_troy', 'slug', 'ton_assay', 'ton_long', 'ton_short', 'ton'], 'volume': ['cubic_yottameter', 'cubic_zettameter', 'cubic_exameter', 'cubic_petameter', 'cubic_terameter', 'cubic_gigameter', 'cubic_megameter', 'cubic_kilometer', 'cubic_hectometer', 'cubic_decameter', 'cubic_meter', 'cubic_decimeter', 'cubic_centimeter', 'cubic_millimeter', 'cubic_micrometer', 'cubic_nanometer', 'cubic_picometer', 'cubic_femtometer', 'cubic_attometer', 'cubic_zeptometer', 'cubic_yoctometer', 'acre_foot', 'barrel', 'bushel', 'cord', 'cubic_foot', 'cubic_inch', 'cubic_mile', 'cubic_yard', 'cup', 'fluid_ounce', 'fluid_ounce_imperial', 'gallon_imperial', 'gallon', 'gill_imperial', 'gill', 'yottaliter', 'zettaliter', 'exaliter', 'petaliter', 'teraliter', 'gigaliter', 'megaliter', 'kiloliter', 'hectoliter', 'decaliter', 'liter', 'deciliter', 'centiliter', 'milliliter', 'microliter', 'nanoliter', 'picoliter', 'femtoliter', 'attoliter', 'zeptoliter', 'yoctoliter', 'peck', 'pint_dry', 'pint_liquid', 'quart_dry', 'quart_liquid', 'stere', 'tablespoon', 'teaspoon', 'register_ton'], 'velocity': ['yottameter_per_second', 'zettameter_per_second', 'exameter_per_second', 'petameter_per_second', 'terameter_per_second', 'gigameter_per_second', 'megameter_per_second', 'kilometer_per_second', 'hectometer_per_second', 'decameter_per_second', 'meter_per_second', 'decimeter_per_second', 'centimeter_per_second', 'millimeter_per_second', 'micrometer_per_second', 'nanometer_per_second', 'picometer_per_second', 'femtometer_per_second', 'attometer_per_second', 'zeptometer_per_second', 'yoctometer_per_second', 'foot_per_hour', 'foot_per_minute', 'foot_per_second', 'inch_per_second', 'kilometer_per_hour', 'knot', 'mile_per_hour', 'mile_per_minute', 'mile_per_second', 'millimeter_per_minute', 'atomic_unit_of_velocity', 'natural_unit_of_velocity', 'speed_of_light_in_vacuum'], 'thermodynamic_temperature': ['yottakelvin', 'zettakelvin', 'exakelvin', 'petakelvin', 'terakelvin', 'gigakelvin', 'megakelvin', 'kilokelvin', 'hectokelvin', 'decakelvin', 'kelvin', 'decikelvin', 'centikelvin', 'millikelvin', 'microkelvin', 'nanokelvin', 'picokelvin', 'femtokelvin', 'attokelvin', 'zeptokelvin', 'yoctokelvin', 'degree_celsius', 'degree_fahrenheit', 'degree_rankine']}
ALLU = list(dict.fromkeys(MASS + VOLUME + VELOCITY + TEMP + [u for f in ('mass', 'volume', 'velocity', 'thermodynamic_temperature') for u in UOM_ALL[f]]))


def camel(u):
    return ''.join(p.capitalize() for p in u.split('_'))


def quantity(name, units):
    return f'''
#[verifier::external_body] pub struct {name} {{ _p: u8 }}
impl Clone for {name} {{ #[verifier::external_body] fn clone(&self) -> (r: Self) ensures r == *self {{ unimplemented!() }} }}
impl Copy for {name} {{}}
impl {name} {{
    #[verifier::external_body] pub fn new<U: UomUnit>(v: f64) -> (r: {name}) ensures q_new(U::tag(), v) == r.q() {{ unimplemented!() }}
    #[verifier::external_body] pub fn get<U: UomUnit>(&self) -> (r: f64) ensures r == q_get(U::tag(), self.q()) {{ unimplemented!() }}
    pub uninterp spec fn q(&self) -> Q;
}}
'''


PRELUDE = r'''
// ---- S1: the uom crate (typed quantities) restated with uninterpreted meaning ---------------------------------------------------
pub enum UTag { ''' + ', '.join(camel(u) for u in ALLU) + r''' }
#[verifier::external_body] pub struct Q { _p: u8 }                       // a physical quantity in uom's internal (SI base) representation
pub uninterp spec fn q_new(unit: UTag, v: f64) -> Q;                     // `v` of `unit` as a quantity
pub uninterp spec fn q_get(unit: UTag, q: Q) -> f64;                     // the quantity measured in `unit`
pub trait UomUnit { spec fn tag() -> UTag; }
''' + '\n'.join(f'#[allow(non_camel_case_types)] pub struct {u}; impl UomUnit for {u} {{ open spec fn tag() -> UTag {{ UTag::{camel(u)} }} }}' for u in ALLU) + '\n' + \
    quantity('Mass', MASS) + quantity('Volume', VOLUME) + quantity('Velocity', VELOCITY) + quantity('ThermodynamicTemperature', TEMP) + r'''
// #[derive(Clone, Copy)] of the five unit enums (derive attributes are dropped by the extraction: assumed derived impls)
''' + ''.join(f'impl Clone for {e} {{ #[verifier::external_body] fn clone(&self) -> (r: Self) ensures r == *self {{ unimplemented!() }} }} impl Copy for {e} {{}}\n' for e in ('Unit', 'MassUnit', 'VolumeUnit', 'SpeedUnit', 'TemperatureUnit')) + r'''// f64 arithmetic (Verus gives the f64 operators an unprovable precondition): uninterpreted, operand order pinned
pub uninterp spec fn fmul(a: f64, b: f64) -> f64;
pub uninterp spec fn fdiv(a: f64, b: f64) -> f64;
#[verifier::external_body] pub fn f_mul(a: f64, b: f64) -> (r: f64) ensures r == fmul(a, b) { unimplemented!() }
#[verifier::external_body] pub fn f_div(a: f64, b: f64) -> (r: f64) ensures r == fdiv(a, b) { unimplemented!() }
#[verifier::external_body] pub fn f_id(a: f64) -> (r: f64) ensures r == a { unimplemented!() }
// ---- the unit definitions: which uom unit a CEL unit stands for (variant name = uom unit name; a stone is 14 pounds) -------------
spec fn mass_tag(u: MassUnit) -> UTag { match u {
    MassUnit::Kilogram => UTag::Kilogram, MassUnit::Gram => UTag::Gram, MassUnit::Milligram => UTag::Milligram, MassUnit::Pound => UTag::Pound,
    MassUnit::Ounce => UTag::Ounce, MassUnit::Stone => UTag::Pound, MassUnit::Ton => UTag::Ton, MassUnit::Slug => UTag::Slug } }
spec fn volume_tag(u: VolumeUnit) -> UTag { match u {
    VolumeUnit::Liter => UTag::Liter, VolumeUnit::Milliliter => UTag::Milliliter, VolumeUnit::Gallon => UTag::Gallon, VolumeUnit::QuartLiquid => UTag::QuartLiquid,
    VolumeUnit::QuartDry => UTag::QuartDry, VolumeUnit::PintLiquid => UTag::PintLiquid, VolumeUnit::PintDry => UTag::PintDry, VolumeUnit::Cup => UTag::Cup,
    VolumeUnit::FluidOunce => UTag::FluidOunce, VolumeUnit::Tablespoon => UTag::Tablespoon, VolumeUnit::Teaspoon => UTag::Teaspoon,
    VolumeUnit::CubicMeter => UTag::CubicMeter, VolumeUnit::CubicFoot => UTag::CubicFoot, VolumeUnit::CubicYard => UTag::CubicYard } }
spec fn speed_tag(u: SpeedUnit) -> UTag { match u {
    SpeedUnit::MeterPerSecond => UTag::MeterPerSecond, SpeedUnit::KilometerPerHour => UTag::KilometerPerHour, SpeedUnit::MilePerHour => UTag::MilePerHour,
    SpeedUnit::FootPerSecond => UTag::FootPerSecond, SpeedUnit::Knot => UTag::Knot } }
spec fn temp_tag(u: TemperatureUnit) -> UTag { match u {
    TemperatureUnit::Kelvin => UTag::Kelvin, TemperatureUnit::Celsius => UTag::DegreeCelsius, TemperatureUnit::Fahrenheit => UTag::DegreeFahrenheit } }
/// the quantity that `v` of unit `u` denotes / the measure of `q` in unit `u`
spec fn mass_in(u: MassUnit, v: f64) -> Q { q_new(mass_tag(u), if u is Stone { fmul(v, 14.0f64) } else { v }) }
spec fn mass_out(u: MassUnit, q: Q) -> f64 { if u is Stone { fdiv(q_get(mass_tag(u), q), 14.0f64) } else { q_get(mass_tag(u), q) } }
/// the CEL unit a name denotes (Unit::from_str: a string match, outside what Verus accepts -- known here by this function only)
uninterp spec fn unit_of(name: Seq<char>) -> Option<Unit>;
/// the conversion: into the quantity with the SOURCE unit, out of it with the TARGET unit; other pairs are incompatible
spec fn convert(base: f64, from: Unit, to: Unit) -> Option<f64> { match (from, to) {
    (Unit::Mass(f), Unit::Mass(t)) => Some(mass_out(t, mass_in(f, base))),
    (Unit::Volume(f), Unit::Volume(t)) => Some(q_get(volume_tag(t), q_new(volume_tag(f), base))),
    (Unit::Speed(f), Unit::Speed(t)) => Some(q_get(speed_tag(t), q_new(speed_tag(f), base))),
    (Unit::Temperature(f), Unit::Temperature(t)) => Some(q_get(temp_tag(t), q_new(temp_tag(f), base))),
    _ => None } }
spec fn convert_named(base: f64, from: Seq<char>, to: Seq<char>, r: CelResult<f64>) -> bool {
    match (unit_of(from), unit_of(to)) {
        (Some(f), Some(t)) => (match convert(base, f, t) { Some(x) => r == Ok::<f64, CelError>(x), None => r is Err }),
        _ => r is Err,
    }
}
#[verifier::external_body] pub fn s_ok_or_else<T, E, F: FnOnce() -> E>(o: Option<T>, f: F) -> (r: Result<T, E>)
    ensures o is Some ==> r is Ok && r->Ok_0 == o->Some_0, o is None ==> r is Err { unimplemented!() }
#[verifier::external_body] pub fn s_unsupported_unit(name: &str) -> (r: String) { unimplemented!() }        // text of an error message
#[verifier::external_body] pub fn s_cannot_convert(from: &str, to: &str) -> (r: String) { unimplemented!() }  // text of an error message
'''

TAGGED = lambda q, tagfn: [('the_named_uom_unit', f'r.q() == q_new({tagfn}(self), value)')]
OUT = lambda tagfn, arg: [('the_named_uom_unit', f'r == q_get({tagfn}(self), {arg}.q())')]


def build():
    U = Unit('uomconv')
    U.global_rewrites.append(C.DYN_REWRITE)
    U.raw(C.HEADER, 'header')
    U.raw(C.STANDINS, 'S1 stand-ins')
    C.value_types(U)
    U.raw(C.DERIVED, 'assumed derived impls')
    U.raw(C.VALUE_SPECS, 'shared vocabulary')
    for e in ('enum Unit', 'enum MassUnit', 'enum VolumeUnit', 'enum SpeedUnit', 'enum TemperatureUnit'):
        U.extract(F, e)
    U.extract(F, 'const STONE_IN_POUNDS')
    U.raw(PRELUDE, 'uom stand-ins and the unit definitions')
    U.raw(C.STD_SPECS, 'assumed std specs')
    U.raw(C.AXIOMS, 'axioms')
    U.extract(C.CE, 'impl CelError', fns={'argument': A(ret='r', ensures=[('kind', 'r is Argument')], props=('C01',))}, others='stub')
    U.extract(F, 'impl Unit', fns={'from_str': A(stub=True, ret='r', ensures=[('ASSUMED_the_unit_the_name_denotes', 'r == unit_of(unit@)')])})
    U.extract(F, 'impl MassUnit', fns={
        'into_mass': A(ret='r', ensures=[('the_named_uom_unit_and_14_pounds_to_the_stone', 'r.q() == mass_in(self, value)')], props=P,
                       rewrites=[('value * STONE_IN_POUNDS', 'f_mul(value, STONE_IN_POUNDS)', 'R2: f64 arithmetic -> trampoline over the uninterpreted IEEE operation')]),
        'from_mass': A(ret='r', ensures=[('the_named_uom_unit_and_14_pounds_to_the_stone', 'r == mass_out(self, mass.q())')], props=P,
                       rewrites=[('mass.get::<pound>() / STONE_IN_POUNDS', 'f_div(mass.get::<pound>(), STONE_IN_POUNDS)', 'R2: f64 arithmetic -> trampoline over the uninterpreted IEEE operation')]),
    })
    U.extract(F, 'impl VolumeUnit', fns={'into_volume': A(ret='r', ensures=TAGGED('Volume', 'volume_tag'), props=P), 'from_volume': A(ret='r', ensures=OUT('volume_tag', 'volume'), props=P)})
    U.extract(F, 'impl SpeedUnit', fns={'into_velocity': A(ret='r', ensures=TAGGED('Velocity', 'speed_tag'), props=P), 'from_velocity': A(ret='r', ensures=OUT('speed_tag', 'velocity'), props=P)})
    U.extract(F, 'impl TemperatureUnit', fns={'into_temperature': A(ret='r', ensures=TAGGED('T', 'temp_tag'), props=P), 'from_temperature': A(ret='r', ensures=OUT('temp_tag', 'temp'), props=P)})
    U.extract(F, 'fn uom_convert_internal', annot=A(
        ret='r', ensures=[('source_unit_in_target_unit_out_unknown_or_incompatible_units_fail', 'convert_named(base, from@, to@, r)')], props=P,
        method_table={'ok_or_else': 's_ok_or_else'},
        rewrites=[('&format!("Unsupported unit \'{}\'.", from)', '&s_unsupported_unit(from)', 'R2: format! (text of an error message) -> trampoline'),
                  ('&format!("Unsupported unit \'{}\'.", to)', '&s_unsupported_unit(to)', 'R2: format! (text of an error message) -> trampoline'),
                  ('&format!(\n            "Cannot convert units \'{}\' -> \'{}\'.",\n            from, to\n        )', '&s_cannot_convert(from, to)', 'R2: format! (text of an error message) -> trampoline')]))
    conv = lambda b: A(ret='r', ensures=[('converts_the_number_itself', f'convert_named({b}, from@, to@, r)')], props=P)
    a0, a1, a2 = conv('int_f64(base as int)'), conv('int_f64(base as int)'), conv('base')
    a0.rewrites = [('base as f64', 'to_f64(base)', C.TO_F64('base')[2])]
    a1.rewrites = [('base as f64', 'to_f64(base)', C.TO_F64('base')[2])]
    a2.rewrites = [('base as f64', 'f_id(base)', 'R2: f64 -> f64 cast is the identity (Verus leaves `as f64` unspecified)')]
    U.extract(F, 'mod methods', fns={'uom_convert#0': a0, 'uom_convert#1': a1, 'uom_convert#2': a2})
    U.raw(C.FOOTER, 'footer')
    return U
