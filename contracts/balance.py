"""unit balance: the code templates the compiler emits are stack-balanced, forward-jumping and label-consistent (C10, and the shape half of C05).
Pure lemmas -- no executable code -- over the SAME spec functions that are the postconditions of the real parse functions
(`ternary_code`, `and_jump` / `or_jump`, `rep_code`, `any_code`, `cases_code` / `match_code`, `fold2` / `code_of`): their text is taken
from the parser units at generation time, not restated.  A left-to-right abstract scan (`run`) tracks the stack height and the height
every pending forward label must be reached with; `blk(c)` = entered with h values, c leaves h + 1 on every path, never touches the
values below h, jumps only forward and only to labels it defines itself."""
import re
from vgen.gen import Unit, A
from . import common as C
from . import pshared as S
from . import parser as P
from . import parser_expr as PE
from . import parser_unary as PU
from . import parser_match as PM

HAS_LOOP_CONTRACTS = False


def slice_fn(text, name):
    """the text of `pub open spec fn <name>` (doc comments included) up to its closing brace at column 0 or end of a one-line body"""
    m = re.search(r'((?:///[^\n]*\n)*)pub open spec fn %s\b' % re.escape(name), text)
    assert m, name
    start = m.start()
    i = text.index('{', m.end())
    depth = 0
    k = i
    while True:
        ch = text[k]
        if ch == '{':
            depth += 1
        elif ch == '}':
            depth -= 1
            if depth == 0:
                break
        k += 1
    return text[start:k + 1] + '\n'


MODEL = r'''
// ---- the abstract scan ------------------------------------------------------------------------------------------------------------
/// (values an instruction needs on the stack, net change of the height) -- restated from the VM arm contracts (units interp_vm_g*);
/// resolved jumps never occur in pre-resolved code
pub open spec fn effect(b: ByteCode) -> Option<(int, int)> {
    match b {
        ByteCode::Push(_) => Some((0, 1)), ByteCode::Pop => Some((1, -1)), ByteCode::Test => Some((1, 0)), ByteCode::Dup => Some((1, 1)),
        ByteCode::Not => Some((1, 0)), ByteCode::Neg => Some((1, 0)),
        ByteCode::Or => Some((2, -1)), ByteCode::And => Some((2, -1)), ByteCode::Add => Some((2, -1)), ByteCode::Sub => Some((2, -1)), ByteCode::Mul => Some((2, -1)),
        ByteCode::Div => Some((2, -1)), ByteCode::Mod => Some((2, -1)), ByteCode::Lt => Some((2, -1)), ByteCode::Le => Some((2, -1)), ByteCode::Eq => Some((2, -1)),
        ByteCode::Ne => Some((2, -1)), ByteCode::Ge => Some((2, -1)), ByteCode::Gt => Some((2, -1)), ByteCode::In => Some((2, -1)),
        ByteCode::Index => Some((2, -1)), ByteCode::Access => Some((2, -1)),
        ByteCode::MkList(n) => Some((n as int, 1 - n as int)), ByteCode::MkDict(n) => Some((2 * (n as int), 1 - 2 * (n as int))),
        ByteCode::Call(n) => Some((n as int + 1, -(n as int))), ByteCode::FmtString(n) => Some((n as int, 1 - n as int)),
        ByteCode::Jmp(_) => None, ByteCode::JmpCond { .. } => None,
    }
}
pub open spec fn is_binary(b: ByteCode) -> bool { effect(b) == Some((2int, -1int)) }
/// the stack height if this point is reachable by falling through, and the height every pending (jumped-to, not yet defined) label must be reached with
pub struct St { pub h: Option<int>, pub pend: Map<u32, int> }
/// one code point; None = ill-formed: pops below the block's floor, a jump from an unreachable point, paths meeting with different heights
pub open spec fn step(p: PreResolvedCodePoint, s: St, floor: int) -> Option<St> {
    match p {
        PreResolvedCodePoint::Bytecode(b) => match (s.h, effect(b)) { (Some(h), Some(e)) => if h - e.0 >= floor { Some(St { h: Some(h + e.1), pend: s.pend }) } else { None }, _ => None },
        PreResolvedCodePoint::Jmp { label } => match s.h {
            Some(h) => if s.pend.contains_key(label) && s.pend[label] != h { None } else { Some(St { h: None, pend: s.pend.insert(label, h) }) },
            None => None },
        PreResolvedCodePoint::JmpCond { when, label } => match s.h {
            Some(h) => if h - 1 < floor || (s.pend.contains_key(label) && s.pend[label] != h - 1) { None } else { Some(St { h: Some(h - 1), pend: s.pend.insert(label, h - 1) }) },
            None => None },
        PreResolvedCodePoint::Label(l) => if s.pend.contains_key(l) {
                match s.h { Some(h) => if h != s.pend[l] { None } else { Some(St { h: Some(h), pend: s.pend.remove(l) }) }, None => Some(St { h: Some(s.pend[l]), pend: s.pend.remove(l) }) }
            } else { Some(s) },
    }
}
pub open spec fn run(c: Seq<PreResolvedCodePoint>, s: St, floor: int) -> Option<St> decreases c.len() {
    if c.len() == 0 { Some(s) } else { match run(c.drop_last(), s, floor) { Some(s1) => step(c.last(), s1, floor), None => None } }
}
/// entered with h values, c leaves exactly h + 1 on every path, never touches the values below h, jumps only forward and only to labels
/// it defines itself (all pending labels it creates are resolved at its end; labels pending outside are untouched)
pub open spec fn blk(c: Seq<PreResolvedCodePoint>, labels: Set<u32>) -> bool {
    forall|h: int, pend: Map<u32, int>| #![trigger run(c, St { h: Some(h), pend: pend }, h)] pend.dom().disjoint(labels) ==> run(c, St { h: Some(h), pend: pend }, h) == Some(St { h: Some(h + 1), pend: pend })
}
/// a match pattern: replaces the copy of the scrutinee by one truth value
pub open spec fn pat(c: Seq<PreResolvedCodePoint>, labels: Set<u32>) -> bool {
    forall|h: int, pend: Map<u32, int>| #![trigger run(c, St { h: Some(h + 1), pend: pend }, h)] pend.dom().disjoint(labels) ==> run(c, St { h: Some(h + 1), pend: pend }, h) == Some(St { h: Some(h + 1), pend: pend })
}
/// the prefix of a || / && level, or of a match after k cases: one value, and (once a jump was emitted) the shared label pending with that height
pub open spec fn pblk(c: Seq<PreResolvedCodePoint>, label: u32, labels: Set<u32>, jumped: bool) -> bool {
    forall|h: int, pend: Map<u32, int>| #![trigger run(c, St { h: Some(h), pend: pend }, h)] pend.dom().disjoint(labels) && !pend.contains_key(label) ==>
        run(c, St { h: Some(h), pend: pend }, h) == Some(St { h: Some(h + 1), pend: if jumped { pend.insert(label, h + 1) } else { pend } })
}

pub proof fn lemma_run_append(a: Seq<PreResolvedCodePoint>, b: Seq<PreResolvedCodePoint>, s: St, floor: int)
    ensures run(a + b, s, floor) == (match run(a, s, floor) { Some(s1) => run(b, s1, floor), None => None })
    decreases b.len()
{
    if b.len() == 0 { assert(a + b =~= a); } else {
        assert((a + b).drop_last() =~= a + b.drop_last());
        assert((a + b).last() == b.last());
        lemma_run_append(a, b.drop_last(), s, floor);
    }
}
pub proof fn lemma_run_push(c: Seq<PreResolvedCodePoint>, p: PreResolvedCodePoint, s: St, floor: int)
    ensures run(c.push(p), s, floor) == (match run(c, s, floor) { Some(s1) => step(p, s1, floor), None => None })
{ assert(c.push(p).drop_last() =~= c); }
/// a block that is well formed over a floor is well formed (with the same result) over a deeper stack
pub proof fn lemma_floor_mono(c: Seq<PreResolvedCodePoint>, s: St, f1: int, f2: int)
    requires f2 <= f1, run(c, s, f1) is Some
    ensures run(c, s, f2) == run(c, s, f1)
    decreases c.len()
{ if c.len() > 0 { lemma_floor_mono(c.drop_last(), s, f1, f2); } }
pub proof fn lemma_blk_at(c: Seq<PreResolvedCodePoint>, labels: Set<u32>, h: int, pend: Map<u32, int>, floor: int)
    requires blk(c, labels), pend.dom().disjoint(labels), floor <= h
    ensures run(c, St { h: Some(h), pend: pend }, floor) == Some(St { h: Some(h + 1), pend: pend })
{ lemma_floor_mono(c, St { h: Some(h), pend: pend }, h, floor); }
'''

LEMMAS = r'''
// ---- the templates ------------------------------------------------------------------------------------------------------------------
/// a folded constant is one PUSH
pub proof fn law_constant_is_balanced(v: CelValue) ensures blk(code_of(SNode::Const(v)), Set::empty())
{
    let c = code_of(SNode::Const(v));
    assert forall|h: int, pend: Map<u32, int>| true implies #[trigger] run(c, St { h: Some(h), pend: pend }, h) == Some(St { h: Some(h + 1), pend: pend }) by {
        let e = Seq::<PreResolvedCodePoint>::empty();
        lemma_run_push(e, bc(ByteCode::Push(v)), St { h: Some(h), pend: pend }, h);
        assert(c =~= e.push(bc(ByteCode::Push(v))));
    }
}
/// every binary level, index: operands in order, then the operator -- folded or not
pub proof fn law_binary_fold_is_balanced(op: ByteCode, a: SNode, b: SNode, la: Set<u32>, lb: Set<u32>)
    requires blk(code_of(a), la), blk(code_of(b), lb), is_binary(op)
    ensures blk(code_of(fold2(op, a, b)), la + lb)
{
    if a is Const && b is Const {
        law_constant_is_balanced(op2(op, a->Const_0, b->Const_0));
        assert forall|h: int, pend: Map<u32, int>| pend.dom().disjoint(la + lb) implies #[trigger] run(code_of(fold2(op, a, b)), St { h: Some(h), pend: pend }, h) == Some(St { h: Some(h + 1), pend: pend }) by {
            assert(pend.dom().disjoint(Set::<u32>::empty()));
        }
    } else {
        let full = code_of(a) + code_of(b) + seq![bc(op)];
        assert(code_of(fold2(op, a, b)) == full);
        assert forall|h: int, pend: Map<u32, int>| pend.dom().disjoint(la + lb) implies #[trigger] run(full, St { h: Some(h), pend: pend }, h) == Some(St { h: Some(h + 1), pend: pend }) by {
            let s0 = St { h: Some(h), pend: pend };
            assert(pend.dom().disjoint(la) && pend.dom().disjoint(lb));
            lemma_blk_at(code_of(a), la, h, pend, h);
            lemma_blk_at(code_of(b), lb, h + 1, pend, h);
            lemma_run_append(code_of(a), code_of(b), s0, h);
            assert(full =~= (code_of(a) + code_of(b)).push(bc(op)));
            lemma_run_push(code_of(a) + code_of(b), bc(op), s0, h);
        }
    }
}
/// c ? t : e -- exactly one of t, e runs, each path ends with one value, a failed condition skips both (jumps on with the tested value)
pub proof fn law_ternary_is_balanced(c: Seq<PreResolvedCodePoint>, t: Seq<PreResolvedCodePoint>, e: Seq<PreResolvedCodePoint>, lc: Set<u32>, lt: Set<u32>, le: Set<u32>, l1: u32, l2: u32)
    requires blk(c, lc), blk(t, lt), blk(e, le), l1 != l2, !(lc + lt + le).contains(l1), !(lc + lt + le).contains(l2)
    ensures blk(ternary_code(c, t, e, l1, l2), lc + lt + le + set![l1, l2])
{
    let all = lc + lt + le + set![l1, l2];
    let full = ternary_code(c, t, e, l1, l2);
    assert forall|h: int, pend: Map<u32, int>| pend.dom().disjoint(all) implies #[trigger] run(full, St { h: Some(h), pend: pend }, h) == Some(St { h: Some(h + 1), pend: pend }) by {
        let s0 = St { h: Some(h), pend: pend };
        assert(!pend.contains_key(l1) && !pend.contains_key(l2)) by { assert(all.contains(l1) && all.contains(l2)); }
        assert(pend.dom().disjoint(lc));
        lemma_blk_at(c, lc, h, pend, h);
        let k1 = c.push(bc(ByteCode::Test)); lemma_run_push(c, bc(ByteCode::Test), s0, h);
        let k2 = k1.push(bc(ByteCode::Dup)); lemma_run_push(k1, bc(ByteCode::Dup), s0, h);
        let j1 = PreResolvedCodePoint::JmpCond { when: JmpWhen::False, label: l1 };
        let k3 = k2.push(j1); lemma_run_push(k2, j1, s0, h);
        let k4 = k3.push(bc(ByteCode::Pop)); lemma_run_push(k3, bc(ByteCode::Pop), s0, h);
        let p1 = pend.insert(l1, h + 1);
        assert(run(k4, s0, h) == Some(St { h: Some(h), pend: p1 }));
        assert(p1.dom().disjoint(lt)) by { assert forall|x: u32| p1.dom().contains(x) && lt.contains(x) implies false by { if x == l1 { assert((lc + lt + le).contains(l1)); } else { assert(pend.dom().contains(x)); assert(all.contains(x)); } } }
        lemma_blk_at(t, lt, h, p1, h);
        lemma_run_append(k4, t, s0, h);
        let k5 = k4 + t;
        let j2 = PreResolvedCodePoint::Jmp { label: l2 };
        let k6 = k5.push(j2); lemma_run_push(k5, j2, s0, h);
        let p2 = p1.insert(l2, h + 1);
        let k7 = k6.push(PreResolvedCodePoint::Label(l1)); lemma_run_push(k6, PreResolvedCodePoint::Label(l1), s0, h);
        let p3 = p2.remove(l1);
        let k8 = k7.push(bc(ByteCode::Dup)); lemma_run_push(k7, bc(ByteCode::Dup), s0, h);
        let k9 = k8.push(bc(ByteCode::Not)); lemma_run_push(k8, bc(ByteCode::Not), s0, h);
        let j3 = PreResolvedCodePoint::JmpCond { when: JmpWhen::False, label: l2 };
        let k10 = k9.push(j3); lemma_run_push(k9, j3, s0, h);
        assert(p3.insert(l2, h + 1) =~= p3);
        let k11 = k10.push(bc(ByteCode::Pop)); lemma_run_push(k10, bc(ByteCode::Pop), s0, h);
        assert(run(k11, s0, h) == Some(St { h: Some(h), pend: p3 }));
        assert(p3.dom().disjoint(le)) by { assert forall|x: u32| p3.dom().contains(x) && le.contains(x) implies false by { if x == l2 { assert((lc + lt + le).contains(l2)); } else { assert(pend.dom().contains(x)); assert(all.contains(x)); } } }
        lemma_blk_at(e, le, h, p3, h);
        lemma_run_append(k11, e, s0, h);
        let k12 = k11 + e;
        let k13 = k12.push(PreResolvedCodePoint::Label(l2)); lemma_run_push(k12, PreResolvedCodePoint::Label(l2), s0, h);
        assert(p3.remove(l2) =~= pend);
        assert(k13 =~= full);
    }
}
/// || and && : the first operand alone is a prefix without a pending jump
pub proof fn law_logic_first(a: Seq<PreResolvedCodePoint>, la: Set<u32>, label: u32) requires blk(a, la) ensures pblk(a, label, la, false) {}
/// one more `op operand`: TEST DUP JMPCOND(label) operand OP -- the short-circuit exit carries ONE value (the tested copy)
pub proof fn law_logic_step(x: Seq<PreResolvedCodePoint>, jump: Seq<PreResolvedCodePoint>, b: Seq<PreResolvedCodePoint>, op: ByteCode, lx: Set<u32>, lb: Set<u32>, label: u32, jumped: bool)
    requires pblk(x, label, lx, jumped), blk(b, lb), !lb.contains(label), is_binary(op), jump == and_jump(label) || jump == or_jump(label)
    ensures pblk(x + jump + b + seq![bc(op)], label, lx + lb, true)
{
    let full = x + jump + b + seq![bc(op)];
    let when = if jump == and_jump(label) { JmpWhen::False } else { JmpWhen::True };
    assert forall|h: int, pend: Map<u32, int>| pend.dom().disjoint(lx + lb) && !pend.contains_key(label) implies
        #[trigger] run(full, St { h: Some(h), pend: pend }, h) == Some(St { h: Some(h + 1), pend: pend.insert(label, h + 1) }) by {
        let s0 = St { h: Some(h), pend: pend };
        assert(pend.dom().disjoint(lx) && pend.dom().disjoint(lb));
        let p0 = if jumped { pend.insert(label, h + 1) } else { pend };
        assert(run(x, s0, h) == Some(St { h: Some(h + 1), pend: p0 }));
        let k1 = x.push(bc(ByteCode::Test)); lemma_run_push(x, bc(ByteCode::Test), s0, h);
        let k2 = k1.push(bc(ByteCode::Dup)); lemma_run_push(k1, bc(ByteCode::Dup), s0, h);
        let j = PreResolvedCodePoint::JmpCond { when: when, label: label };
        let k3 = k2.push(j); lemma_run_push(k2, j, s0, h);
        let p1 = pend.insert(label, h + 1);
        assert(p0.insert(label, h + 1) =~= p1);
        assert(run(k3, s0, h) == Some(St { h: Some(h + 1), pend: p1 }));
        assert(p1.dom().disjoint(lb)) by { assert forall|y: u32| p1.dom().contains(y) && lb.contains(y) implies false by { if y != label { assert(pend.dom().contains(y)); assert((lx + lb).contains(y)); } } }
        lemma_blk_at(b, lb, h + 1, p1, h);
        lemma_run_append(k3, b, s0, h);
        let k4 = k3 + b;
        let k5 = k4.push(bc(op)); lemma_run_push(k4, bc(op), s0, h);
        assert(k3 =~= x + jump);
        assert(k5 =~= full);
    }
}
/// the level ends with its one label: both the fall-through and every short-circuit exit arrive there with one value
pub proof fn law_logic_close(x: Seq<PreResolvedCodePoint>, lx: Set<u32>, label: u32, jumped: bool)
    requires pblk(x, label, lx, jumped)
    ensures blk(code_of(close_label(SNode::Code(x), label)), lx + set![label])
{
    let full = x + seq![PreResolvedCodePoint::Label(label)];
    assert(code_of(close_label(SNode::Code(x), label)) == full);
    assert forall|h: int, pend: Map<u32, int>| pend.dom().disjoint(lx + set![label]) implies #[trigger] run(full, St { h: Some(h), pend: pend }, h) == Some(St { h: Some(h + 1), pend: pend }) by {
        let s0 = St { h: Some(h), pend: pend };
        assert(!pend.contains_key(label)) by { assert((lx + set![label]).contains(label)); }
        assert(pend.dom().disjoint(lx));
        assert(full =~= x.push(PreResolvedCodePoint::Label(label)));
        lemma_run_push(x, PreResolvedCodePoint::Label(label), s0, h);
        assert(pend.insert(label, h + 1).remove(label) =~= pend);
    }
}
/// runs of `!` / `-`: the member's code, then one instruction per prefix token
pub proof fn law_prefix_run_is_balanced(m: Seq<PreResolvedCodePoint>, lm: Set<u32>, op: ByteCode, n: nat)
    requires blk(m, lm), op is Not || op is Neg
    ensures blk(m + rep_code(op, n), lm)
    decreases n
{
    if n == 0 { assert(m + rep_code(op, 0) =~= m); } else {
        law_prefix_run_is_balanced(m, lm, op, (n - 1) as nat);
        let x = m + rep_code(op, (n - 1) as nat);
        let full = x.push(bc(op));
        assert(m + rep_code(op, n) =~= full);
        assert forall|h: int, pend: Map<u32, int>| pend.dom().disjoint(lm) implies #[trigger] run(full, St { h: Some(h), pend: pend }, h) == Some(St { h: Some(h + 1), pend: pend }) by {
            lemma_run_push(x, bc(op), St { h: Some(h), pend: pend }, h);
        }
    }
}
/// `case _`
pub proof fn law_wildcard_is_a_pattern() ensures pat(any_code(), Set::empty())
{
    let ac = any_code();
    assert forall|h: int, pend: Map<u32, int>| true implies #[trigger] run(ac, St { h: Some(h + 1), pend: pend }, h) == Some(St { h: Some(h + 1), pend: pend }) by {
        let s0 = St { h: Some(h + 1), pend: pend };
        let e = Seq::<PreResolvedCodePoint>::empty();
        lemma_run_push(e, bc(ByteCode::Pop), s0, h); lemma_run_push(e.push(bc(ByteCode::Pop)), bc(ByteCode::Push(CelValue::Bool(true))), s0, h);
        assert(ac =~= e.push(bc(ByteCode::Pop)).push(bc(ByteCode::Push(CelValue::Bool(true)))));
    }
}
/// `case <op> expr` (comparison pattern): operand, then the comparison against the copy
pub proof fn law_comparison_is_a_pattern(o: Seq<PreResolvedCodePoint>, lo: Set<u32>, op: ByteCode)
    requires blk(o, lo), is_binary(op)
    ensures pat(o + seq![bc(op)], lo)
{
    let full = o + seq![bc(op)];
    assert forall|h: int, pend: Map<u32, int>| pend.dom().disjoint(lo) implies #[trigger] run(full, St { h: Some(h + 1), pend: pend }, h) == Some(St { h: Some(h + 1), pend: pend }) by {
        lemma_blk_at(o, lo, h + 1, pend, h);
        assert(full =~= o.push(bc(op)));
        lemma_run_push(o, bc(op), St { h: Some(h + 1), pend: pend }, h);
    }
}
/// one more case after the scrutinee and the previous cases: DUP pattern JMPCOND(false -> next) [POP arm] JMP end next:
pub proof fn law_match_case(x: Seq<PreResolvedCodePoint>, p: Seq<PreResolvedCodePoint>, e: Seq<PreResolvedCodePoint>, lx: Set<u32>, lp: Set<u32>, le: Set<u32>, l_end: u32, l_case: u32, jumped: bool)
    requires pblk(x, l_end, lx, jumped), pat(p, lp), blk(e, le), l_case != l_end, !(lx + lp + le).contains(l_case), !(lp + le).contains(l_end)
    ensures pblk(x + seq![bc(ByteCode::Dup)] + p + seq![PreResolvedCodePoint::JmpCond { when: JmpWhen::False, label: l_case }] + (seq![bc(ByteCode::Pop)] + e)
                 + seq![PreResolvedCodePoint::Jmp { label: l_end }, PreResolvedCodePoint::Label(l_case)], l_end, lx + lp + le + set![l_case], true)
{
    let all = lx + lp + le + set![l_case];
    let jc = PreResolvedCodePoint::JmpCond { when: JmpWhen::False, label: l_case };
    let full = x + seq![bc(ByteCode::Dup)] + p + seq![jc] + (seq![bc(ByteCode::Pop)] + e) + seq![PreResolvedCodePoint::Jmp { label: l_end }, PreResolvedCodePoint::Label(l_case)];
    assert forall|h: int, pend: Map<u32, int>| pend.dom().disjoint(all) && !pend.contains_key(l_end) implies
        #[trigger] run(full, St { h: Some(h), pend: pend }, h) == Some(St { h: Some(h + 1), pend: pend.insert(l_end, h + 1) }) by {
        let s0 = St { h: Some(h), pend: pend };
        assert(!pend.contains_key(l_case)) by { assert(all.contains(l_case)); }
        assert(pend.dom().disjoint(lx));
        let p0 = if jumped { pend.insert(l_end, h + 1) } else { pend };
        assert(run(x, s0, h) == Some(St { h: Some(h + 1), pend: p0 }));
        let k1 = x.push(bc(ByteCode::Dup)); lemma_run_push(x, bc(ByteCode::Dup), s0, h);
        assert(p0.dom().disjoint(lp)) by { assert forall|y: u32| p0.dom().contains(y) && lp.contains(y) implies false by { if y == l_end { assert((lp + le).contains(l_end)); } else { assert(pend.dom().contains(y)); assert(all.contains(y)); } } }
        assert(run(p, St { h: Some(h + 2), pend: p0 }, h + 1) == Some(St { h: Some(h + 2), pend: p0 }));
        lemma_floor_mono(p, St { h: Some(h + 2), pend: p0 }, h + 1, h);
        lemma_run_append(k1, p, s0, h);
        let k2 = k1 + p;
        let k3 = k2.push(jc); lemma_run_push(k2, jc, s0, h);
        let p1 = p0.insert(l_case, h + 1);
        let k4 = k3.push(bc(ByteCode::Pop)); lemma_run_push(k3, bc(ByteCode::Pop), s0, h);
        assert(run(k4, s0, h) == Some(St { h: Some(h), pend: p1 }));
        assert(p1.dom().disjoint(le)) by { assert forall|y: u32| p1.dom().contains(y) && le.contains(y) implies false by {
            if y == l_case { assert((lx + lp + le).contains(l_case)); } else if y == l_end { assert((lp + le).contains(l_end)); } else { assert(pend.dom().contains(y)); assert(all.contains(y)); } } }
        lemma_blk_at(e, le, h, p1, h);
        lemma_run_append(k4, e, s0, h);
        let k5 = k4 + e;
        let je = PreResolvedCodePoint::Jmp { label: l_end };
        let k6 = k5.push(je); lemma_run_push(k5, je, s0, h);
        let p2 = p1.insert(l_end, h + 1);
        let k7 = k6.push(PreResolvedCodePoint::Label(l_case)); lemma_run_push(k6, PreResolvedCodePoint::Label(l_case), s0, h);
        assert(p2.remove(l_case) =~= pend.insert(l_end, h + 1));
        assert(k7 =~= full);
    }
}
/// no case matched: drop the scrutinee, push null, and meet every taken arm at the exit label with one value
pub proof fn law_match_close(x: Seq<PreResolvedCodePoint>, lx: Set<u32>, l_end: u32, jumped: bool)
    requires pblk(x, l_end, lx, jumped)
    ensures blk(x + seq![bc(ByteCode::Pop), bc(ByteCode::Push(CelValue::Null)), PreResolvedCodePoint::Label(l_end)], lx + set![l_end])
{
    let full = x + seq![bc(ByteCode::Pop), bc(ByteCode::Push(CelValue::Null)), PreResolvedCodePoint::Label(l_end)];
    assert forall|h: int, pend: Map<u32, int>| pend.dom().disjoint(lx + set![l_end]) implies #[trigger] run(full, St { h: Some(h), pend: pend }, h) == Some(St { h: Some(h + 1), pend: pend }) by {
        let s0 = St { h: Some(h), pend: pend };
        assert(!pend.contains_key(l_end)) by { assert((lx + set![l_end]).contains(l_end)); }
        assert(pend.dom().disjoint(lx));
        let k1 = x.push(bc(ByteCode::Pop)); lemma_run_push(x, bc(ByteCode::Pop), s0, h);
        let k2 = k1.push(bc(ByteCode::Push(CelValue::Null))); lemma_run_push(k1, bc(ByteCode::Push(CelValue::Null)), s0, h);
        let k3 = k2.push(PreResolvedCodePoint::Label(l_end)); lemma_run_push(k2, PreResolvedCodePoint::Label(l_end), s0, h);
        assert(pend.insert(l_end, h + 1).remove(l_end) =~= pend);
        assert(k3 =~= full);
    }
}
'''

LAWS = ['law_constant_is_balanced', 'law_binary_fold_is_balanced', 'law_ternary_is_balanced', 'law_logic_first', 'law_logic_step', 'law_logic_close',
        'law_prefix_run_is_balanced', 'law_wildcard_is_a_pattern', 'law_comparison_is_a_pattern', 'law_match_case', 'law_match_close']


def build():
    U = Unit('balance')
    U.global_rewrites.append(C.DYN_REWRITE)
    U.raw(C.HEADER, 'header')
    U.raw(C.STANDINS, 'S1 stand-ins')
    C.value_types(U)
    U.extract(S.PR, 'enum PreResolvedCodePoint')
    core = ''.join(slice_fn(P.PRELUDE, n) for n in ('code_of', 'fold2', 'close_label'))
    core = 'pub uninterp spec fn op2(op: ByteCode, a: CelValue, b: CelValue) -> CelValue;\npub enum SNode { Const(CelValue), Code(Seq<PreResolvedCodePoint>) }\n' + core
    templates = (slice_fn(PE.SPEC, 'bc') + slice_fn(PE.SPEC, 'ternary_code') + slice_fn(P.AND, 'and_jump') + slice_fn(P.OR, 'or_jump')
                 + slice_fn(PU.SPEC, 'rep_code') + slice_fn(PM.SPEC, 'any_code'))
    U.raw('// ---- spec functions taken verbatim from the parser units (they are the postconditions of the real parse functions) ----\n' + core + templates + MODEL + LEMMAS, 'model and lemmas')
    U.lemmas = [(n, ('C10', 'C05')) for n in LAWS]
    U.raw(C.FOOTER, 'footer')
    return U
