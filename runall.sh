#!/bin/sh
# Acceptance run, exactly as /verif is exercised: setup, then every registered quick command once on the unchanged tree with its
# evidence file removed first.  Must print rc=0 viol=0 ev=y for every property before anything under /verif is committed
# (a contract file shared by several units -- e.g. wiring.PRELUDE, which strfuncs composes with its own -- is only covered this way).
cd /verif || exit 2
export CARGO_NET_OFFLINE=true GOPROXY=off PIP_NO_INDEX=1 VERIF_SEED=1 VERIF_TIER=${VERIF_TIER:-quick}
sh -c "$(python3 -c "import json;print(json.load(open('MANIFEST.json'))['setup_cmd'])")" || { echo "setup failed"; exit 2; }
mkdir -p out/runall; bad=0
for id in $(python3 -c "import json;print(' '.join(c['property_id'] for c in json.load(open('MANIFEST.json'))['checks']))"); do
  rm -f evidence/$id.json; s=$(date +%s)
  sh -c "$(python3 -c "import json,sys;print([c for c in json.load(open('MANIFEST.json'))['checks'] if c['property_id']==sys.argv[1]][0]['quick_cmd'])" $id)" > out/runall/$id.log 2>&1; rc=$?
  v=$(grep -c '^VIOLATION' out/runall/$id.log); ev=$([ -s evidence/$id.json ] && echo y || echo n)
  echo "$id rc=$rc $(( $(date +%s)-s ))s viol=$v kf=$(grep -c '^KNOWN-FINDING' out/runall/$id.log) ev=$ev"
  [ $rc -eq 0 ] && [ $v -eq 0 ] && [ $ev = y ] || bad=1
done
exit $bad
