#!/bin/sh
# Warms caches only: every check regenerates its Verus input from /repo and rebuilds the replay/Kani artefacts it needs.
cd /verif || exit 1
mkdir -p out evidence .cache
export CARGO_NET_OFFLINE=true
# replay binary (path-depends on /repo/rscel)
cp -f /repo/Cargo.lock /verif/replay/Cargo.lock 2>/dev/null
(cd /verif/replay && CARGO_TARGET_DIR=/verif/.cache/replay-target cargo build --offline >/verif/out/setup-replay.log 2>&1) || echo "setup: replay build failed (checks rebuild it on demand)"
exit 0
