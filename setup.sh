#!/bin/sh
# builds nothing that the checks do not rebuild themselves; warms caches only
cd /verif || exit 1
mkdir -p out evidence .cache
exit 0
