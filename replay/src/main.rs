//! Re-executes a counterexample on the real rscel (path dependency on /repo/rscel, rebuilt from the working tree).
//! stdin: {"expr": "a + b", "bindings": {"a": {"int": "-1"}, "b": {"uint": "5"}, ...}}
//! stdout: {"outcome": "value"|"error"|"panic"|"compile_error"|"compile_panic", "type": .., "value": .., "detail": ..}
use rscel::{BindContext, CelContext, CelValue};
use std::io::Read;
use std::panic;

fn mk(v: &serde_json::Value) -> CelValue {
    let o = v.as_object().expect("binding object");
    let (k, x) = o.iter().next().expect("one key");
    let s = x.as_str().map(|s| s.to_owned()).unwrap_or_else(|| x.to_string());
    match k.as_str() {
        "int" => CelValue::from_int(s.parse::<i64>().expect("i64")),
        "uint" => CelValue::from_uint(s.parse::<u64>().expect("u64")),
        "float_bits" => CelValue::from_float(f64::from_bits(s.parse::<u64>().expect("bits"))),
        "float" => CelValue::from_float(s.parse::<f64>().expect("f64")),
        "bool" => CelValue::from_bool(s == "true"),
        "string" => CelValue::from_string(s),
        "null" => CelValue::from_null(),
        "timestamp_s_ns" => {
            let mut it = s.split(',');
            let secs: i64 = it.next().unwrap().trim().parse().unwrap();
            let ns: u32 = it.next().unwrap().trim().parse().unwrap();
            CelValue::from_timestamp(chrono::DateTime::<chrono::Utc>::from_timestamp(secs, ns).expect("valid timestamp"))
        }
        "duration_s_ns" => {
            let mut it = s.split(',');
            let secs: i64 = it.next().unwrap().trim().parse().unwrap();
            let ns: u32 = it.next().unwrap().trim().parse().unwrap();
            CelValue::from_duration(chrono::Duration::new(secs, ns).expect("valid duration"))
        }
        "list_int" => CelValue::from_list(x.as_array().unwrap().iter().map(|e| CelValue::from_int(e.as_str().unwrap().parse().unwrap())).collect()),
        other => panic!("unknown binding kind {}", other),
    }
}

fn show(v: &CelValue) -> (String, String) {
    match v {
        CelValue::Int(i) => ("int".into(), i.to_string()),
        CelValue::UInt(u) => ("uint".into(), u.to_string()),
        CelValue::Float(f) => ("float_bits".into(), f.to_bits().to_string()),
        CelValue::Bool(b) => ("bool".into(), b.to_string()),
        CelValue::String(s) => ("string".into(), s.clone()),
        CelValue::Null => ("null".into(), "null".into()),
        CelValue::TimeStamp(t) => ("timestamp_s_ns".into(), format!("{},{}", t.timestamp(), t.timestamp_subsec_nanos())),
        CelValue::Duration(d) => ("duration_s_ns".into(), format!("{},{}", d.num_seconds(), d.subsec_nanos())),
        other => ("other".into(), format!("{:?}", other)),
    }
}

fn main() {
    let mut inp = String::new();
    std::io::stdin().read_to_string(&mut inp).unwrap();
    let req: serde_json::Value = serde_json::from_str(&inp).expect("json");
    let expr = req["expr"].as_str().expect("expr").to_owned();
    let binds = req["bindings"].as_object().cloned().unwrap_or_default();
    panic::set_hook(Box::new(|_| {}));
    let mut out = serde_json::Map::new();
    let mut ctx = CelContext::new();
    if let Some(progs) = req["programs"].as_object() {
        for (name, src) in progs.iter() {
            let _ = ctx.add_program_str(name, src.as_str().unwrap_or(""));
        }
    }
    let e2 = expr.clone();
    let compiled = panic::catch_unwind(panic::AssertUnwindSafe(|| ctx.add_program_str("main", &e2)));
    match compiled {
        Err(p) => {
            out.insert("outcome".into(), "compile_panic".into());
            out.insert("detail".into(), payload(p).into());
        }
        Ok(Err(e)) => {
            out.insert("outcome".into(), "compile_error".into());
            out.insert("detail".into(), format!("{}", e).into());
        }
        Ok(Ok(())) => {
            if let Some(d) = ctx.program_details("main") {
                let mut ps: Vec<String> = d.params().iter().map(|s| s.to_string()).collect();
                ps.sort();
                out.insert("params".into(), ps.into());
            }
            let mut bc = BindContext::new();
            for (k, v) in binds.iter() {
                bc.bind_param(k, mk(v));
            }
            let r = panic::catch_unwind(panic::AssertUnwindSafe(|| ctx.exec("main", &bc)));
            match r {
                Err(p) => {
                    out.insert("outcome".into(), "panic".into());
                    out.insert("detail".into(), payload(p).into());
                }
                Ok(Err(e)) => {
                    out.insert("outcome".into(), "error".into());
                    out.insert("detail".into(), format!("{:?}", e).into());
                }
                Ok(Ok(v)) => {
                    let (t, s) = show(&v);
                    out.insert("outcome".into(), "value".into());
                    out.insert("type".into(), t.into());
                    out.insert("value".into(), s.into());
                }
            }
        }
    }
    println!("{}", serde_json::Value::Object(out));
}

fn payload(p: Box<dyn std::any::Any + Send>) -> String {
    if let Some(s) = p.downcast_ref::<&str>() {
        s.to_string()
    } else if let Some(s) = p.downcast_ref::<String>() {
        s.clone()
    } else {
        "panic".into()
    }
}
