#!/usr/bin/env python3
"""regenerate MANIFEST.json from contracts/registry.py (claimed properties) + the not_applicable reasons below"""
import json, sys
sys.path.insert(0, '/verif')
from contracts import registry as R
from vgen import tagcheck
if tagcheck.main() != 0:
    sys.exit('registry.py: a tagged function/clause is in no unit of its property (see vgen/tagcheck.py)')

NA = {
    'C11': 'whole-history / schedule property (operation sequences, 16 threads): no per-call contract expresses it; Kani has no threads, Verus would need permission types the code does not have. The one per-call ingredient (fixed key iteration order in map/filter) is a clause of C07.',
    'C19': 'the encoders are #[derive(Serialize, Deserialize)] expansions plus serde_json/bincode/serde_with: there is no rscel function to put a round-trip contract on, Verus has no spec for serde, CBMC cannot execute serde_json (format! alone exceeds 10 min).',
    'C20': 'the SQL text is produced only by format! inside to_sql impls: Verus gives format! no specification (string content is not expressible) and CBMC times out on a one-byte literal through format!.',
}
PENDING = 'not reached by the contract machinery in the time available (DESIGN.md section 7); no check is registered, nothing is claimed'

LEVEL_TEXT = {
    'default': 'Every obligation generated from the contracts spliced onto the real functions this property depends on (re-extracted from /repo on each run) is discharged by Verus for all inputs, with no bound; Kani harnesses on the compiled crate add complete (loop-free, full-domain) second proofs and counterexamples. A failed obligation is reported as the violation.',
}

props = [json.loads(l) for l in open('/verif/properties.jsonl')]
m = dict(version=1, setup_cmd='cd /verif && ./setup.sh',
         hooks=dict(guard='none: no hooks in /repo (contract text and cfg(kani) harness modules are spliced into scratch copies only)', enable='n/a',
                    baseline_off_cmd='cd /repo && cargo nextest run --workspace --no-fail-fast --offline', source_commits=[], add_only=True),
         engines=[dict(name='vgen', path='/verif/vgen', serves_properties=sorted(R.PROPS), kind_free_text='contract-based deductive verification: Verus on verbatim-extracted, in-place annotated functions of /repo; Kani harnesses on the compiled crate (scratch copy)')],
         checks=[], notes='see DESIGN.md; evidence/<id>.json lists functions under contract, obligations, assumptions', not_applicable=[])
for p in props:
    pid = p['id']
    if pid in R.PROPS:
        spec = R.PROPS[pid]
        m['checks'].append(dict(
            property_id=pid, quick_cmd=f'./check {pid} --tier quick', thorough_cmd=f'./check {pid} --tier thorough', evidence_file=f'/verif/evidence/{pid}.json',
            replay_cmd_template='./check --replay {path}', engine='vgen',
            level_claimed=dict(category='proof', text=spec.get('level_text', LEVEL_TEXT['default']), design_ref=f'DESIGN.md section 6 {pid}'),
            level_note='trusted: Verus/Z3, Kani/CBMC, vstd std specs, the assumed specs and stand-ins listed in the evidence trusted_base; not covered: ' + '; '.join(spec.get('not_covered', []) or ['-']),
            technique=spec.get('technique', 'function contracts (requires/ensures/invariants) on extracted real code, discharged by Verus/Z3; Kani/CBMC contract harnesses for scalar and chrono code')))
    else:
        m['not_applicable'].append(dict(property_id=pid, reason=NA.get(pid, PENDING)))
json.dump(m, open('/verif/MANIFEST.json', 'w'), indent=1)
print('claimed', [c['property_id'] for c in m['checks']])
