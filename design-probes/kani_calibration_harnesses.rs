// ==== injected into src/lib.rs
#[cfg(kani)]
mod verif_kani {
    use crate::*;
    use crate::compiler::tokens::Token;

    fn ascii3() -> [u8; 3] {
        let b: [u8; 3] = kani::any();
        kani::assume(b[0] < 128 && b[1] < 128 && b[2] < 128);
        b
    }

    #[kani::proof]
    #[kani::unwind(6)]
    fn k1_tokenize_any3() {
        let b = ascii3();
        let s = std::str::from_utf8(&b).unwrap();
        let mut t = StringTokenizer::with_input(s);
        let _ = t.next();
    }

    #[kani::proof]
    #[kani::unwind(6)]
    fn k2_number3() {
        let d: [u8; 3] = kani::any();
        kani::assume(d[0] <= 9 && d[1] <= 9 && d[2] <= 9);
        let b = [b'0' + d[0], b'0' + d[1], b'0' + d[2]];
        let s = std::str::from_utf8(&b).unwrap();
        let mut t = StringTokenizer::with_input(s);
        let tok = t.next().unwrap().unwrap();
        let expect = (d[0] as u64) * 100 + (d[1] as u64) * 10 + d[2] as u64;
        assert!(tok.token == Token::IntLit(expect));
    }
}
// ==== injected into src/context/default_funcs.rs
#[cfg(kani)]
mod verif_kani_funcs {
    use super::*;
    #[kani::proof]
    fn k3_abs() { let a: i64 = kani::any(); let r = math::abs::abs(CelValue::Null, vec![CelValue::Int(a)]); if a != i64::MIN { assert!(r == CelValue::Int(a.abs())); } else { assert!(r.is_err()); } }
    #[kani::proof]
    fn k4_lg() { let a: i64 = kani::any(); let r = math::lg::lg(CelValue::Null, vec![CelValue::Int(a)]); if a <= 0 { assert!(r.is_err()); } }
    #[kani::proof]
    #[kani::unwind(70)]
    fn k5_pow() { let a: i64 = kani::any(); let b: i64 = kani::any(); let _ = math::pow::pow(CelValue::Null, vec![CelValue::Int(a), CelValue::Int(b)]); }
    #[kani::proof]
    #[kani::unwind(8)]
    fn k10_split_at() { let at: i64 = kani::any(); let r = string::split::split_at(CelValue::String("ab".to_owned()), vec![CelValue::Int(at)]); if at < 0 || at > 2 { assert!(r.is_err()); } }
}
// ==== injected into src/context/type_funcs.rs
#[cfg(kani)]
mod verif_kani_types {
    use super::*;
    #[kani::proof]
    fn k9_int_of_uint() { let u: u64 = kani::any(); let r = int_impl(CelValue::Null, vec![CelValue::UInt(u)]); if u <= i64::MAX as u64 { assert!(r == CelValue::Int(u as i64)); } else { assert!(r.is_err()); } }
}
// ==== injected into src/utils/scoped_counter.rs
#[cfg(kani)]
mod verif_kani_sc {
    use super::*;
    #[kani::proof]
    fn k7_scoped() { let c = ScopedCounter::new(); let n: usize = kani::any(); kani::assume(n < usize::MAX); *c.count.borrow_mut() = n; { let r = c.inc(); assert!(r.count() == n + 1); } assert!(c.count() == n); }
}
// ==== injected into src/interp/interp.rs
#[cfg(kani)]
mod verif_kani_interp {
    use super::*;
    #[kani::proof]
    fn k8_jump() {
        let pc: usize = kani::any(); let dist: i32 = kani::any(); let len: usize = kani::any();
        kani::assume(pc <= isize::MAX as usize && len <= isize::MAX as usize);
        let r = Interpreter::checked_jump_target(pc, dist, len);
        let t = pc as i128 + dist as i128;
        if t >= 0 && t <= len as i128 { assert!(r.unwrap() as i128 == t); } else { assert!(r.is_err()); }
    }
}
// ==== injected into src/types/cel_value.rs
#[cfg(kani)]
mod verif_kani_cv {
    use super::*;
    #[kani::proof]
    fn k6_ts_add() {
        let s: i64 = kani::any(); let n: u32 = kani::any();
        let ds: i64 = kani::any();
        let t = match chrono::DateTime::<Utc>::from_timestamp(s, n) { Some(t) => t, None => return };
        let d = match Duration::try_seconds(ds) { Some(d) => d, None => return };
        let r = CelValue::TimeStamp(t) + CelValue::Duration(d);
        let _ = r;
    }
}
// ==== injected into ../extensions/to_sql/src/lib.rs
#[cfg(kani)]
mod verif_kani {
    use super::*;
    use rscel::*;

    #[kani::proof]
    #[kani::unwind(6)]
    fn g1_string_literal() {
        let b: u8 = kani::any();
        kani::assume(b >= 0x20 && b < 0x7f);
        let s = String::from_utf8(vec![b]).unwrap();
        let out = LiteralsAndKeywords::StringLit(s).into_sql_builder().unwrap().to_sql().unwrap();
        let bytes = out.as_bytes();
        assert!(bytes[0] == b'\'');
        assert!(bytes[bytes.len() - 1] == b'\'');
        if b == b'\'' { assert!(bytes.len() == 4); } else { assert!(bytes.len() == 3); }
    }
}
