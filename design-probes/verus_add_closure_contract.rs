use vstd::prelude::*;
use std::ops::Add;
verus! {

pub enum CelError { DivideByZero, Overflow, InvalidOp }

pub enum CelValue {
    Int(i64),
    UInt(u64),
    Bool(bool),
    Null,
    Err(CelError),
}

pub open spec fn spec_add(a: CelValue, b: CelValue) -> CelValue {
    match (a, b) {
        (CelValue::Err(e), _) => CelValue::Err(e),
        (_, CelValue::Err(e)) => CelValue::Err(e),
        (CelValue::Int(x), CelValue::Int(y)) => if i64::MIN <= x + y <= i64::MAX { CelValue::Int((x + y) as i64) } else { CelValue::Err(CelError::Overflow) },
        _ => CelValue::Err(CelError::InvalidOp),
    }
}

impl CelValue {
    pub fn is_err(&self) -> (r: bool) ensures r == (self is Err) {
        if let CelValue::Err(_) = self { true } else { false }
    }
    fn error_prop_or<F>(self, rhs: CelValue, f: F) -> (r: CelValue)
    where
        F: Fn(CelValue, CelValue) -> CelValue,
        requires !(self is Err) && !(rhs is Err) ==> f.requires((self, rhs)),
        ensures
            self is Err ==> r == self,
            !(self is Err) && rhs is Err ==> r == rhs,
            !(self is Err) && !(rhs is Err) ==> f.ensures((self, rhs), r),
    {
        if self.is_err() {
            self
        } else if rhs.is_err() {
            rhs
        } else {
            f(self, rhs)
        }
    }
}

impl Add for CelValue {
    type Output = CelValue;

    fn add(self, rhs_val: Self) -> (r: Self::Output)
        ensures r == spec_add(self, rhs_val)
    {
        self.error_prop_or(rhs_val, |lhs_val: CelValue, rhs_val: CelValue| -> (res: CelValue)
            ensures res == spec_add(lhs_val, rhs_val)
        {
            match lhs_val {
                CelValue::Int(val1) => {
                    if let CelValue::Int(val2) = rhs_val {
                        return match val1.checked_add(val2) { Some(v) => CelValue::Int(v), None => CelValue::Err(CelError::Overflow) };
                    }
                }
                _ => {}
            }
            CelValue::Err(CelError::InvalidOp)
        })
    }
}

fn user(a: i64, b: i64) -> (r: CelValue)
    requires 0 <= a < 100, 0 <= b < 100
    ensures r == CelValue::Int((a + b) as i64)
{
    CelValue::Int(a) + CelValue::Int(b)
}

} // verus!
fn main() {}
