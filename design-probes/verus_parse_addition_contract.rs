use vstd::prelude::*;
verus! {
#[verifier::external_body] pub struct CelValue { _p: u8 }
impl std::ops::Add for CelValue { type Output = CelValue; #[verifier::external_body] fn add(self, rhs: CelValue) -> CelValue { unimplemented!() } }
impl std::ops::Sub for CelValue { type Output = CelValue; #[verifier::external_body] fn sub(self, rhs: CelValue) -> CelValue { unimplemented!() } }
#[verifier::external_body] pub struct CelError { _p: u8 }
#[verifier::external_body] pub struct SyntaxError { _p: u8 }
impl From<SyntaxError> for CelError { #[verifier::external_body] fn from(e: SyntaxError) -> CelError { unimplemented!() } }
pub type CelResult<T> = Result<T, CelError>;
pub enum ByteCode { Push(CelValue), Add, Sub }
pub enum PreResolvedCodePoint { Bytecode(ByteCode), Label(u32) }
impl From<ByteCode> for PreResolvedCodePoint { fn from(value: ByteCode) -> Self { PreResolvedCodePoint::Bytecode(value) } }
pub struct PreResolvedByteCode { inner: Vec<PreResolvedCodePoint>, len: usize }
impl PreResolvedByteCode {
    pub fn new() -> Self { PreResolvedByteCode { inner: Vec::new(), len: 0 } }
    #[verifier::external_body]
    pub fn extend(&mut self, byte_codes: impl IntoIterator<Item = PreResolvedCodePoint>) { unimplemented!() }
    #[verifier::external_body]
    pub fn into_iter(self) -> impl Iterator<Item = PreResolvedCodePoint> { self.inner.into_iter() }
}
#[verifier::external_body] pub struct ProgramDetails { _p: u8 }
impl ProgramDetails {
    #[verifier::external_body] pub fn new() -> ProgramDetails { unimplemented!() }
    #[verifier::external_body] pub fn union_from(&mut self, other: ProgramDetails) { unimplemented!() }
}
pub enum NodeValue { Bytecode(PreResolvedByteCode), ConstExpr(CelValue) }
impl NodeValue {
    #[verifier::external_body] pub fn into_bytecode(self) -> PreResolvedByteCode { unimplemented!() }
}
pub struct CompiledProg { pub inner: NodeValue, pub details: ProgramDetails }
#[derive(Clone, Copy)]
pub struct SourceRange { s: usize, e: usize }
impl SourceRange { #[verifier::external_body] pub fn surrounding(self, other: SourceRange) -> SourceRange { unimplemented!() } }
pub struct AstNode<T> { loc: SourceRange, node: T }
impl<T> AstNode<T> {
    pub fn new(node: T, loc: SourceRange) -> AstNode<T> { AstNode::<T> { loc, node } }
    pub fn range(&self) -> SourceRange { self.loc }
}
pub enum AddOp { Add, Sub }
pub struct Multiplication { x: u8 }
pub enum Addition { Binary { lhs: Box<AstNode<Addition>>, op: AddOp, rhs: AstNode<Multiplication> }, Unary(AstNode<Multiplication>) }
pub enum Token { Add, Minus, Other }
pub struct TokenWithLoc { pub token: Token, pub loc: SourceRange }
pub trait Tokenizer {
    spec fn toks(&self) -> Seq<TokenWithLoc>;
    spec fn pos(&self) -> nat;
    fn peek(&mut self) -> (r: Result<Option<&TokenWithLoc>, SyntaxError>)
        requires old(self).pos() <= old(self).toks().len(),
        ensures
            final(self).toks() == old(self).toks(),
            final(self).pos() == old(self).pos(),
            r is Ok ==> (match r->Ok_0 {
                Some(t) => old(self).pos() < old(self).toks().len() && *t == old(self).toks()[old(self).pos() as int],
                None => old(self).pos() == old(self).toks().len(),
            });
    fn next(&mut self) -> (r: Result<Option<TokenWithLoc>, SyntaxError>)
        requires old(self).pos() <= old(self).toks().len(),
        ensures
            final(self).toks() == old(self).toks(),
            r is Ok ==> (match r->Ok_0 {
                Some(t) => old(self).pos() < old(self).toks().len() && t == old(self).toks()[old(self).pos() as int] && final(self).pos() == old(self).pos() + 1,
                None => old(self).pos() == old(self).toks().len() && final(self).pos() == old(self).pos(),
            }),
            r is Err ==> final(self).pos() == old(self).pos();
}
pub trait AsToken { fn as_token(&self) -> Option<&Token>; }
impl AsToken for Option<&TokenWithLoc> {
    fn as_token(&self) -> (r: Option<&Token>) ensures (match *self { Some(s) => r == Some(&s.token), None => r is None }) { match self { Some(s) => Some(&s.token), None => None } }
}
#[verifier::external_body]
pub fn into_unary(v: (CompiledProg, AstNode<Multiplication>)) -> (r: (CompiledProg, AstNode<Addition>)) ensures add_shape(r.1) == AddShape::Un(mult_shape(v.1)) { unimplemented!() }

macro_rules! compile {
    ($bytecode:expr, $const_expr:expr, $( $child : ident),+) => {
        {
            
            

            let mut new_details = ProgramDetails::new();

            $(
                new_details.union_from($child.details);
            )+

            match ($($child.inner,)+) {
                #[allow(unused_variables)]
                ($(NodeValue::ConstExpr($child),)+) => {
                    let resolved_const = $const_expr;

                    CompiledProg {
                        inner: NodeValue::ConstExpr(resolved_const),
                        details: new_details,
                    }
                }
                ($($child,)+) => {
                let mut new_bytecode = PreResolvedByteCode::new();

                $(
                    new_bytecode.extend($child.into_bytecode().into_iter());
                )+

                new_bytecode.extend($bytecode);

                CompiledProg {
                    inner: NodeValue::Bytecode(new_bytecode),
                    details: new_details,
                }

                }

            }
        }
    };
}


pub enum AddShape { Bin(Box<AddShape>, bool, MultShape), Un(MultShape) }
pub struct MultShape { pub id: int }
pub uninterp spec fn mult_shape(a: AstNode<Multiplication>) -> MultShape;
pub closed spec fn add_shape(a: AstNode<Addition>) -> AddShape
    decreases a
{
    match a.node {
        Addition::Binary { lhs, op, rhs } => AddShape::Bin(Box::new(add_shape(*lhs)), op is Add, mult_shape(rhs)),
        Addition::Unary(m) => AddShape::Un(mult_shape(m)),
    }
}
pub uninterp spec fn sp_mult(toks: Seq<TokenWithLoc>, pos: nat) -> Option<(MultShape, nat)>;
pub open spec fn is_addop(t: Token) -> bool { t is Add || t is Minus }
pub open spec fn sp_add_loop(toks: Seq<TokenWithLoc>, acc: AddShape, p: nat) -> Option<(AddShape, nat)>
    decreases toks.len() - p
{
    if p < toks.len() && is_addop(toks[p as int].token) {
        match sp_mult(toks, p + 1) {
            Some((m, p2)) => if p2 > p && p2 <= toks.len() { sp_add_loop(toks, AddShape::Bin(Box::new(acc), toks[p as int].token is Add, m), p2) } else { None },
            None => None,
        }
    } else {
        Some((acc, p))
    }
}
pub open spec fn sp_add(toks: Seq<TokenWithLoc>, pos: nat) -> Option<(AddShape, nat)> {
    match sp_mult(toks, pos) {
        Some((m, p)) => if p <= toks.len() { sp_add_loop(toks, AddShape::Un(m), p) } else { None },
        None => None,
    }
}

pub struct CelCompiler<'l> { tokenizer: &'l mut dyn Tokenizer, next_label: u32 }
impl<'l> CelCompiler<'l> {
 #[verifier::external_body] fn parse_multiplication(&mut self) -> (r: CelResult<(CompiledProg, AstNode<Multiplication>)>)
        requires old(self).tokenizer.pos() <= old(self).tokenizer.toks().len(),
        ensures final(self).tokenizer.toks() == old(self).tokenizer.toks(),
            final(self).tokenizer.pos() <= final(self).tokenizer.toks().len(),
            r is Ok ==> sp_mult(old(self).tokenizer.toks(), old(self).tokenizer.pos()) == Some((mult_shape(r->Ok_0.1), final(self).tokenizer.pos())) && final(self).tokenizer.pos() > old(self).tokenizer.pos(),
    { unimplemented!() }
    #[verifier::exec_allows_no_decreases_clause]
    fn parse_addition(&mut self) -> (r: CelResult<(CompiledProg, AstNode<Addition>)>)
        requires old(self).tokenizer.pos() <= old(self).tokenizer.toks().len(),
        ensures final(self).tokenizer.toks() == old(self).tokenizer.toks(),
            final(self).tokenizer.pos() <= final(self).tokenizer.toks().len(),
            r is Ok ==> sp_add(old(self).tokenizer.toks(), old(self).tokenizer.pos()) == Some((add_shape(r->Ok_0.1), final(self).tokenizer.pos())),
    {
        let (mut current_node, mut current_ast) = into_unary(self.parse_multiplication()?);

        loop
            invariant
                self.tokenizer.toks() == old(self).tokenizer.toks(),
                self.tokenizer.pos() <= self.tokenizer.toks().len(),
                sp_add(old(self).tokenizer.toks(), old(self).tokenizer.pos()) == sp_add_loop(self.tokenizer.toks(), add_shape(current_ast), self.tokenizer.pos()),
        {
            match self.tokenizer.peek()?.as_token() {
                Some(Token::Add) => {
                    self.tokenizer.next()?;

                    let (rhs_node, rhs_ast) = self.parse_multiplication()?;
                    let range = current_ast.range().surrounding(rhs_ast.range());

                    current_ast = AstNode::new(
                        Addition::Binary {
                            lhs: Box::new(current_ast),
                            op: AddOp::Add,
                            rhs: rhs_ast,
                        },
                        range,
                    );

                    current_node = compile!(
                        [ByteCode::Add.into()],
                        current_node + rhs_node,
                        current_node,
                        rhs_node
                    );
                }
                Some(Token::Minus) => {
                    self.tokenizer.next()?;

                    let (rhs_node, rhs_ast) = self.parse_multiplication()?;
                    let range = current_ast.range().surrounding(rhs_ast.range());

                    current_ast = AstNode::new(
                        Addition::Binary {
                            lhs: Box::new(current_ast),
                            op: AddOp::Sub,
                            rhs: rhs_ast,
                        },
                        range,
                    );

                    current_node = compile!(
                        [ByteCode::Sub.into()],
                        current_node - rhs_node,
                        current_node,
                        rhs_node
                    );
                }
                _ => break,
            }
        }

        Ok((current_node, current_ast))
    }
}

} // verus!
fn main(){}
