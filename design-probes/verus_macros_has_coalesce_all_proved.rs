use vstd::prelude::*;
verus! {

pub enum CelError {
    Misc(String),
    Value(String),
    Argument(String),
    InvalidOp(String),
    Runtime(String),
    Binding { symbol: String },
    Attribute { parent: String, field: String },
    DivideByZero,
    Internal(String),
}
impl CelError {
    #[verifier::external_body]
    pub fn argument(msg: &str) -> (r: CelError) ensures r is Argument { unimplemented!() }
    #[verifier::external_body]
    pub fn value(msg: &str) -> (r: CelError) ensures r is Value { unimplemented!() }
}
pub type CelResult<T> = Result<T, CelError>;

#[verifier::external_body] pub struct CelByteCode { _p: u8 }
#[verifier::external_body] pub struct Opaque { _p: u8 }

pub enum CelValue {
    Int(i64),
    Bool(bool),
    List(Vec<CelValue>),
    Null,
    Other(Opaque),
    Err(CelError),
}
pub uninterp spec fn spec_truthy(v: CelValue) -> bool;
pub trait CelValueDyn { fn is_truthy(&self) -> bool; }
impl CelValueDyn for CelValue {
    #[verifier::external_body]
    fn is_truthy(&self) -> (r: bool) ensures r == spec_truthy(*self) { unimplemented!() }
}
impl Clone for CelValue {
    #[verifier::external_body]
    fn clone(&self) -> (r: CelValue) ensures r == *self { unimplemented!() }
}
impl From<bool> for CelValue { fn from(val: bool) -> (r: CelValue) { CelValue::Bool(val) } }
impl vstd::std_specs::convert::FromSpecImpl<bool> for CelValue {
    open spec fn obeys_from_spec() -> bool { true }
    open spec fn from_spec(v: bool) -> Self { CelValue::Bool(v) }
}
impl From<CelError> for CelValue { fn from(val: CelError) -> (r: CelValue) { CelValue::Err(val) } }
impl vstd::std_specs::convert::FromSpecImpl<CelError> for CelValue {
    open spec fn obeys_from_spec() -> bool { true }
    open spec fn from_spec(v: CelError) -> Self { CelValue::Err(v) }
}
impl From<Vec<CelValue>> for CelValue { fn from(val: Vec<CelValue>) -> (r: CelValue) { CelValue::List(val) } }
impl vstd::std_specs::convert::FromSpecImpl<Vec<CelValue>> for CelValue {
    open spec fn obeys_from_spec() -> bool { true }
    open spec fn from_spec(v: Vec<CelValue>) -> Self { CelValue::List(v) }
}
impl CelValue {
    pub fn from_err(val: CelError) -> (r: CelValue) ensures r == CelValue::Err(val) { CelValue::Err(val) }
    pub fn from_null() -> (r: CelValue) ensures r == CelValue::Null { CelValue::Null }
    pub fn true_() -> (r: CelValue) ensures r == CelValue::Bool(true) { CelValue::Bool(true) }
    pub fn false_() -> (r: CelValue) ensures r == CelValue::Bool(false) { CelValue::Bool(false) }
}

pub struct Env { pub cel: int, pub vars: Map<Seq<char>, CelValue> }
pub uninterp spec fn spec_eval(env: Env, bc: CelByteCode, resolve: bool) -> CelResult<CelValue>;
pub uninterp spec fn spec_ident(bc: CelByteCode) -> CelResult<String>;


pub open spec fn absent(e: CelError) -> bool { e is Binding || e is Attribute }

pub open spec fn spec_has(res: CelResult<CelValue>) -> CelValue {
    match res {
        Ok(_) => CelValue::Bool(true),
        Err(e) => if absent(e) { CelValue::Bool(false) } else { CelValue::Err(e) },
    }
}

pub open spec fn spec_coalesce(env: Env, args: Seq<&CelByteCode>, i: int) -> CelValue
    decreases args.len() - i
{
    if i >= args.len() { CelValue::Null } else {
        match spec_eval(env, *args[i], true) {
            Ok(CelValue::Null) => spec_coalesce(env, args, i + 1),
            Ok(v) => v,
            Err(e) => if absent(e) { spec_coalesce(env, args, i + 1) } else { CelValue::Err(e) },
        }
    }
}

/// all(): left to right, loop variable rebound per element, stop at first falsy or failing body
pub open spec fn spec_all(cel: int, vars: Map<Seq<char>, CelValue>, name: Seq<char>, list: Seq<CelValue>, i: int, body: CelByteCode) -> CelValue
    decreases list.len() - i
{
    if i >= list.len() { CelValue::Bool(true) } else {
        let vars2 = vars.insert(name, list[i]);
        match spec_eval(Env { cel, vars: vars2 }, body, true) {
            Err(e) => CelValue::Err(e),
            Ok(v) => if !spec_truthy(v) { CelValue::Bool(false) } else { spec_all(cel, vars2, name, list, i + 1, body) },
        }
    }
}

pub open spec fn spec_reduce(cel: int, vars: Map<Seq<char>, CelValue>, cur: Seq<char>, next: Seq<char>, list: Seq<CelValue>, i: int, acc: CelValue, step: CelByteCode) -> CelValue
    decreases list.len() - i
{
    if i >= list.len() { acc } else {
        let vars2 = vars.insert(next, list[i]).insert(cur, acc);
        match spec_eval(Env { cel, vars: vars2 }, step, true) {
            Err(e) => CelValue::Err(e),
            Ok(v) => spec_reduce(cel, vars2, cur, next, list, i + 1, v, step),
        }
    }
}

#[verifier::external_body] pub struct CelContext { _p: u8 }
#[verifier::external_body] pub struct BindContext<'a> { _p: &'a u8 }
#[verifier::external_body] pub struct Interpreter<'a> { _p: &'a u8 }
impl CelContext { pub uninterp spec fn view(&self) -> int; }
impl<'a> BindContext<'a> {
    pub uninterp spec fn view(&self) -> Map<Seq<char>, CelValue>;
    #[verifier::external_body]
    pub fn bind_param(&mut self, name: &str, value: CelValue)
        ensures final(self)@ == old(self)@.insert(name@, value)
    { unimplemented!() }
}
impl<'a> Interpreter<'a> {
    pub uninterp spec fn view(&self) -> Env;
    #[verifier::external_body]
    pub fn new(cel: &'a CelContext, bindings: &'a BindContext) -> (r: Interpreter<'a>)
        ensures r@ == (Env { cel: cel@, vars: bindings@ })
    { unimplemented!() }
    #[verifier::external_body]
    pub fn run_raw(&self, prog: &CelByteCode, resolve: bool) -> (r: CelResult<CelValue>)
        ensures r == spec_eval(self@, *prog, resolve)
    { unimplemented!() }
}
#[verifier::external_body]
pub fn eval_ident(prog: &CelByteCode) -> (r: CelResult<String>) ensures r == spec_ident(*prog) { unimplemented!() }
mod helpers {
    use super::*;
    #[verifier::external_body]
    pub fn setup_context<'a>(ctx: &'a Interpreter<'a>) -> (r: (CelContext, BindContext<'a>))
        ensures r.0@ == ctx@.cel, r.1@ == ctx@.vars
    { unimplemented!() }
}
pub fn all_impl(ctx: &Interpreter, this: CelValue, bytecode: &[&CelByteCode]) -> (r: CelValue)
    ensures
        bytecode@.len() != 2 ==> (r is Err && r->Err_0 is Argument),
        bytecode@.len() == 2 && spec_ident(*bytecode@[0]) is Err ==> r == CelValue::Err(spec_ident(*bytecode@[0])->Err_0),
        bytecode@.len() == 2 && spec_ident(*bytecode@[0]) is Ok && !(this is List) ==> (r is Err && r->Err_0 is Value),
        bytecode@.len() == 2 && spec_ident(*bytecode@[0]) is Ok && this is List ==>
            r == spec_all(ctx@.cel, ctx@.vars, spec_ident(*bytecode@[0])->Ok_0@, this->List_0@, 0, *bytecode@[1]),
{
    if bytecode.len() != 2 {
        return CelValue::from_err(CelError::argument(
            "all() macro expects exactly 2 arguments",
        ));
    }

    let ident_name = match eval_ident(bytecode[0]) {
        Ok(s) => s,
        Err(e) => return e.into(),
    };

    match this {
        CelValue::List(list) => {
            let (cel, mut bindings) = helpers::setup_context(ctx);

            let ghost l = list@;
            let ghost nm = ident_name@;
            for value in it: list.into_iter()
                invariant
                    it.seq() == l,
                    bytecode@.len() == 2,
                    cel@ == ctx@.cel,
                    spec_ident(*bytecode@[0]) is Ok,
                    nm == spec_ident(*bytecode@[0])->Ok_0@,
                    this is List,
                    l == this->List_0@,
                    ident_name@ == nm,
                    spec_all(ctx@.cel, ctx@.vars, nm, l, 0, *bytecode@[1]) == spec_all(ctx@.cel, bindings@, nm, l, it.index@ as int, *bytecode@[1]),
            {
                bindings.bind_param(&ident_name, value.clone());
                let interp = Interpreter::new(&cel, &bindings);

                let res = match interp.run_raw(bytecode[1], true) {
                    Ok(val) => val,
                    Err(err) => return err.into(),
                };

                if !res.is_truthy() {
                    return false.into();
                }
            }

            true.into()
        }
        _ => CelValue::from_err(CelError::value("all() only available on list")),
    }
}
pub fn has_impl(ctx: &Interpreter, _this: CelValue, exprlist: &[&CelByteCode]) -> (r: CelValue)
    ensures
        exprlist@.len() != 1 ==> (r is Err && r->Err_0 is Argument),
        exprlist@.len() == 1 ==> r == spec_has(spec_eval(ctx@, *exprlist@[0], true)),
{
    if exprlist.len() != 1 {
        return CelValue::from_err(CelError::argument("has() macro expects exactly 1 argument"));
    }

    match ctx.run_raw(&exprlist[0], true) {
        Ok(_) => CelValue::true_(),
        Err(err) => match err {
            CelError::Binding { .. } | CelError::Attribute { .. } => CelValue::false_(),
            other => CelValue::from_err(other),
        },
    }
}
pub fn coalesce_impl(ctx: &Interpreter, _this: CelValue, bytecode: &[&CelByteCode]) -> (r: CelValue)
    ensures r == spec_coalesce(ctx@, bytecode@, 0),
{
    for arg in it: bytecode.iter()
        invariant
            spec_coalesce(ctx@, bytecode@, 0) == spec_coalesce(ctx@, bytecode@, it.index@ as int),
    {
        match ctx.run_raw(arg, true) {
            Ok(CelValue::Null) => {}
            Ok(val) => return val,
            Err(CelError::Binding { .. }) | Err(CelError::Attribute { .. }) => {}
            Err(err) => return CelValue::from_err(err),
        }
    }

    CelValue::from_null()
}
pub fn reduce_impl(ctx: &Interpreter, this: CelValue, bytecode: &[&CelByteCode]) -> CelValue {
    if bytecode.len() != 4 {
        return CelValue::from_err(CelError::argument("reduce() macro expects 4 arguments"));
    }

    let curr_name = match eval_ident(bytecode[0]) {
        Ok(name) => name,
        Err(err) => return err.into(),
    };
    let next_name = match eval_ident(bytecode[1]) {
        Ok(name) => name,
        Err(err) => return err.into(),
    };

    let mut cur_value = match ctx.run_raw(bytecode[3], true) {
        Ok(val) => val,
        Err(err) => return err.into(),
    };

    match this {
        CelValue::List(list) => {
            let (cel, mut bindings) = helpers::setup_context(ctx);

            for next in list.into_iter() {
                bindings.bind_param(&next_name, next);
                bindings.bind_param(&curr_name, cur_value);

                let interp = Interpreter::new(&cel, &bindings);
                cur_value = match interp.run_raw(bytecode[2], true) {
                    Ok(val) => val,
                    Err(err) => return err.into(),
                };
            }

            cur_value
        }
        _ => CelValue::from_err(CelError::value("reduce() only availble on list")),
    }
}
} // verus!
fn main(){}
