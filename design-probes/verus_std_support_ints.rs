use vstd::prelude::*;
use std::collections::HashMap;
use std::cmp::Ordering;
verus! {

fn f_add(a: f64, b: f64) -> f64 { a + b }
fn f_eq(a: f64, b: f64) -> bool { a == b }
fn f_cmp(a: f64, b: f64) -> Option<Ordering> { a.partial_cmp(&b) }
fn i_cmp(a: i64, b: i64) -> (r: Option<Ordering>) ensures r == Some(if a < b { Ordering::Less } else if a == b { Ordering::Equal } else { Ordering::Greater }) { a.partial_cmp(&b) }
fn s_eq(a: String, b: String) -> (r: bool) ensures r == (a@ == b@) { a == b }
fn m_get(m: HashMap<String, u64>, k: String) -> bool { m.contains_key(&k) }
fn m_get2<'a>(m: &'a HashMap<String, u64>, k: &str) -> Option<&'a u64> { m.get(k) }
fn v_idx(v: Vec<u64>, i: i64) -> u64 requires 0 <= i < v.len() { v[i as usize] }
fn neg(a: i64) -> i64 { -a }
fn rem(a: i64, b: i64) -> i64 { a % b }
fn div(a: i64, b: i64) -> i64 requires b != 0 { a / b }
fn ca(a: i64, b: i64) -> (r: Option<i64>) ensures r.is_some() == (i64::MIN <= a + b <= i64::MAX) { a.checked_add(b) }
fn cm(a: i64, b: i64) -> Option<i64> { a.checked_mul(b) }
fn cr(a: i64, b: i64) -> Option<i64> { a.checked_rem(b) }
fn cd(a: i64, b: i64) -> Option<i64> { a.checked_div(b) }
fn tf(a: u64) -> Result<i64, std::num::TryFromIntError> { i64::try_from(a) }

} // verus!
fn main() {}
