use vstd::prelude::*;
use std::collections::HashMap;
verus! {

pub enum JmpWhen { True, False }

#[verifier::external_body]
pub struct CelValue { _p: u8 }

pub enum ByteCode {
    Push(CelValue),
    Pop,
    Jmp(i32),
    JmpCond { when: JmpWhen, dist: i32 },
}

pub enum PreResolvedCodePoint {
    Bytecode(ByteCode),
    Jmp { label: u32 },
    JmpCond { when: JmpWhen, label: u32 },
    Label(u32),
}

pub struct PreResolvedByteCode {
    inner: Vec<PreResolvedCodePoint>,
    len: usize,
}

pub struct CelByteCode { inner: Vec<ByteCode> }
impl CelByteCode {
    pub closed spec fn view(&self) -> Seq<ByteCode> { self.inner@ }
    pub fn new() -> (r: Self) ensures r@.len() == 0 { CelByteCode { inner: Vec::new() } }
    pub fn push(&mut self, code_point: ByteCode)
        ensures final(self)@ == old(self)@.push(code_point)
    { self.inner.push(code_point); }
}

// ---------- spec (written from C10: "every jump lands inside its block or exactly at its end") ----------
pub open spec fn is_label(c: PreResolvedCodePoint) -> bool { c is Label }

/// number of non-label code points in s[0..n)  == index of the instruction a label at n resolves to
pub open spec fn nl_count(s: Seq<PreResolvedCodePoint>, n: int) -> int
    decreases n
{
    if n <= 0 { 0 } else { nl_count(s, n - 1) + if is_label(s[n - 1]) { 0int } else { 1int } }
}

pub open spec fn label_at(s: Seq<PreResolvedCodePoint>, i: int, l: u32) -> bool {
    0 <= i < s.len() && s[i] == PreResolvedCodePoint::Label(l)
}
pub open spec fn label_exists(s: Seq<PreResolvedCodePoint>, l: u32) -> bool {
    exists|j: int| label_at(s, j, l)
}
pub open spec fn labels_unique(s: Seq<PreResolvedCodePoint>) -> bool {
    forall|i: int, j: int, l: u32| label_at(s, i, l) && label_at(s, j, l) ==> i == j
}
pub open spec fn jump_label(c: PreResolvedCodePoint) -> Option<u32> {
    match c {
        PreResolvedCodePoint::Jmp { label } => Some(label),
        PreResolvedCodePoint::JmpCond { label, .. } => Some(label),
        _ => None,
    }
}
pub open spec fn labels_defined(s: Seq<PreResolvedCodePoint>) -> bool {
    forall|i: int| 0 <= i < s.len() && (#[trigger] jump_label(s[i])) is Some ==> label_exists(s, jump_label(s[i])->Some_0)
}
pub open spec fn jump_ok_n(r: Seq<ByteCode>, k: int, n: int) -> bool {
    match r[k] {
        ByteCode::Jmp(d) => 0 <= k + 1 + d <= n,
        ByteCode::JmpCond { dist, .. } => 0 <= k + 1 + dist <= n,
        _ => true,
    }
}
/// already-resolved (relative) jumps that check_for_const re-embeds as plain Bytecode must stay in range
pub open spec fn raw_jump_ok(s: Seq<PreResolvedCodePoint>, i: int) -> bool {
    match s[i] {
        PreResolvedCodePoint::Bytecode(ByteCode::Jmp(d)) => 0 <= nl_count(s, i) + 1 + d <= nl_count(s, s.len() as int),
        PreResolvedCodePoint::Bytecode(ByteCode::JmpCond { dist, .. }) => 0 <= nl_count(s, i) + 1 + dist <= nl_count(s, s.len() as int),
        _ => true,
    }
}
pub open spec fn raw_jumps_ok(s: Seq<PreResolvedCodePoint>) -> bool {
    forall|i: int| 0 <= i < s.len() ==> #[trigger] raw_jump_ok(s, i)
}
pub open spec fn all_jumps_ok(r: Seq<ByteCode>, n: int) -> bool {
    forall|k: int| 0 <= k < r.len() ==> #[trigger] jump_ok_n(r, k, n)
}
pub open spec fn loc_table_ok(s: Seq<PreResolvedCodePoint>, m: Map<u32, usize>, upto: int) -> bool {
    &&& forall|l: u32| #[trigger] m.contains_key(l) ==> exists|j: int| 0 <= j < upto && label_at(s, j, l) && m[l] == nl_count(s, j)
    &&& forall|j: int, l: u32| 0 <= j < upto && #[trigger] label_at(s, j, l) ==> m.contains_key(l)
}

pub proof fn lemma_nl_count_bounds(s: Seq<PreResolvedCodePoint>, n: int)
    requires 0 <= n <= s.len()
    ensures 0 <= nl_count(s, n) <= n
    decreases n
{
    if n > 0 { lemma_nl_count_bounds(s, n - 1); }
}
pub proof fn lemma_nl_count_mono(s: Seq<PreResolvedCodePoint>, a: int, b: int)
    requires 0 <= a <= b <= s.len()
    ensures nl_count(s, a) <= nl_count(s, b)
    decreases b - a
{
    if a < b { lemma_nl_count_mono(s, a, b - 1); }
}
pub proof fn lemma_lookup(s: Seq<PreResolvedCodePoint>, m: Map<u32, usize>, l: u32)
    requires loc_table_ok(s, m, s.len() as int), label_exists(s, l)
    ensures m.contains_key(l), 0 <= m[l] <= nl_count(s, s.len() as int)
{
    let j = choose|j: int| label_at(s, j, l);
    assert(label_at(s, j, l));
    assert(m.contains_key(l));
    let j2 = choose|j2: int| 0 <= j2 < s.len() && label_at(s, j2, l) && m[l] == nl_count(s, j2);
    lemma_nl_count_bounds(s, j2);
    lemma_nl_count_mono(s, j2, s.len() as int);
}

impl PreResolvedByteCode {
    pub closed spec fn view(&self) -> Seq<PreResolvedCodePoint> { self.inner@ }

    pub fn resolve(self) -> (ret: CelByteCode)
        requires
            labels_unique(self@),
            labels_defined(self@),
            raw_jumps_ok(self@),
            self@.len() < 0x7fff_ffff,
        ensures
            ret@.len() == nl_count(self@, self@.len() as int),
            all_jumps_ok(ret@, ret@.len() as int),
    {
        let mut curr_loc: usize = 0;
        let mut locations = HashMap::<u32, usize>::new();
        let mut ret = CelByteCode::new();
        let ghost s = self.inner@;

        // determine label locations
        for c in it: self.inner.iter()
            invariant
                s == self.inner@,
                s.len() < 0x7fff_ffff,
                labels_unique(s),
                curr_loc == nl_count(s, it.index@ as int),
                loc_table_ok(s, locations@, it.index@ as int),
                it.seq().len() == s.len(),
        {
            proof { lemma_nl_count_bounds(s, it.index@ as int); }
            match c {
                PreResolvedCodePoint::Label(i) => {
                    proof {
                        assert(label_at(s, it.index@ as int, *i));
                        if locations@.contains_key(*i) {
                            let j = choose|j: int| 0 <= j < it.index@ && label_at(s, j, *i) && locations@[*i] == nl_count(s, j);
                            assert(j == it.index@);
                        }
                    }
                    if locations.contains_key(i) {
                        panic!("Duplicate label found!");
                    }
                    locations.insert(*i, curr_loc);
                    proof {
                        assert forall|l: u32| #[trigger] locations@.contains_key(l) implies exists|j: int| 0 <= j < it.index@ + 1 && label_at(s, j, l) && locations@[l] == nl_count(s, j) by {
                            if l == *i { assert(label_at(s, it.index@ as int, l)); }
                        }
                    }
                }
                _ => {
                    curr_loc += 1;
                }
            }
        }

        curr_loc = 0;
        let ghost total = nl_count(s, s.len() as int);

        // resolve the label locations
        for c in it2: self.inner.into_iter()
            invariant
                it2.seq() == s,
                raw_jumps_ok(s),
                s.len() < 0x7fff_ffff,
                labels_defined(s),
                loc_table_ok(s, locations@, s.len() as int),
                total == nl_count(s, s.len() as int),
                curr_loc == nl_count(s, it2.index@ as int),
                ret@.len() == curr_loc,
                all_jumps_ok(ret@, total),
        {
            let ghost idx = it2.index@ as int;
            let ghost old_ret = ret@;
            proof {
                lemma_nl_count_bounds(s, idx);
                lemma_nl_count_bounds(s, s.len() as int);
                lemma_nl_count_mono(s, idx + 1, s.len() as int);
                assert(0 <= idx < s.len());
                assert(c == s[idx]);
                assert(raw_jump_ok(s, idx));
                if jump_label(s[idx]) is Some {
                    assert(label_exists(s, jump_label(s[idx])->Some_0));
                    lemma_lookup(s, locations@, jump_label(s[idx])->Some_0);
                }
                assert(nl_count(s, idx + 1) == nl_count(s, idx) + if is_label(s[idx]) { 0int } else { 1int });
            }
            match c {
                PreResolvedCodePoint::Bytecode(byte_code) => {
                    curr_loc += 1;
                    ret.push(byte_code);
                    proof { assert forall|k: int| 0 <= k < ret@.len() implies #[trigger] jump_ok_n(ret@, k, total) by {
                        if k < old_ret.len() { assert(jump_ok_n(old_ret, k, total)); }
                    } }
                }
                PreResolvedCodePoint::Jmp { label } => {
                    proof {
                        assert(s[idx] == PreResolvedCodePoint::Jmp { label });
                        assert(jump_label(s[idx]) == Some(label));
                        assert(locations@.contains_key(label));
                    }
                    curr_loc += 1;
                    let jmp_loc = *locations.get(&label).unwrap();
                    let offset = (jmp_loc as isize) - (curr_loc as isize);
                    ret.push(ByteCode::Jmp(
                        i32::try_from(offset).expect("Attempt to jump farther than possible"),
                    ));
                    proof { assert forall|k: int| 0 <= k < ret@.len() implies #[trigger] jump_ok_n(ret@, k, total) by {
                        if k < old_ret.len() { assert(jump_ok_n(old_ret, k, total)); }
                    } }
                }
                PreResolvedCodePoint::JmpCond { when, label } => {
                    curr_loc += 1;
                    let jmp_loc = *locations.get(&label).unwrap();
                    let offset = (jmp_loc as isize) - (curr_loc as isize);
                    ret.push(ByteCode::JmpCond {
                        when,
                        dist: offset as i32,
                    });
                    proof { assert forall|k: int| 0 <= k < ret@.len() implies #[trigger] jump_ok_n(ret@, k, total) by {
                        if k < old_ret.len() { assert(jump_ok_n(old_ret, k, total)); }
                    } }
                }
                PreResolvedCodePoint::Label(_) => {}
            }
        }

        ret
    }
}

} // verus!
fn main() {}
