use vstd::prelude::*;
verus! {
fn f() -> (r: bool) ensures r == true { cfg!(feature = "type_prop") }
#[cfg(feature = "type_prop")]
fn g() -> (r: u8) ensures r == 1 { 1 }
}
fn main() {}
