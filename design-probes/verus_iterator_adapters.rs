use vstd::prelude::*;
verus! {
fn a(v: Vec<(u8, u16)>) -> u64 { let mut s: u64 = 0; for (x, y) in v.into_iter().rev() { s = s.wrapping_add(x as u64); } s }
fn b(v: Vec<(u8, u16)>) -> (Vec<u8>, Vec<u16>) { v.into_iter().unzip() }
fn c(v: &Vec<u8>) -> u64 { let mut s: u64 = 0; for i in (0..v.len()).step_by(2) { s = s.wrapping_add(v[i] as u64); } s }
fn d(o: Option<u8>) -> u8 { o.map_or(0, |x| x) }
fn e(v: Vec<u8>) -> u64 { let mut it = v.into_iter(); let mut s: u64 = 0; while let Some(x) = it.next() { s = s.wrapping_add(x as u64); } s }
fn f(v: &Vec<u8>) -> bool { v.iter().find(|x| **x == 3).is_some() }
}
fn main() {}
