use vstd::prelude::*;
use std::collections::HashMap;
verus! {

pub enum JmpWhen { True, False }

#[verifier::external_body]
pub struct CelValue { _p: u8 }

pub enum ByteCode {
    Push(CelValue),
    Pop,
    Jmp(i32),
    JmpCond { when: JmpWhen, dist: i32 },
}

pub enum PreResolvedCodePoint {
    Bytecode(ByteCode),
    Jmp { label: u32 },
    JmpCond { when: JmpWhen, label: u32 },
    Label(u32),
}

pub struct PreResolvedByteCode {
    inner: Vec<PreResolvedCodePoint>,
    len: usize,
}

pub struct CelByteCode { inner: Vec<ByteCode> }
impl CelByteCode {
    pub closed spec fn view(&self) -> Seq<ByteCode> { self.inner@ }
    pub fn new() -> (r: Self) ensures r@.len() == 0 { CelByteCode { inner: Vec::new() } }
    pub fn push(&mut self, code_point: ByteCode)
        ensures final(self)@ == old(self)@.push(code_point)
    { self.inner.push(code_point); }
}

// ---------- spec ----------
pub open spec fn is_label(c: PreResolvedCodePoint) -> bool { c is Label }

/// number of non-label code points in s[0..n)
pub open spec fn nl_count(s: Seq<PreResolvedCodePoint>, n: int) -> int
    decreases n
{
    if n <= 0 { 0 } else { nl_count(s, n - 1) + if is_label(s[n - 1]) { 0int } else { 1int } }
}

pub open spec fn label_at(s: Seq<PreResolvedCodePoint>, i: int, l: u32) -> bool {
    0 <= i < s.len() && s[i] == PreResolvedCodePoint::Label(l)
}

pub open spec fn labels_unique(s: Seq<PreResolvedCodePoint>) -> bool {
    forall|i: int, j: int, l: u32| label_at(s, i, l) && label_at(s, j, l) ==> i == j
}

pub open spec fn jump_label(c: PreResolvedCodePoint) -> Option<u32> {
    match c {
        PreResolvedCodePoint::Jmp { label } => Some(label),
        PreResolvedCodePoint::JmpCond { label, .. } => Some(label),
        _ => None,
    }
}

pub open spec fn labels_defined(s: Seq<PreResolvedCodePoint>) -> bool {
    forall|i: int| 0 <= i < s.len() && jump_label(s[i]) is Some ==>
        exists|j: int| label_at(s, j, jump_label(s[i])->Some_0)
}

pub open spec fn jump_ok_n(r: Seq<ByteCode>, k: int, n: int) -> bool {
    match r[k] {
        ByteCode::Jmp(d) => 0 <= k + 1 + d <= n,
        ByteCode::JmpCond { dist, .. } => 0 <= k + 1 + dist <= n,
        _ => true,
    }
}
pub open spec fn jump_ok(r: Seq<ByteCode>, k: int) -> bool { jump_ok_n(r, k, r.len() as int) }
pub open spec fn loc_table_ok(s: Seq<PreResolvedCodePoint>, m: Map<u32, usize>) -> bool {
    &&& forall|l: u32| m.contains_key(l) ==> exists|j: int| label_at(s, j, l) && m[l] == nl_count(s, j)
    &&& forall|j: int, l: u32| label_at(s, j, l) ==> m.contains_key(l)
}

pub proof fn lemma_nl_count_bounds(s: Seq<PreResolvedCodePoint>, n: int)
    requires 0 <= n <= s.len()
    ensures 0 <= nl_count(s, n) <= n
    decreases n
{
    if n > 0 { lemma_nl_count_bounds(s, n - 1); }
}

pub proof fn lemma_nl_count_mono(s: Seq<PreResolvedCodePoint>, a: int, b: int)
    requires 0 <= a <= b <= s.len()
    ensures nl_count(s, a) <= nl_count(s, b)
    decreases b - a
{
    if a < b { lemma_nl_count_mono(s, a, b - 1); }
}

impl PreResolvedByteCode {
    pub closed spec fn view(&self) -> Seq<PreResolvedCodePoint> { self.inner@ }
    pub fn resolve(self) -> (ret: CelByteCode)
        requires
            labels_unique(self@),
            labels_defined(self@),
            self@.len() < 0x7fff_ffff,
        ensures
            ret@.len() == nl_count(self@, self@.len() as int),
            // every resolved jump lands inside the block or exactly at its end
            forall|k: int| 0 <= k < ret@.len() ==> jump_ok(ret@, k),
    {
        let mut curr_loc: usize = 0;
        let mut locations = HashMap::<u32, usize>::new();
        let mut ret = CelByteCode::new();
        let ghost s = self.inner@;

        // determine label locations
        for c in it: self.inner.iter()
            invariant
                s == self.inner@,
                labels_unique(s),
                curr_loc == nl_count(s, it.index@ as int),
                forall|l: u32| locations@.contains_key(l) ==> exists|j: int| 0 <= j < it.index@ && label_at(s, j, l) && locations@[l] == nl_count(s, j),
                forall|j: int, l: u32| 0 <= j < it.index@ && label_at(s, j, l) ==> locations@.contains_key(l),
        {
            proof { lemma_nl_count_bounds(s, it.index@ as int); }
            match c {
                PreResolvedCodePoint::Label(i) => {
                    if locations.contains_key(i) {
                        panic!("Duplicate label found!");
                    }
                    locations.insert(*i, curr_loc);
                }
                _ => {
                    curr_loc += 1;
                }
            }
        }

        curr_loc = 0;
        assert(loc_table_ok(s, locations@));
        let ghost total = nl_count(s, s.len() as int);

        // resolve the label locations
        for c in it2: self.inner.into_iter()
            invariant
                it2.seq() == s,
                s.len() < 0x7fff_ffff,
                labels_defined(s),
                loc_table_ok(s, locations@),
                total == nl_count(s, s.len() as int),
                curr_loc == nl_count(s, it2.index@ as int),
                ret@.len() == curr_loc,
                forall|k: int| 0 <= k < ret@.len() ==> jump_ok_n(ret@, k, total),
        {
            proof {
                lemma_nl_count_bounds(s, it2.index@ as int);
                lemma_nl_count_bounds(s, s.len() as int);
                lemma_nl_count_mono(s, it2.index@ as int + 1, s.len() as int);
                assert(c == s[it2.index@ as int]);
                if jump_label(c) is Some {
                    let l = jump_label(c)->Some_0;
                    let j = choose|j: int| label_at(s, j, l);
                    lemma_nl_count_bounds(s, j);
                    lemma_nl_count_mono(s, j, s.len() as int);
                }
            }
            let ghost old_ret = ret@;
            match c {
                PreResolvedCodePoint::Bytecode(byte_code) => {
                    curr_loc += 1;
                    ret.push(byte_code);
                }
                PreResolvedCodePoint::Jmp { label } => {
                    curr_loc += 1;
                    let jmp_loc = locations[&label];
                    let offset = (jmp_loc as isize) - (curr_loc as isize);
                    ret.push(ByteCode::Jmp(
                        i32::try_from(offset).expect("Attempt to jump farther than possible"),
                    ));
                }
                PreResolvedCodePoint::JmpCond { when, label } => {
                    curr_loc += 1;
                    let jmp_loc = locations[&label];
                    let offset = (jmp_loc as isize) - (curr_loc as isize);
                    ret.push(ByteCode::JmpCond {
                        when,
                        dist: offset as i32,
                    });
                }
                PreResolvedCodePoint::Label(_) => {}
            }
        }

        ret
    }
}

} // verus!
fn main() {}
