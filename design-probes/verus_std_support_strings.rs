use vstd::prelude::*;
verus! {
fn t1() -> String { String::new() }
fn t2(mut s: String, c: char) -> String { s.push(c); s }
fn t3(mut s: String, t: &str) -> String { s.push_str(t); s }
fn t4(s: &String) -> &str { s.as_str() }
fn t5(s: &String) -> String { s.clone() }
fn t6(s: &String) -> bool { s.is_empty() }
fn t7(s: &str) -> String { s.to_owned() }
fn t8(s: &str) -> String { s.to_string() }
fn t9(c: char) -> bool { c.is_digit(16) }
fn t10(s: &str) -> Option<char> { s.chars().next() }
fn t11(c: char) -> u32 { c as u32 }
fn t12(u: u32) -> Option<char> { char::from_u32(u) }
fn t13(s: &str) -> Result<u64, std::num::ParseIntError> { u64::from_str_radix(s, 10) }
fn t14(s: &str) -> Result<f64, std::num::ParseFloatError> { s.parse::<f64>() }
fn t15(c: char) -> bool { match c { '0'..='9' => true, 'a' | 'b' => true, _ => false } }
fn t16(a: i64) -> String { format!("{}", a) }
fn t17(s: &str) -> usize { s.len() }
fn t18(v: Vec<u8>) -> Result<String, std::string::FromUtf8Error> { String::from_utf8(v) }
fn t19(s: String) -> Vec<u8> { s.into_bytes() }
fn t20(a: u64) -> i64 { a as i64 }
fn t21(a: f64) -> i64 { a as i64 }
fn t22(a: i64) -> f64 { a as f64 }
}
fn main() {}
