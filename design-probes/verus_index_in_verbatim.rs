use vstd::prelude::*;
use std::collections::HashMap;
use std::iter::zip;
verus! {
pub enum CelError { Value(String), InvalidOp(String), Attribute { parent: String, field: String }, Other }
impl CelError {
    #[verifier::external_body] pub fn invalid_op(msg: &str) -> (r: CelError) ensures r is InvalidOp { unimplemented!() }
    #[verifier::external_body] pub fn value(msg: &str) -> (r: CelError) ensures r is Value { unimplemented!() }
    #[verifier::external_body] pub fn attribute(p: &str, f: &str) -> (r: CelError) ensures r is Attribute { unimplemented!() }
}
#[verifier::external_body] pub struct DynArc { _p: u8 }
impl DynArc {
  #[verifier::external_body] pub fn access(&self, key: &str) -> CelValue { unimplemented!() }
  #[verifier::external_body] pub fn eq(&self, rhs: &CelValue) -> CelValue { unimplemented!() }
}
pub type CelValueMap = HashMap<String, CelValue>;
pub enum CelValue {
    Int(i64), UInt(u64), Float(f64), Bool(bool), String(String), List(Vec<CelValue>), Map(CelValueMap), Null, Type(String), Dyn(DynArc), Err(CelError),
}
impl Clone for CelValue { #[verifier::external_body] fn clone(&self) -> (r: CelValue) ensures r == *self { unimplemented!() } }
impl PartialEq for CelValue { #[verifier::external_body] fn eq(&self, o: &CelValue) -> bool { unimplemented!() } }
impl std::fmt::Debug for CelValue { #[verifier::external_body] fn fmt(&self, f: &mut std::fmt::Formatter<'_>) -> std::fmt::Result { unimplemented!() } }
impl From<bool> for CelValue { fn from(val: bool) -> (r: CelValue) { CelValue::Bool(val) } }
pub trait CelValueDyn { fn as_type(&self) -> CelValue; }
impl CelValueDyn for CelValue { #[verifier::external_body] fn as_type(&self) -> CelValue { unimplemented!() } }
impl CelValue {
    pub fn from_err(val: CelError) -> (r: CelValue) { CelValue::Err(val) }
    pub fn from_bool(val: bool) -> (r: CelValue) { CelValue::Bool(val) }
    pub fn is_err(&self) -> bool { if let CelValue::Err(_) = self { true } else { false } }
    pub fn in_(self, rhs: CelValue) -> CelValue {
        self.error_prop_or(rhs, |lhs, rhs| {
            let rhs_type = rhs.as_type();
            let lhs_type = lhs.as_type();

            match rhs {
                CelValue::List(l) => {
                    for value in l.iter() {
                        if lhs == *value {
                            return true.into();
                        }
                    }

                    false.into()
                }
                CelValue::Map(m) => {
                    if let CelValue::String(r) = lhs {
                        CelValue::from_bool(m.contains_key(&r))
                    } else {
                        CelValue::from_err(CelError::invalid_op(&format!(
                            "Op 'in' invalid between {:?} and {:?}",
                            lhs_type, rhs_type
                        )))
                    }
                }
                CelValue::String(s) => {
                    if let CelValue::String(r) = lhs {
                        CelValue::from_bool(s.contains(&r))
                    } else {
                        CelValue::from_err(CelError::invalid_op(&format!(
                            "Op 'in' invalid between {:?} and {:?}",
                            lhs_type, rhs_type
                        )))
                    }
                }
                _ => CelValue::from_err(CelError::invalid_op(&format!(
                    "Op 'in' invalid between {:?} and {:?}",
                    lhs_type, rhs_type
                ))),
            }
        })
    }
    #[inline]
    fn error_prop_or<F>(self, rhs: CelValue, f: F) -> CelValue
    where
        F: Fn(CelValue, CelValue) -> CelValue,
    {
        if self.is_err() {
            self.clone()
        } else if rhs.is_err() {
            rhs
        } else {
            f(self, rhs)
        }
    }

    pub fn index(self, ival: CelValue) -> CelValue {
        self.error_prop_or(ival, |obj, index| match obj {
            CelValue::List(list) => {
                if let CelValue::UInt(index) = index {
                    if index as usize >= list.len() {
                        return CelValue::from_err(CelError::value("List access out of bounds"));
                    }

                    return list[index as usize].clone();
                } else if let CelValue::Int(index) = index {
                    if index < 0 {
                        if cfg!(feature = "neg_index") {
                            let adjusted_index: isize = match TryInto::<isize>::try_into(list.len())
                            {
                                Ok(v) => v,
                                Err(_) => {
                                    return CelValue::from_err(CelError::value(
                                        "List access out of bounds",
                                    ))
                                }
                            } + (index as isize);

                            if adjusted_index < 0
                                || TryInto::<usize>::try_into(adjusted_index).unwrap() >= list.len()
                            {
                                return CelValue::from_err(CelError::value(
                                    "List access out of bounds 3",
                                ));
                            }

                            list[adjusted_index as usize].clone()
                        } else {
                            return CelValue::from_err(CelError::value(
                                "Negative index is not allowed",
                            ));
                        }
                    } else {
                        if index as usize >= list.len() {
                            return CelValue::from_err(CelError::value(
                                "List access out of bounds",
                            ));
                        }

                        list[index as usize].clone()
                    }
                } else {
                    return CelValue::from_err(CelError::value(
                        "List index can only be int or uint",
                    ));
                }
            }
            CelValue::Map(map) => {
                if let CelValue::String(index) = index {
                    match map.get(index.as_str()) {
                        Some(val) => return val.clone(),
                        None => {
                            return CelValue::from_err(CelError::attribute("obj", &index));
                        }
                    }
                } else {
                    CelValue::from_err(CelError::value(&format!(
                        "Map index operator mush be a string, found {:?}",
                        index.as_type()
                    )))
                }
            }
            CelValue::Dyn(d) => {
                if let CelValue::String(index) = index {
                    return d.access(&index);
                } else {
                    CelValue::from_err(CelError::value(&format!(
                        "Dyn index operator mush be a string, found {:?}",
                        index.as_type()
                    )))
                }
            }
            _ => CelValue::from_err(CelError::value(&format!(
                "Index operator invalid between {:?} and {:?}",
                index.as_type(),
                obj.as_type()
            ))),
        })
    }
}
} // verus!
fn main(){}
