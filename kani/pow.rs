// harness module appended to rscel/src/context/default_funcs/math/pow.rs of the scratch copy (a child module sees the private helpers)
#[cfg(kani)]
mod verif_kani_pow {
    use super::*;

    /// only whole numbers in 0 ..= u32::MAX are accepted, and the exponent returned is that number
    #[kani::proof]
    fn pow_float_exponent_accepts_only_whole_u32() {
        let f: f64 = kani::any();
        match float_exponent(f) {
            Ok(e) => assert!(e as f64 == f),
            Err(_) => {
                // not the image of any u32: checked against an independent witness
                let w: u32 = kani::any();
                assert!(w as f64 != f);
            }
        }
    }

    /// every u32, written as a double, is accepted as exactly itself
    #[kani::proof]
    fn pow_float_exponent_accepts_every_u32() {
        let e: u32 = kani::any();
        match float_exponent(e as f64) {
            Ok(r) => assert!(r == e),
            Err(_) => assert!(false),
        }
    }

    /// integer exponents: the same number when it is a u32, an error otherwise
    #[kani::proof]
    fn pow_int_exponent_i64() {
        let n: i64 = kani::any();
        match int_exponent(n) {
            Ok(r) => assert!(n >= 0 && n <= u32::MAX as i64 && r as i64 == n),
            Err(_) => assert!(n < 0 || n > u32::MAX as i64),
        }
    }
    #[kani::proof]
    fn pow_int_exponent_u64() {
        let n: u64 = kani::any();
        match int_exponent(n) {
            Ok(r) => assert!(n <= u32::MAX as u64 && r as u64 == n),
            Err(_) => assert!(n > u32::MAX as u64),
        }
    }
}
