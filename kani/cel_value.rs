// Kani harnesses appended to rscel/src/types/cel_value.rs of a scratch copy (child module: reaches private items).
#[cfg(kani)]
mod verif_kani_cv {
    use super::*;

    // no PartialEq / Drop of CelValue here: both reach HashMap code, which CBMC cannot digest
    fn exact_i(r: CelValue, e: i128) {
        let fits = e >= i64::MIN as i128 && e <= i64::MAX as i128;
        match &r {
            CelValue::Int(v) => assert!(fits && *v as i128 == e),
            CelValue::Err(_) => assert!(!fits),
            _ => assert!(false),
        }
        std::mem::forget(r);
    }
    fn exact_u(r: CelValue, e: i128) {
        let fits = e >= 0 && e <= u64::MAX as i128;
        match &r {
            CelValue::UInt(v) => assert!(fits && *v as i128 == e),
            CelValue::Err(_) => assert!(!fits),
            _ => assert!(false),
        }
        std::mem::forget(r);
    }
    fn is_error(r: CelValue) {
        assert!(matches!(&r, CelValue::Err(_)));
        std::mem::forget(r);
    }

    #[kani::proof]
    fn arith_int_add() { let a: i64 = kani::any(); let b: i64 = kani::any(); let r = CelValue::Int(a) + CelValue::Int(b); exact_i(r, a as i128 + b as i128); }
    #[kani::proof]
    fn arith_int_sub() { let a: i64 = kani::any(); let b: i64 = kani::any(); let r = CelValue::Int(a) - CelValue::Int(b); exact_i(r, a as i128 - b as i128); }
    #[kani::proof]
    fn arith_int_mul() { let a: i64 = kani::any(); let b: i64 = kani::any(); let r = CelValue::Int(a) * CelValue::Int(b); exact_i(r, a as i128 * b as i128); }
    #[kani::proof]
    fn arith_int_div() { let a: i64 = kani::any(); let b: i64 = kani::any(); let r = CelValue::Int(a) / CelValue::Int(b); if b == 0 { is_error(r); } else { exact_i(r, a as i128 / b as i128); } }
    #[kani::proof]
    fn arith_int_rem() { let a: i64 = kani::any(); let b: i64 = kani::any(); let r = CelValue::Int(a) % CelValue::Int(b); if b == 0 { is_error(r); } else { exact_i(r, a as i128 % b as i128); } }
    #[kani::proof]
    fn arith_int_neg() { let a: i64 = kani::any(); let r = -CelValue::Int(a); exact_i(r, -(a as i128)); }
    #[kani::proof]
    fn arith_uint_add() { let a: u64 = kani::any(); let b: u64 = kani::any(); let r = CelValue::UInt(a) + CelValue::UInt(b); exact_u(r, a as i128 + b as i128); }
    #[kani::proof]
    fn arith_uint_sub() { let a: u64 = kani::any(); let b: u64 = kani::any(); let r = CelValue::UInt(a) - CelValue::UInt(b); exact_u(r, a as i128 - b as i128); }
    #[kani::proof]
    fn arith_uint_mul() { let a: u64 = kani::any(); let b: u64 = kani::any(); let r = CelValue::UInt(a) * CelValue::UInt(b); exact_u(r, a as i128 * b as i128); }
    #[kani::proof]
    fn arith_uint_div() { let a: u64 = kani::any(); let b: u64 = kani::any(); let r = CelValue::UInt(a) / CelValue::UInt(b); if b == 0 { is_error(r); } else { exact_u(r, a as i128 / b as i128); } }
    #[kani::proof]
    fn arith_uint_rem() { let a: u64 = kani::any(); let b: u64 = kani::any(); let r = CelValue::UInt(a) % CelValue::UInt(b); if b == 0 { is_error(r); } else { exact_u(r, a as i128 % b as i128); } }
    #[kani::proof]
    fn arith_uint_neg() { let a: u64 = kani::any(); let r = -CelValue::UInt(a); is_error(r); }
}
