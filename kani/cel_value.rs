// Kani harnesses appended to rscel/src/types/cel_value.rs of a scratch copy (child module: reaches private items).
#[cfg(kani)]
mod verif_kani_cv {
    use super::*;

    // no PartialEq / Drop of CelValue here: both reach HashMap code, which CBMC cannot digest
    fn exact_i(r: CelValue, e: i128) {
        let fits = e >= i64::MIN as i128 && e <= i64::MAX as i128;
        match &r {
            CelValue::Int(v) => assert!(fits && *v as i128 == e),
            CelValue::Err(_) => assert!(!fits),
            _ => assert!(false),
        }
        std::mem::forget(r);
    }
    fn exact_u(r: CelValue, e: i128) {
        let fits = e >= 0 && e <= u64::MAX as i128;
        match &r {
            CelValue::UInt(v) => assert!(fits && *v as i128 == e),
            CelValue::Err(_) => assert!(!fits),
            _ => assert!(false),
        }
        std::mem::forget(r);
    }
    fn is_error(r: CelValue) {
        assert!(matches!(&r, CelValue::Err(_)));
        std::mem::forget(r);
    }

    #[kani::proof]
    fn arith_int_add() { let a: i64 = kani::any(); let b: i64 = kani::any(); let r = CelValue::Int(a) + CelValue::Int(b); exact_i(r, a as i128 + b as i128); }
    #[kani::proof]
    fn arith_int_sub() { let a: i64 = kani::any(); let b: i64 = kani::any(); let r = CelValue::Int(a) - CelValue::Int(b); exact_i(r, a as i128 - b as i128); }
    #[kani::proof]
    fn arith_int_mul() { let a: i64 = kani::any(); let b: i64 = kani::any(); let r = CelValue::Int(a) * CelValue::Int(b); exact_i(r, a as i128 * b as i128); }
    #[kani::proof]
    fn arith_int_div() { let a: i64 = kani::any(); let b: i64 = kani::any(); let r = CelValue::Int(a) / CelValue::Int(b); if b == 0 { is_error(r); } else { exact_i(r, a as i128 / b as i128); } }
    #[kani::proof]
    fn arith_int_rem() { let a: i64 = kani::any(); let b: i64 = kani::any(); let r = CelValue::Int(a) % CelValue::Int(b); if b == 0 { is_error(r); } else { exact_i(r, a as i128 % b as i128); } }
    #[kani::proof]
    fn arith_int_neg() { let a: i64 = kani::any(); let r = -CelValue::Int(a); exact_i(r, -(a as i128)); }
    #[kani::proof]
    fn arith_uint_add() { let a: u64 = kani::any(); let b: u64 = kani::any(); let r = CelValue::UInt(a) + CelValue::UInt(b); exact_u(r, a as i128 + b as i128); }
    #[kani::proof]
    fn arith_uint_sub() { let a: u64 = kani::any(); let b: u64 = kani::any(); let r = CelValue::UInt(a) - CelValue::UInt(b); exact_u(r, a as i128 - b as i128); }
    #[kani::proof]
    fn arith_uint_mul() { let a: u64 = kani::any(); let b: u64 = kani::any(); let r = CelValue::UInt(a) * CelValue::UInt(b); let p = (a as u128) * (b as u128); if p <= u64::MAX as u128 { exact_u(r, p as i128); } else { is_error(r); } }
    #[kani::proof]
    fn arith_uint_div() { let a: u64 = kani::any(); let b: u64 = kani::any(); let r = CelValue::UInt(a) / CelValue::UInt(b); if b == 0 { is_error(r); } else { exact_u(r, a as i128 / b as i128); } }
    #[kani::proof]
    fn arith_uint_rem() { let a: u64 = kani::any(); let b: u64 = kani::any(); let r = CelValue::UInt(a) % CelValue::UInt(b); if b == 0 { is_error(r); } else { exact_u(r, a as i128 % b as i128); } }
    #[kani::proof]
    fn arith_uint_neg() { let a: u64 = kani::any(); let r = -CelValue::UInt(a); is_error(r); }
}

// ---- C16: timestamp / duration arithmetic on the real chrono code, all representable values ----
#[cfg(kani)]
mod verif_kani_time {
    use super::*;

    fn any_ts() -> DateTime<Utc> {
        let s: i64 = kani::any();
        let n: u32 = kani::any();
        kani::assume(n < 1_000_000_000);
        match DateTime::<Utc>::from_timestamp(s, n) { Some(t) => t, None => { kani::assume(false); unreachable!() } }
    }
    fn any_dur() -> Duration {
        let s: i64 = kani::any();
        let n: u32 = kani::any();
        kani::assume(n < 1_000_000_000);
        match Duration::new(s, n) { Some(d) => d, None => { kani::assume(false); unreachable!() } }
    }
    fn ts_of(r: &CelValue) -> Option<DateTime<Utc>> { match r { CelValue::TimeStamp(t) => Some(*t), _ => None } }
    fn dur_of(r: &CelValue) -> Option<Duration> { match r { CelValue::Duration(d) => Some(*d), _ => None } }
    fn is_err(r: &CelValue) -> bool { matches!(r, CelValue::Err(_)) }

    #[kani::proof]
    fn time_ts_plus_dur() {
        let t = any_ts(); let d = any_dur();
        kani::cover!(true);
        let r = CelValue::TimeStamp(t) + CelValue::Duration(d);
        match t.checked_add_signed(d) { Some(x) => assert!(ts_of(&r) == Some(x)), None => assert!(is_err(&r)) }
        // (t + d) - d == t
        if let Some(x) = ts_of(&r) {
            let back = CelValue::TimeStamp(x) - CelValue::Duration(d);
            assert!(ts_of(&back) == Some(t));
            std::mem::forget(back);
        }
        std::mem::forget(r);
    }
    #[kani::proof]
    fn time_dur_plus_ts_commutes() {
        let t = any_ts(); let d = any_dur();
        let r = CelValue::Duration(d) + CelValue::TimeStamp(t);
        match t.checked_add_signed(d) { Some(x) => assert!(ts_of(&r) == Some(x)), None => assert!(is_err(&r)) }
        std::mem::forget(r);
    }
    #[kani::proof]
    fn time_ts_minus_dur() {
        let t = any_ts(); let d = any_dur();
        let r = CelValue::TimeStamp(t) - CelValue::Duration(d);
        match t.checked_sub_signed(d) { Some(x) => assert!(ts_of(&r) == Some(x)), None => assert!(is_err(&r)) }
        std::mem::forget(r);
    }
    #[kani::proof]
    fn time_ts_minus_ts_roundtrip() {
        let t1 = any_ts(); let t2 = any_ts();
        let r = CelValue::TimeStamp(t1) - CelValue::TimeStamp(t2);
        // never fails: the distance of two representable instants is a representable duration
        let d = match dur_of(&r) { Some(d) => d, None => { assert!(false); return } };
        // (t1 - t2) + t2 == t1
        let back = CelValue::Duration(d) + CelValue::TimeStamp(t2);
        assert!(ts_of(&back) == Some(t1));
        std::mem::forget(back); std::mem::forget(r);
    }
    #[kani::proof]
    fn time_dur_plus_minus_dur() {
        let d1 = any_dur(); let d2 = any_dur();
        let r = CelValue::Duration(d1) + CelValue::Duration(d2);
        match d1.checked_add(&d2) {
            Some(x) => {
                assert!(dur_of(&r) == Some(x));
                // d1 + d2 - d2 == d1
                let back = CelValue::Duration(x) - CelValue::Duration(d2);
                assert!(dur_of(&back) == Some(d1));
                std::mem::forget(back);
            }
            None => assert!(is_err(&r)),
        }
        std::mem::forget(r);
    }
    #[kani::proof]
    fn time_ordering_is_chronological() {
        let s1: i64 = kani::any(); let n1: u32 = kani::any(); let s2: i64 = kani::any(); let n2: u32 = kani::any();
        kani::assume(n1 < 1_000_000_000 && n2 < 1_000_000_000);
        let (t1, t2) = match (DateTime::<Utc>::from_timestamp(s1, n1), DateTime::<Utc>::from_timestamp(s2, n2)) { (Some(a), Some(b)) => (a, b), _ => return };
        let lt = CelValue::TimeStamp(t1).lt(CelValue::TimeStamp(t2));
        let before = s1 < s2 || (s1 == s2 && n1 < n2);
        match &lt { CelValue::Bool(b) => assert!(*b == before), _ => assert!(false) }
        std::mem::forget(lt);
    }
}
