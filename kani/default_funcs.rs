// Kani harnesses appended to rscel/src/context/default_funcs.rs of a scratch copy.
#[cfg(kani)]
mod verif_kani_funcs {
    use super::*;

    fn is_int(r: CelValue, want: i64) { match &r { CelValue::Int(v) => assert!(*v == want), _ => assert!(false) }; std::mem::forget(r); }
    fn is_uint(r: CelValue, want: u64) { match &r { CelValue::UInt(v) => assert!(*v == want), _ => assert!(false) }; std::mem::forget(r); }
    fn is_float_bits(r: CelValue, want: f64) { match &r { CelValue::Float(v) => assert!(v.to_bits() == want.to_bits()), _ => assert!(false) }; std::mem::forget(r); }
    fn is_error(r: CelValue) { assert!(matches!(&r, CelValue::Err(_))); std::mem::forget(r); }

    const P10: [u64; 20] = [1, 10, 100, 1000, 10000, 100000, 1000000, 10000000, 100000000, 1000000000, 10000000000, 100000000000, 1000000000000,
        10000000000000, 100000000000000, 1000000000000000, 10000000000000000, 100000000000000000, 1000000000000000000, 10000000000000000000];

    #[kani::proof]
    fn math_abs_int() { let n: i64 = kani::any(); let r = math::abs::abs(CelValue::Null, vec![CelValue::Int(n)]); if n == i64::MIN { is_error(r) } else { is_int(r, if n < 0 { -n } else { n }) } }
    #[kani::proof]
    fn math_abs_uint() { let n: u64 = kani::any(); let r = math::abs::abs(CelValue::Null, vec![CelValue::UInt(n)]); is_uint(r, n) }
    #[kani::proof]
    fn math_abs_double() { let f: f64 = kani::any(); let r = math::abs::abs(CelValue::Null, vec![CelValue::Float(f)]); is_float_bits(r, f.abs()) }
    #[kani::proof]
    fn math_lg_int() {
        let n: i64 = kani::any();
        let r = math::lg::lg(CelValue::Null, vec![CelValue::Int(n)]);
        if n <= 0 { is_error(r) } else {
            match &r { CelValue::Int(e) => { assert!(*e >= 0 && *e < 63); assert!((1i64 << *e) <= n); assert!(*e == 62 || n < (1i64 << (*e + 1))); } _ => assert!(false) }
            std::mem::forget(r);
        }
    }
    #[kani::proof]
    fn math_lg_uint() {
        let n: u64 = kani::any();
        let r = math::lg::lg(CelValue::Null, vec![CelValue::UInt(n)]);
        if n == 0 { is_error(r) } else {
            match &r { CelValue::UInt(e) => { assert!(*e < 64); assert!((1u64 << *e) <= n); assert!(*e == 63 || n < (1u64 << (*e + 1))); } _ => assert!(false) }
            std::mem::forget(r);
        }
    }
    #[kani::proof]
    fn math_log_int() {
        let n: i64 = kani::any();
        let r = math::log::log(CelValue::Null, vec![CelValue::Int(n)]);
        if n <= 0 { is_error(r) } else {
            match &r { CelValue::Int(e) => { assert!(*e >= 0 && *e < 19); assert!(P10[*e as usize] <= n as u64); assert!((n as u64) < P10[*e as usize + 1]); } _ => assert!(false) }
            std::mem::forget(r);
        }
    }
    #[kani::proof]
    fn math_log_uint() {
        let n: u64 = kani::any();
        let r = math::log::log(CelValue::Null, vec![CelValue::UInt(n)]);
        if n == 0 { is_error(r) } else {
            match &r { CelValue::UInt(e) => { assert!(*e < 20); assert!(P10[*e as usize] <= n); assert!(*e == 19 || n < P10[*e as usize + 1]); } _ => assert!(false) }
            std::mem::forget(r);
        }
    }
    fn f2i(x: f64, v: i64) {
        // double -> int: NaN -> 0, saturating, otherwise the exact integer value
        if x.is_nan() { assert!(v == 0) } else if x >= 9223372036854775808.0 { assert!(v == i64::MAX) } else if x <= -9223372036854775808.0 { assert!(v == i64::MIN) } else { assert!((v as f64) == x) }
    }
    #[kani::proof]
    fn math_floor_double() { let f: f64 = kani::any(); let r = math::floor::floor(CelValue::Null, vec![CelValue::Float(f)]); match &r { CelValue::Int(v) => f2i(f.floor(), *v), _ => assert!(false) }; std::mem::forget(r); }
    #[kani::proof]
    fn math_ceil_double() { let f: f64 = kani::any(); let r = math::ceil::ceil(CelValue::Null, vec![CelValue::Float(f)]); match &r { CelValue::Int(v) => f2i(f.ceil(), *v), _ => assert!(false) }; std::mem::forget(r); }
    #[kani::proof]
    fn math_round_double() { let f: f64 = kani::any(); let r = math::round::round(CelValue::Null, vec![CelValue::Float(f)]); match &r { CelValue::Int(v) => f2i(f.round(), *v), _ => assert!(false) }; std::mem::forget(r); }
    #[kani::proof]
    fn math_floor_ceil_round_int() {
        let n: i64 = kani::any();
        is_int(math::floor::floor(CelValue::Null, vec![CelValue::Int(n)]), n);
        is_int(math::ceil::ceil(CelValue::Null, vec![CelValue::Int(n)]), n);
        is_int(math::round::round(CelValue::Null, vec![CelValue::Int(n)]), n);
    }
    #[kani::proof]
    #[kani::unwind(4)]
    fn math_pow_int_square() {
        // exponent 2 (concrete): exact or error
        let b: i64 = kani::any();
        let r = math::pow::pow(CelValue::Null, vec![CelValue::Int(b), CelValue::Int(2)]);
        let exact = (b as i128) * (b as i128);
        if exact <= i64::MAX as i128 { is_int(r, exact as i64) } else { is_error(r) }
    }
    #[kani::proof]
    #[kani::unwind(2)]
    fn math_pow_int_negative_or_huge_exponent_is_error() {
        let b: i64 = kani::any(); let e: i64 = kani::any();
        kani::assume(e < 0 || e > u32::MAX as i64);
        is_error(math::pow::pow(CelValue::Null, vec![CelValue::Int(b), CelValue::Int(e)]));
    }
}
