// Kani harnesses appended to rscel/src/context/type_funcs.rs of a scratch copy.
#[cfg(kani)]
mod verif_kani_types {
    use super::*;

    fn is_int(r: CelValue, want: i64) { match &r { CelValue::Int(v) => assert!(*v == want), _ => assert!(false) }; std::mem::forget(r); }
    fn is_uint(r: CelValue, want: u64) { match &r { CelValue::UInt(v) => assert!(*v == want), _ => assert!(false) }; std::mem::forget(r); }
    fn is_float_bits(r: CelValue, want: f64) { match &r { CelValue::Float(v) => assert!(v.to_bits() == want.to_bits()), _ => assert!(false) }; std::mem::forget(r); }
    fn is_error(r: CelValue) { assert!(matches!(&r, CelValue::Err(_))); std::mem::forget(r); }

    #[kani::proof]
    fn conv_int_of_uint() { let u: u64 = kani::any(); let r = int_impl(CelValue::Null, vec![CelValue::UInt(u)]); if u <= i64::MAX as u64 { is_int(r, u as i64) } else { is_error(r) } }
    #[kani::proof]
    fn conv_int_of_int() { let i: i64 = kani::any(); let r = int_impl(CelValue::Null, vec![CelValue::Int(i)]); is_int(r, i) }
    #[kani::proof]
    fn conv_int_of_bool() { let b: bool = kani::any(); let r = int_impl(CelValue::Null, vec![CelValue::Bool(b)]); is_int(r, if b { 1 } else { 0 }) }
    #[kani::proof]
    fn conv_int_of_double() {
        let f: f64 = kani::any();
        let r = int_impl(CelValue::Null, vec![CelValue::Float(f)]);
        match &r {
            CelValue::Int(v) => {
                if f.is_nan() { assert!(*v == 0) }
                else if f >= 9223372036854775808.0 { assert!(*v == i64::MAX) }
                else if f <= -9223372036854775808.0 { assert!(*v == i64::MIN) }
                else { assert!((*v as f64) == f.trunc()) }     // truncation toward zero; exact because |f| < 2^63
            }
            _ => assert!(false),
        }
        std::mem::forget(r);
    }
    #[kani::proof]
    fn conv_uint_of_int() { let i: i64 = kani::any(); let r = uint_impl(CelValue::Null, vec![CelValue::Int(i)]); if i >= 0 { is_uint(r, i as u64) } else { is_error(r) } }
    #[kani::proof]
    fn conv_uint_of_uint() { let u: u64 = kani::any(); let r = uint_impl(CelValue::Null, vec![CelValue::UInt(u)]); is_uint(r, u) }
    #[kani::proof]
    fn conv_uint_of_bool() { let b: bool = kani::any(); let r = uint_impl(CelValue::Null, vec![CelValue::Bool(b)]); is_uint(r, if b { 1 } else { 0 }) }
    #[kani::proof]
    fn conv_uint_of_double() {
        let f: f64 = kani::any();
        let r = uint_impl(CelValue::Null, vec![CelValue::Float(f)]);
        match &r {
            CelValue::UInt(v) => {
                if f >= 18446744073709551616.0 { assert!(*v == u64::MAX) }
                else if f >= 0.0 { assert!((*v as f64) == f.trunc()) }
            }
            CelValue::Err(_) => assert!(!(f >= 0.0)),      // only a negative or NaN input may be rejected
            _ => assert!(false),
        }
        std::mem::forget(r);
    }
    #[kani::proof]
    fn conv_double_of_int() { let i: i64 = kani::any(); let r = double_impl(CelValue::Null, vec![CelValue::Int(i)]); is_float_bits(r, i as f64) }
    #[kani::proof]
    fn conv_double_of_uint() { let u: u64 = kani::any(); let r = double_impl(CelValue::Null, vec![CelValue::UInt(u)]); is_float_bits(r, u as f64) }
    #[kani::proof]
    fn conv_double_of_bool() { let b: bool = kani::any(); let r = double_impl(CelValue::Null, vec![CelValue::Bool(b)]); is_float_bits(r, if b { 1.0 } else { 0.0 }) }
    #[kani::proof]
    fn conv_double_of_double() { let f: f64 = kani::any(); let r = double_impl(CelValue::Null, vec![CelValue::Float(f)]); is_float_bits(r, f) }
}
