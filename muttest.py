#!/usr/bin/env python3
"""Development aid (not a registered check): verify ONE unit against a scratch copy of the sources instead of /repo.

    rm -rf /tmp/mut && mkdir -p /tmp/mut && cp -r /repo/rscel /tmp/mut/      # scratch copy (remove it afterwards)
    (cd /tmp/mut && patch -p1 < /verif/seeded/C04-d/patch.diff)             # or edit a file by hand
    cd /verif && python3 muttest.py value_cmp [/tmp/mut]

The unit is generated from the copy (the default `repo` of vgen.gen.Unit is redirected), /repo and the registered files are not
touched, the generated file is out/<unit>_mut.rs.  Prints the failing obligations, or the front-end error / lost anchor (= exit 2 of
the real check)."""
import sys, importlib
sys.path.insert(0, '/verif')
from vgen import gen, verus

name = sys.argv[1]
root = sys.argv[2] if len(sys.argv) > 2 else '/tmp/mut'
d = list(gen.Unit.__init__.__defaults__); d[-1] = root; gen.Unit.__init__.__defaults__ = tuple(d)
m = importlib.import_module('contracts.' + name)
try:
    r = verus.run_unit(m.build(), tag='_mut')
except Exception as e:
    print('EXC', type(e).__name__, e); sys.exit(2)
if r.front_end_error:
    print('FRONT-END', r.front_end_error[:800]); sys.exit(2)
for f in r.failures:
    print('FAIL', f.oid)
print('failures', len(r.failures))
