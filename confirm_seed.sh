#!/bin/sh
# confirm_seed.sh <id> <srcdir>: confirm in scratch worktree /tmp/wt-<id> that (1) suite passes with patch, (2) demo fails with patch, (3) demo passes without
ID=$1; SRC=${2:-/tmp/seed-$ID}; WT=/tmp/wt-$ID
cd $WT || exit 9
git checkout -q -- . ; rm -rf rscel/tests/seed_demo.rs
git apply $SRC/patch.diff || { echo "$ID: patch does not apply"; exit 8; }
S=$(cargo nextest run --workspace --no-fail-fast --offline 2>&1 | grep -E 'Summary' | tail -1)
mkdir -p rscel/tests; cp $SRC/seed_demo.rs rscel/tests/seed_demo.rs
W=$(cargo test --offline -p rscel --test seed_demo 2>&1 | grep -E '^test result' | tail -1)
git apply -R $SRC/patch.diff
O=$(cargo test --offline -p rscel --test seed_demo 2>&1 | grep -E '^test result' | tail -1)
echo "$ID | suite-with-patch: $S | demo-with-patch: $W | demo-without: $O"
