#!/bin/sh
# usage: seedtest.sh <patch> <prop>...   : apply patch to /repo, run checks, undo, then re-run the checks on the clean tree (evidence is rewritten by every run)
P=$1; shift
git -C /repo apply "$P" || exit 3
for c in "$@"; do
  out=$(cd /verif && ./check $c 2>&1); rc=$?
  echo "== $c exit=$rc"; echo "$out" | grep -E '^(VIOLATION|UNDECIDED|OK|KNOWN)' | head -5
done
git -C /repo checkout -- .
for c in "$@"; do (cd /verif && ./check $c >/dev/null 2>&1) || echo "!! $c does not pass on the clean tree"; done
