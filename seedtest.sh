#!/bin/sh
# usage: seedtest.sh <patch> <prop>...   : apply patch to /repo, run checks, undo
P=$1; shift
git -C /repo apply "$P" || exit 3
for c in "$@"; do
  out=$(cd /verif && ./check $c 2>&1); rc=$?
  echo "== $c exit=$rc"; echo "$out" | grep -E '^(VIOLATION|UNDECIDED|OK|KNOWN)' | head -5
done
git -C /repo checkout -- .
