#!/bin/sh
# run every seeded change against the check of its property (and report which obligation fires)
cd /verif
for d in seeded/*; do
  id=$(basename $d); prop=$(echo $id | cut -c1-3)
  grep -q "'$prop'" contracts/registry.py || { echo "$id: property $prop not claimed"; continue; }
  git -C /repo apply /verif/$d/patch.diff 2>/dev/null || { echo "$id: patch does not apply"; continue; }
  out=$(./check $prop 2>&1); rc=$?
  git -C /repo checkout -- .
  echo "$id exit=$rc $(echo "$out" | grep -E '^(VIOLATION|UNDECIDED|OK)' | head -2 | cut -c1-230 | tr '\n' ' ')"
done
