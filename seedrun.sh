#!/bin/sh
# usage: seedrun.sh <seed-id>...   apply the seed to /repo, run the check of its property, restore /repo, re-run the check on the clean tree
# (so that the evidence file left behind always describes the unchanged tree)
cd /verif
for id in "$@"; do
  prop=$(echo $id | cut -c1-3)
  git -C /repo apply /verif/seeded/$id/patch.diff 2>/dev/null || { echo "$id: patch does not apply"; continue; }
  out=$(./check $prop 2>&1); rc=$?
  git -C /repo checkout -- .
  echo "$id exit=$rc $(echo "$out" | grep -E '^(VIOLATION|UNDECIDED|OK)' | head -2 | cut -c1-300 | tr '\n' ' ')"
  ./check $prop >/dev/null 2>&1 || echo "!! $prop does not pass on the clean tree"
done
