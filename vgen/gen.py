"""Unit generator: extract items from /repo verbatim, splice contract text in at structural anchors.

A unit is described by a python module contracts/<unit>/unit.py that builds a `Unit`:

    U = Unit('value_arith', cfg=['type_prop', 'neg_index'])
    U.raw(PRELUDE_TEXT)                                    # spec fns, stand-ins, assumed specs (hand written, never code under contract)
    U.extract('rscel/src/types/cel_value.rs', 'impl CelValue', fns={'type_prop': A(...), 'is_err': A(...)})
    U.extract('rscel/src/types/cel_value.rs', 'impl Add for CelValue', fns={'add': A(...)})
    U.extract('rscel/src/types/cel_error.rs', 'enum CelError')

Every piece of generated text that is not a byte-for-byte copy of the source lies between /*@+*/ and /*@-*/,
except declared rewrites (Unit.rewrites / A.rewrites) which are token substitutions listed in the evidence.
"""
import hashlib
import os
import re

from . import rscan
from .rscan import MARK_OPEN as MO, MARK_CLOSE as MC

DROP_ATTR_PREFIXES = ('derive', 'serde', 'serde_as', 'inline', 'macro_export', 'allow', 'doc', 'must_use', 'test_case', 'test')


class LostAnchor(Exception):
    pass


class A:
    """Annotation for one fn (all fields optional)."""

    def __init__(self, ret=None, requires=None, ensures=None, decreases=None, spec_raw=None, loops=None, closures=None,
                 body_begin=None, body_end=None, arm_begin=None, arm_end=None, after=None, before=None, attrs=None,
                 rewrites=None, props=(), external_body=False, note=None, params_mut=None, no_canary=False, arm_rewrites=None, stub=False, arm_replace=None, method_table=None, ret_type=None, mcalls=None, closure_drop=None):
        self.ret = ret                      # name for the return value
        self.requires = requires or []      # list of (name, text)
        self.ensures = ensures or []        # list of (name, text)
        self.decreases = decreases
        self.spec_raw = spec_raw            # extra raw spec text placed before requires
        self.loops = loops or {}            # k -> dict(ghost='it', invariant=[(name,text)], decreases='..', pre='proof{}' (body begin), raw=..)
        self.closures = closures or {}      # k -> dict(types=[..], ret='res: T', requires=[..], ensures=[(name,text)], body_begin=...)
        self.body_begin = body_begin
        self.body_end = body_end
        self.arm_begin = arm_begin or {}    # pattern text (or (pattern, occ)) -> text
        self.arm_end = arm_end or {}
        self.after = after or {}            # (seq text, occ) -> text
        self.before = before or {}
        self.attrs = attrs or []
        self.rewrites = rewrites or []      # (old, new, reason)
        self.props = tuple(props)
        self.external_body = external_body
        self.note = note
        self.no_canary = no_canary
        self.ret_type = ret_type              # the return type the contract was written for (signature-change detection)
        self.closure_drop = closure_drop or {}   # k -> (expression text, reason): the k-th closure (source order) is NOT verified: replaced by a named external function
        self.mcalls = mcalls                  # method name -> trampoline, rewritten IN PLACE call by call (positional; composes with anchors); R2m
        self.method_table = method_table      # method name -> trampoline: the body is mechanically rewritten (vgen.mcall); R2m
        self.arm_replace = arm_replace or {}     # pattern -> (new body text, reason): the arm's body is NOT verified (dropped, replaced by a trampoline call)
        self.stub = stub                    # keep the signature verbatim, drop the body (external_body + unimplemented!()): callee known by contract only
        if stub:
            self.external_body = True
        self.arm_rewrites = arm_rewrites or {}   # pattern (or (pattern, occ)) -> [(old,new,reason)] applied inside that match arm only


def norm_clauses(cl):
    out = []
    for i, c in enumerate(cl or []):
        if isinstance(c, str):
            out.append((f'#{i}', c, None))
        else:
            out.append((c[0], c[1], (c[2] if len(c) > 2 else None)))
    return out


class Clause:
    """A named explicit obligation with its byte range in the generated file."""

    def __init__(self, fn, kind, name, text, props=None):
        self.fn, self.kind, self.name, self.text = fn, kind, name, text
        self.props = props          # None -> the fn's properties
        self.s = self.e = None

    @property
    def oid(self):
        return f'{self.fn}::{self.kind}:{self.name}'


class Piece:
    def __init__(self):
        self.parts = []   # strings or Clause (whose text is emitted and position recorded)

    def add(self, x):
        self.parts.append(x)


class ExtractedFn:
    def __init__(self, qual, file, sha, props, external_body, src_lines):
        self.qual, self.file, self.sha, self.props, self.external_body = qual, file, sha, props, external_body
        self.src_lines = src_lines
        self.s = self.e = None
        self.clauses = []
        self.canary_pos = None


class Unit:
    def __init__(self, name, cfg=('type_prop', 'neg_index'), repo='/repo'):
        self.name, self.cfg, self.repo = name, list(cfg), repo
        self.ops = []
        self.sources = {}
        self.global_rewrites = []   # (old,new,reason) applied to every extracted item where it matches (may match zero times)
        self.dropped = set()
        self.rewrites_applied = []
        self.assumption_notes = []
        self.sig_mismatch = []      # (fn, return type the contract was written for, return type found)
        self.notes = []
        self.lemmas = []            # (name of a proof fn in the raw text, props): counted as one obligation each

    def src(self, rel):
        if rel not in self.sources:
            p = os.path.join(self.repo, rel)
            with open(p, encoding='utf-8') as f:
                self.sources[rel] = rscan.Source(f.read(), rel)
        return self.sources[rel]

    def raw(self, text, label='prelude'):
        self.ops.append(('raw', text, label))

    def extract(self, file, selector, fns=None, all_fns=False, annot=None, keep_attrs=(), rename=None, inside=None, only_header=False, default_props=(), others=None, skip=(), qual_prefix=None):
        """fns: dict name -> A  (for impl / mod / trait: emit header + only these fns (+ assoc types));
        annot: A for a free fn / whole item;  inside: selector of an enclosing mod (e.g. 'mod foo')."""
        self.ops.append(('extract', dict(file=file, selector=selector, fns=fns, all_fns=all_fns, annot=annot, keep_attrs=keep_attrs,
                                         rename=rename, inside=inside, default_props=tuple(default_props), others=others, skip=tuple(skip), qual_prefix=qual_prefix)))

    def assume_note(self, text):
        self.assumption_notes.append(text)


# ---------------------------------------------------------------------------------------------------


def _attr_name(src, a):
    toks = src.toks[a[0]:a[1]]
    # # [ name ...
    for t in toks:
        if t.kind == 'id':
            return t.text
    return ''


def _is_cfg_test(src, a):
    return rscan.norm(src.toks[a[0]:a[1]]).replace(' ', '') == '#[cfg(test)]'


class Emitter:
    """Builds the text of one extracted item from source offsets + insertions + deletions + rewrites."""

    def __init__(self, src, lo_tok, hi_tok):
        self.src = src
        self.lo, self.hi = lo_tok, hi_tok
        self.ins = {}     # char offset -> list of (order, obj) where obj is str or Clause   (inserted BEFORE that offset)
        self.dele = []    # (char_s, char_e)
        self.repl = []    # (char_s, char_e, new_text)
        self._n = 0

    def insert_before_tok(self, ti, obj):
        off = self.src.toks[ti].s
        self._ins(off, obj)

    def insert_after_tok(self, ti, obj):
        off = self.src.toks[ti].e
        self._ins(off, obj)

    def _ins(self, off, obj):
        self._n += 1
        self.ins.setdefault(off, []).append((self._n, obj))

    def delete_toks(self, a, b):
        self.dele.append((self.src.toks[a].s, self.src.toks[b - 1].e))

    def replace_toks(self, a, b, new):
        self.repl.append((self.src.toks[a].s, self.src.toks[b - 1].e, new))

    def build(self, piece):
        text = self.src.text
        s0 = self.src.toks[self.lo].s
        e0 = self.src.toks[self.hi - 1].e
        # include leading doc comments? no: start at first token
        events = []
        for off, lst in self.ins.items():
            for order, obj in lst:
                events.append((off, 0, order, 'ins', obj))
        for (a, b) in self.dele:
            events.append((a, 1, 0, 'del', b))
        for (a, b, new) in self.repl:
            events.append((a, 1, 0, 'rep', (b, new)))
        events.sort(key=lambda x: (x[0], x[1], x[2]))
        pos = s0
        for off, _, _, kind, obj in events:
            if off < pos:
                if kind == 'ins':
                    # insertion inside a deleted/replaced region: drop silently only if region was deleted
                    raise LostAnchor(f'insertion at {off} falls inside a deleted region')
                continue
            piece.add(text[pos:off])
            pos = off
            if kind == 'ins':
                piece.add(MO)
                piece.add(obj)
                piece.add(MC)
            elif kind == 'del':
                pos = obj
            else:
                b, new = obj
                piece.add(new)
                pos = b
        piece.add(text[pos:e0])


def _spec_objs(fnq, a: A):
    objs = []
    if a.spec_raw:
        objs.append(a.spec_raw + '\n')
    req = norm_clauses(a.requires)
    ens = norm_clauses(a.ensures)
    if req:
        objs.append('\n    requires\n')
        for n, t, pp in req:
            objs.append('        ')
            objs.append(Clause(fnq, 'requires', n, t, pp))
            objs.append(',\n')
    if ens:
        objs.append('\n    ensures\n')
        for n, t, pp in ens:
            objs.append('        ')
            objs.append(Clause(fnq, 'ensures', n, t, pp))
            objs.append(',\n')
    if a.decreases:
        objs.append(f'\n    decreases {a.decreases}\n')
    return objs


def annotate_fn(unit, src, it, fnq, a: A, em: Emitter, canary=None):
    """it: Item of kind fn.  Adds insertions to em.  canary: None | 'entry' | 'loops'."""
    toks, br = src.toks, src.br
    # ---- signature ----
    k = it.kw + 2  # after name
    if toks[k].text == '<':
        depth = 0
        while True:
            t = toks[k]
            if t.kind == 'p' and t.text == '<':
                depth += 1
            elif t.kind == 'p' and t.text == '>' and not (toks[k - 1].text == '-' and toks[k - 1].e == t.s):
                depth -= 1
                if depth == 0:
                    k += 1
                    break
            elif t.kind == 'p' and t.text in rscan.OPEN:
                k = br[k]
            k += 1
    if toks[k].text != '(':
        raise LostAnchor(f'{fnq}: cannot find parameter list')
    pclose = br[k]
    body_open = it.body_open
    if body_open is None:
        raise LostAnchor(f'{fnq}: fn has no body')
    j = pclose + 1
    ret_s = ret_e = None
    where_i = None
    kk = j
    while kk < body_open:
        if toks[kk].kind == 'id' and toks[kk].text == 'where':
            where_i = kk
            break
        if toks[kk].kind == 'p' and toks[kk].text in rscan.OPEN:
            kk = br[kk]
        kk += 1
    sig_end = where_i if where_i is not None else body_open
    if j < sig_end and toks[j].text == '-' and toks[j + 1].text == '>':
        ret_s, ret_e = j + 2, sig_end
    if a.ret_type is not None:
        actual = rscan.norm(toks[ret_s:ret_e]) if ret_s is not None else '()'
        if actual != rscan.norm_text(a.ret_type):
            unit.sig_mismatch.append((fnq, a.ret_type, actual))
    if a.ret:
        if ret_s is None:
            raise LostAnchor(f'{fnq}: return value named but fn has no return type')
        em.insert_before_tok(ret_s, f'({a.ret}: ')
        em.insert_after_tok(ret_e - 1, ')')
    for at in a.attrs:
        em.insert_before_tok(it.kw if not _has_vis(toks, it) else _vis_start(toks, it), at + ' ')
    if a.external_body:
        em.insert_before_tok(_vis_start(toks, it), '#[verifier::external_body] ')
    for o in _spec_objs(fnq, a):
        em.insert_before_tok(body_open, o)
    body_lo, body_hi = body_open + 1, br[body_open]
    if a.stub:
        if body_hi > body_lo:
            em.delete_toks(body_lo, body_hi)
        em.insert_after_tok(body_open, ' unimplemented!() ')
        return
    if a.external_body:
        return
    # ---- body begin / end ----
    if canary == 'entry' and not a.no_canary:
        c = Clause(fnq, 'canary', 'entry', 'assert(false)')
        em.insert_after_tok(body_open, ' proof { ')
        em.insert_after_tok(body_open, c)
        em.insert_after_tok(body_open, '; } ')
    if a.body_begin:
        em.insert_after_tok(body_open, '\n' + a.body_begin + '\n')
    if a.body_end:
        em.insert_before_tok(body_hi, '\n' + a.body_end + '\n')
    # ---- loops ----
    loops = rscan.find_loops(toks, br, body_lo, body_hi)
    handled = set()
    loop_specs = list((a.loops or {}).items())
    # R9 also for `for` loops that carry no annotation: found after the annotated ones have been placed
    loop_specs.append(('__auto__', None))
    if loop_specs:
        for kidx, spec in loop_specs:
            if kidx == '__auto__':
                for n_auto, (kw_a, lb_a) in enumerate(loops):
                    if kw_a in handled or toks[kw_a].text != 'for' or (kw_a >= 2 and toks[kw_a - 1].text == ':' and toks[kw_a - 2].kind == 'lt'):
                        continue
                    if any(s0 <= src.toks[kw_a].s < e0 for (s0, e0, _n) in em.repl) or any(s0 <= src.toks[kw_a].s < e0 for (s0, e0) in em.dele):
                        continue          # inside a dropped arm / closure
                    conts = _own_continues(toks, br, lb_a)
                    if not conts:
                        continue
                    G = f'vit_auto{n_auto}'
                    if _r9_rewrite(unit, src, fnq, toks, br, kw_a, lb_a, conts, G, em) is None:
                        continue
                    em.insert_before_tok(lb_a, f'\n    invariant {G}.at({G}_cur),\n    ensures {G}.index@ == {G}.seq().len(),\n    decreases {G}.seq().len() - {G}.index@\n')
                    em.insert_before_tok(br[lb_a], f'\n{G}_cur = {G}.advance();\n')
                continue
            if spec.get('header'):
                # addressed by its header text (`for m in xs.iter()`): robust against loops added / removed before it; when no loop has that
                # header the annotation is simply not emitted (the function is then checked against its contract without the invariant)
                ht = [t.text for t in rscan.tokenize(spec['header'])]
                cand = [(kw, lb_) for (kw, lb_) in loops if [t.text for t in toks[kw:kw + len(ht)]] == ht]
                if not cand:
                    unit.notes.append(f'{fnq}: no loop with header `{spec["header"]}`: its invariant is not emitted')
                    continue
                kw_i, lb = cand[0]
            else:
                if kidx >= len(loops):
                    raise LostAnchor(f'{fnq}: loop #{kidx} not found ({len(loops)} loops)')
                kw_i, lb = loops[kidx]
            handled.add(kw_i)
            r9 = None
            if toks[kw_i].text == 'for' and not (kw_i >= 2 and toks[kw_i - 1].text == ':' and toks[kw_i - 2].kind == 'lt'):
                conts = _own_continues(toks, br, lb)
                if conts:
                    r9 = _r9_rewrite(unit, src, fnq, toks, br, kw_i, lb, conts, spec.get('ghost') or f'vit{kidx}', em)
            if spec.get('ghost') and r9 is None:
                if toks[kw_i].text != 'for':
                    raise LostAnchor(f'{fnq}: loop #{kidx} is not a for loop')
                x = kw_i + 1
                while x < lb and not (toks[x].kind == 'id' and toks[x].text == 'in'):
                    if toks[x].kind == 'p' and toks[x].text in rscan.OPEN:
                        x = br[x]
                    x += 1
                if x >= lb:
                    raise LostAnchor(f'{fnq}: loop #{kidx}: no `in`')
                em.insert_after_tok(x, f' {spec["ghost"]}: ')
            inv = norm_clauses(spec.get('invariant'))
            loop_ens = list(spec.get('ensures') or [])
            decr = spec.get('decreases')
            if r9:
                G = r9
                inv = norm_clauses([('the_explicit_iterator_is_at_its_current_element', f'{G}.at({G}_cur)')]) + inv
                loop_ens = [('the_explicit_iterator_is_exhausted', f'{G}.index@ == {G}.seq().len()')] + loop_ens
                decr = decr or f'{G}.seq().len() - {G}.index@'
            if spec.get('raw'):
                em.insert_before_tok(lb, '\n' + spec['raw'] + '\n')
            if spec.get('invariant_except_break'):
                em.insert_before_tok(lb, '\n    invariant_except_break\n')
                for n, t, pp in norm_clauses(spec['invariant_except_break']):
                    em.insert_before_tok(lb, '        ')
                    em.insert_before_tok(lb, Clause(fnq, f'invariant[{kidx}]', n, t, pp))
                    em.insert_before_tok(lb, ',\n')
            if inv:
                em.insert_before_tok(lb, '\n    invariant\n')
                for n, t, pp in inv:
                    em.insert_before_tok(lb, '        ')
                    em.insert_before_tok(lb, Clause(fnq, f'invariant[{kidx}]', n, t, pp))
                    em.insert_before_tok(lb, ',\n')
            if loop_ens:
                em.insert_before_tok(lb, '\n    ensures\n')
                for n, t, pp in norm_clauses(loop_ens):
                    em.insert_before_tok(lb, '        ')
                    em.insert_before_tok(lb, Clause(fnq, f'loop-ensures[{kidx}]', n, t, pp))
                    em.insert_before_tok(lb, ',\n')
            if decr:
                em.insert_before_tok(lb, f'\n    decreases {decr}\n')
            if canary == 'loops':
                c = Clause(fnq, 'canary', f'loop{kidx}', 'assert(false)')
                em.insert_after_tok(lb, ' proof { ')
                em.insert_after_tok(lb, c)
                em.insert_after_tok(lb, '; } ')
            if spec.get('pre'):
                em.insert_after_tok(lb, '\n' + spec['pre'] + '\n')
            if spec.get('post'):
                em.insert_before_tok(br[lb], '\n' + spec['post'] + '\n')
            if r9:
                em.insert_before_tok(br[lb], f'\n{r9}_cur = {r9}.advance();\n')
            if spec.get('after'):
                em.insert_after_tok(br[lb], '\n' + spec['after'] + '\n')
    # ---- closures ----
    if a.closures:
        cls = rscan.find_closures(toks, br, body_lo, body_hi)
        for kidx, spec in a.closures.items():
            if kidx >= len(cls):
                raise LostAnchor(f'{fnq}: closure #{kidx} not found ({len(cls)} closures)')
            c = cls[kidx]
            types = spec.get('types') or []
            if types and len(types) != len(c['params']):
                raise LostAnchor(f'{fnq}: closure #{kidx} has {len(c["params"])} params, contract expects {len(types)}')
            for (ps, pe), ty in zip(c['params'], types):
                has_ty = any(toks[x].kind == 'p' and toks[x].text == ':' for x in range(ps, pe))
                if not has_ty and ty:
                    em.insert_after_tok(pe - 1, f': {ty}')
            bs, be = c['body']
            objs = []
            if spec.get('ret'):
                objs.append(f' -> ({spec["ret"]})')
            req = norm_clauses(spec.get('requires'))
            ens = norm_clauses(spec.get('ensures'))
            if req:
                objs.append('\n    requires\n')
                for n, t, pp in req:
                    objs += ['        ', Clause(fnq, f'closure[{kidx}]-requires', n, t, pp), ',\n']
            if ens:
                objs.append('\n    ensures\n')
                for n, t, pp in ens:
                    objs += ['        ', Clause(fnq, f'closure[{kidx}]-ensures', n, t, pp), ',\n']
            for o in objs:
                em.insert_before_tok(bs, o)
            if not c['block']:
                em.insert_before_tok(bs, '{ ')
                if spec.get('body_begin'):
                    em.insert_before_tok(bs, spec['body_begin'] + '\n')
                em.insert_after_tok(be - 1, ' }')
            elif spec.get('body_begin'):
                em.insert_after_tok(bs, '\n' + spec['body_begin'] + '\n')
    # ---- arms ----
    for which, table in (('begin', a.arm_begin), ('end', a.arm_end)):
        for key, text in table.items():
            pat, occ = (key, 0) if isinstance(key, str) else key
            r = rscan.find_arm(toks, br, body_lo, body_hi, pat, occ)
            if r is None:
                raise LostAnchor(f'{fnq}: match arm `{pat}` #{occ} not found')
            ps, arrow, bs, be, is_block = r
            objs = []
            for o in (text if isinstance(text, list) else [text]):
                objs += _wrap_arm_obj(fnq, pat, o)
            if is_block:
                if which == 'end' and toks[be - 2].text not in (';', '}', '{'):
                    em.insert_after_tok(be - 2, ';')   # the arm ends in a unit-typed tail expression
                for o in objs:
                    if which == 'begin':
                        em.insert_after_tok(bs, o)
                    else:
                        em.insert_before_tok(be - 1, o)
            else:
                # expression arm: wrap it into a block (insertions only)
                if which == 'begin':
                    em.insert_before_tok(bs, '{ ')
                    for o in objs:
                        em.insert_before_tok(bs, o)
                    em.insert_after_tok(be - 1, ' }')
                else:
                    em.insert_before_tok(bs, '{ ')
                    em.insert_after_tok(be - 1, '; ')
                    for o in objs:
                        em.insert_after_tok(be - 1, o)
                    em.insert_after_tok(be - 1, ' }')
    # ---- generic anchors ----
    for which, table in (('after', a.after), ('before', a.before)):
        for key, text in table.items():
            stmt = False
            if isinstance(key, tuple) and key and key[0] == 'stmt':
                # ('stmt', prefix, occ): the whole statement that starts with `prefix` (up to its terminating `;`), whatever follows the prefix
                stmt, key = True, key[1:]
            seq, occ = (key, 0) if isinstance(key, str) else key
            r = rscan.find_seq(toks, body_lo, body_hi, seq, occ)
            if r is None:
                raise LostAnchor(f'{fnq}: anchor `{seq}` #{occ} not found')
            if stmt:
                k = r[1]
                while k < body_hi and not (toks[k].kind == 'p' and toks[k].text == ';'):
                    if toks[k].kind == 'p' and toks[k].text in rscan.OPEN:
                        k = br[k]
                    k += 1
                if k >= body_hi:
                    raise LostAnchor(f'{fnq}: statement `{seq}` #{occ} has no terminating `;`')
                r = (r[0], k + 1)
            objs = []
            for o in (text if isinstance(text, list) else [text]):
                objs += _wrap_arm_obj(fnq, seq, o)
            for o in objs:
                if which == 'after':
                    em.insert_after_tok(r[1] - 1, o)
                else:
                    em.insert_before_tok(r[0], o)


# ---- R9: a `for` loop whose body uses `continue` (Verus's own for-loops do not take it) is driven by an explicit iterator stand-in ----
VITER_PRELUDE = r'''
// ---- R9: explicit iterator stand-in for `for` loops with `continue` (same ghost vocabulary as Verus's for-loops: index@, seq()) ----
#[verifier::external_body] #[verifier::reject_recursive_types(T)] pub struct VIterInner<T> { _p: std::marker::PhantomData<T> }
#[verifier::reject_recursive_types(T)]
pub struct VIter<T> { pub index: Ghost<int>, pub items: Ghost<Seq<T>>, pub inner: VIterInner<T> }
impl<T> VIter<T> {
    pub open spec fn seq(&self) -> Seq<T> { self.items@ }
    /// `cur` is the element the body is about to see (None: exhausted); index = number of elements already seen
    pub open spec fn at(&self, cur: Option<T>) -> bool {
        0 <= self.index@ <= self.items@.len() && cur == (if self.index@ < self.items@.len() { Some(self.items@[self.index@]) } else { None::<T> })
    }
    #[verifier::external_body] pub fn first(&mut self) -> (r: Option<T>)
        requires old(self).index@ == 0
        ensures final(self).index == old(self).index, final(self).items == old(self).items, final(self).at(r) { unimplemented!() }
    #[verifier::external_body] pub fn advance(&mut self) -> (r: Option<T>)
        requires 0 <= old(self).index@ < old(self).items@.len()
        ensures final(self).index@ == old(self).index@ + 1, final(self).items == old(self).items, final(self).at(r) { unimplemented!() }
}
#[verifier::external_body] pub fn viter_vec<T>(v: Vec<T>) -> (r: VIter<T>) ensures r.index@ == 0, r.seq() == v@ { unimplemented!() }
#[verifier::external_body] pub fn viter_refs<'a, T>(v: &'a Vec<T>) -> (r: VIter<&'a T>)
    ensures r.index@ == 0, r.seq().len() == v@.len(), forall|j: int| 0 <= j < v@.len() ==> *(#[trigger] r.seq()[j]) == v@[j] { unimplemented!() }
pub trait VRangeInt: Sized { spec fn as_int(self) -> int; }
impl VRangeInt for u32 { open spec fn as_int(self) -> int { self as int } }
impl VRangeInt for usize { open spec fn as_int(self) -> int { self as int } }
impl VRangeInt for u64 { open spec fn as_int(self) -> int { self as int } }
impl VRangeInt for i64 { open spec fn as_int(self) -> int { self as int } }
impl VRangeInt for i32 { open spec fn as_int(self) -> int { self as int } }
#[verifier::external_body] pub fn viter_range<I: VRangeInt>(r: std::ops::Range<I>) -> (o: VIter<I>)
    ensures o.index@ == 0, o.seq().len() == (if r.end.as_int() > r.start.as_int() { r.end.as_int() - r.start.as_int() } else { 0 }),
        forall|j: int| 0 <= j < o.seq().len() ==> (#[trigger] o.seq()[j]).as_int() == r.start.as_int() + j { unimplemented!() }
'''


def _own_continues(toks, br, lb):
    """indices of the `continue` tokens that belong to the loop whose body opens at lb (not to a nested loop, not inside a closure)"""
    lo, hi = lb + 1, br[lb]
    skip = []
    for (kw, b2) in rscan.find_loops(toks, br, lo, hi):
        skip.append((b2, br[b2]))
    for c in rscan.find_closures(toks, br, lo, hi):
        skip.append(c['body'])
    out = []
    for i in range(lo, hi):
        if toks[i].kind == 'id' and toks[i].text == 'continue' and not any(a <= i < b for (a, b) in skip):
            if i + 1 < hi and toks[i + 1].kind == 'lt':
                return None         # labelled continue: not handled
            out.append(i)
    return out


def _r9_rewrite(unit, src, fnq, toks, br, kw_i, lb, conts, G, em):
    """R9: `for PAT in EXPR { BODY }` with `continue` in BODY ->
         let mut G = viter_*(EXPR); let mut G_cur = G.first(); loop <invariants> { let PAT = match G_cur { Some(x) => x, None => break }; BODY'; G_cur = G.advance(); }
       where BODY' is BODY with every own `continue` replaced by `{ G_cur = G.advance(); continue }`.  Same elements, same order, same exits; the ghost
       vocabulary of the invariants (G.index@ = number of elements already seen, G.seq()) is the one of Verus's for-loops."""
    x = kw_i + 1
    while x < lb and not (toks[x].kind == 'id' and toks[x].text == 'in'):
        if toks[x].kind == 'p' and toks[x].text in rscan.OPEN:
            x = br[x]
        x += 1
    if x >= lb:
        return None
    pat = src.text_of(kw_i + 1, x)
    e0, e1 = x + 1, lb          # EXPR tokens
    tail = [t.text for t in toks[max(e0, e1 - 4):e1]]
    recs = getattr(em, 'extra_rw', None)
    if recs is None:
        recs = em.extra_rw = []

    def rw(a, b, new, why):
        em.replace_toks(a, b, new)
        recs.append(dict(item=fnq, old=src.text_of(a, b), new=new, count=1, positions=[(a, b)], reason='R9: ' + why))
    why = 'a `for` loop whose body uses `continue` is driven by an explicit iterator stand-in (Verus for-loops do not take `continue`); same elements, order and exits'
    if tail[-4:] == ['.', 'iter', '(', ')']:
        rw(kw_i, x + 1, f'let mut {G} = viter_refs(&', why)
        rw(e1 - 4, e1, ' ', 'the `.iter()` of the loop header is part of the stand-in constructor')
    elif tail[-4:] == ['.', 'into_iter', '(', ')']:
        rw(kw_i, x + 1, f'let mut {G} = viter_vec(', why)
        rw(e1 - 4, e1, ' ', 'the `.into_iter()` of the loop header is part of the stand-in constructor')
    else:
        depth0_range = False
        k = e0
        while k < e1 - 1:
            if toks[k].kind == 'p' and toks[k].text in rscan.OPEN:
                k = br[k] + 1
                continue
            if toks[k].text == '.' and toks[k + 1].text == '.' and toks[k].e == toks[k + 1].s:
                depth0_range = True
                break
            k += 1
        rw(kw_i, x + 1, f'let mut {G} = {"viter_range" if depth0_range else "viter_vec"}(', why)
    em.insert_before_tok(lb, f'); let mut {G}_cur = {G}.first(); loop ')
    em.insert_after_tok(lb, f' let {pat} = match {G}_cur {{ Some(x__) => x__, None => break }}; ')
    for c in conts:
        rw(c, c + 1, f'{{ {G}_cur = {G}.advance(); continue }}', 'the iterator is advanced before `continue`, as the loop end does')
    unit.needs_viter = True
    return G


def _wrap_arm_obj(fnq, pat, o):
    """str -> raw text; (name, condition[, props]) -> `proof { assert(condition); }` as a named obligation"""
    if isinstance(o, tuple):
        return ['proof { ', _AssertClause(fnq, o[0], 'assert(' + o[1] + ')', o[2] if len(o) > 2 else None), '; } ']
    return [o]


class _AssertClause(Clause):
    def __init__(self, fnq, name, text, props=None):
        super().__init__(fnq, 'assert', name, text, props)


def _has_vis(toks, it):
    return _vis_start(toks, it) != it.kw


def _vis_start(toks, it):
    # first token after attributes
    i = it.start
    for (a, b) in it.attrs:
        i = max(i, b)
    return i


def _replace_tokens_in_text(text, old, new):
    """replace every occurrence of the token sequence `old` in `text` by `new` -> (text, count)"""
    pt = [t.text for t in rscan.tokenize(old)]
    n = 0
    while True:
        toks = rscan.tokenize(text)
        hit = None
        for i in range(len(toks) - len(pt) + 1):
            if [t.text for t in toks[i:i + len(pt)]] == pt:
                hit = (toks[i].s, toks[i + len(pt) - 1].e)
                break
        if hit is None or new.replace(' ', '') == old.replace(' ', ''):
            return text.replace('\x00', new), n
        # do not loop forever when `new` contains `old`
        text = text[:hit[0]] + '\x00' + text[hit[1]:]
        n += 1
        if n > 50:
            return text.replace('\x00', new), n
        continue


def apply_rewrites_tokens(src, lo, hi, rewrites, em, applied, label):
    for (old, new, reason) in rewrites:
        occ = 0
        pos = lo
        pt = [t.text for t in rscan.tokenize(old)]
        n = len(pt)
        i = lo
        cnt = 0
        positions = []
        while i + n <= hi:
            if [t.text for t in src.toks[i:i + n]] == pt:
                em.replace_toks(i, i + n, new)
                cnt += 1
                positions.append((i, i + n))
                i += n
            else:
                i += 1
        if cnt:
            applied.append(dict(item=label, old=old, new=new, reason=reason, count=cnt, positions=positions))
    return


class Generated:
    def __init__(self):
        self.text = ''
        self.fns = []          # ExtractedFn
        self.items = []        # dict(id, file, selector, tok range...) for verbatim check
        self.clauses = []
        self.dropped_attrs = []
        self.rewrites = []


def generate(unit: Unit, canary=None) -> Generated:
    g = _generate(unit, canary)
    if getattr(unit, 'needs_viter', False) and not getattr(unit, '_viter_added', False):
        # R9 was used: the iterator stand-in is added to the hand-written spec text (after the first raw block) and the unit is generated again
        unit._viter_added = True
        k = next(i for i, op in enumerate(unit.ops) if op[0] == 'raw')
        unit.ops.insert(k + 1, ('raw', VITER_PRELUDE, 'R9 iterator stand-in'))
        unit.rewrites_applied = []
        unit.notes = []
        unit.sig_mismatch = []
        g = _generate(unit, canary)
    return g


def _generate(unit: Unit, canary=None) -> Generated:
    g = Generated()
    out = []     # list of str | Clause

    def emit(x):
        out.append(x)

    emit('// GENERATED by /verif/vgen from the working tree of /repo -- do not edit.\n')
    emit(f'// unit: {unit.name}   canary: {canary}\n')
    emit('#![allow(unused_imports, unused_variables, dead_code, unused_mut, unreachable_code, unused_parens, non_snake_case, unreachable_patterns, unused_assignments, irrefutable_let_patterns)]\n')
    emit('#![feature(allocator_api)]\n')
    emit('use vstd::prelude::*;\n')
    item_id = 0
    verus_open = False

    for op in unit.ops:
        if op[0] == 'raw':
            emit(f'\n// ---- {op[2]} (hand-written spec text) ----\n')
            emit(op[1])
            emit('\n')
            continue
        spec = op[1]
        src = unit.src(spec['file'])
        lo, hi = 0, None
        if spec['inside']:
            # `mod a/mod b`: a chain of enclosing items, outermost first
            for sel in spec['inside'].split('/'):
                outer = src.find(sel, lo, hi)
                if len(outer) != 1:
                    raise LostAnchor(f"{spec['file']}: enclosing `{sel}` found {len(outer)} times")
                lo, hi = src.body_range(outer[0])
        cands = src.find(spec['selector'], lo, hi)
        # several impls/fns with the same header are disambiguated by cfg: keep those not under cfg(not(feature in cfg)) etc. -> emit all
        if not cands:
            raise LostAnchor(f"{spec['file']}: item `{spec['selector']}` not found")
        for it in cands:
            item_id += 1
            iid = f'{unit.name}#{item_id}'
            label = f"{spec['file']}::{spec['selector']}"
            if it.kind in ('impl', 'mod', 'trait') and (spec['fns'] is not None):
                # header + selected members
                blo, bhi = src.body_range(it)
                members = src.items(blo, bhi)
                want = dict(spec['fns'])
                # header text (attributes filtered)
                hdr_piece = Piece()
                em = Emitter(src, it.start, it.body_open + 1)
                _drop_attrs(src, it, em, spec['keep_attrs'], g)
                em.build(hdr_piece)
                emit(f'\n//@@BEGIN {iid}:hdr {label}\n')
                for p in hdr_piece.parts:
                    emit(p)
                emit(f'\n//@@END {iid}:hdr\n')
                g.items.append(dict(id=f'{iid}:hdr', file=spec['file'], lo=it.start, hi=it.body_open + 1, label=label, rewrites=[]))
                if it.kind == 'mod':
                    emit('use super::*;\n')
                seen = set()
                occ = {}
                for m in members:
                    # overloads of a #[dispatch] module share one name: they are addressed as name#k and renamed name_ovk
                    if it.kind == 'mod' and m.kind == 'fn':
                        k = occ.get(m.name, 0)
                        occ[m.name] = k + 1
                        key = f'{m.name}#{k}'
                        if key in want:
                            mid = f'{iid}:{m.name}_ov{k}'
                            a = want[key]
                            a.rewrites = list(a.rewrites) + [(f'fn {m.name}', f'fn {m.name}_ov{k}', 'D4: #[dispatch] overloads share one name (the macro mangles them); renamed for the single-file unit')]
                            _emit_item(unit, g, src, m, mid, label + '::' + key, a, (spec['qual_prefix'] + '::' if spec['qual_prefix'] else '') + f'{it.name}::{m.name}_ov{k}', emit, canary, spec)
                            seen.add(key)
                            continue
                    take = False
                    gated = any(_gated_feature(src, a0, a1) for (a0, a1) in m.attrs)
                    if m.kind == 'fn' and m.name in spec['skip']:
                        take = False
                    elif m.kind == 'fn' and (m.name in want or spec['all_fns']):
                        take = True
                    elif m.kind == 'fn' and spec['others'] == 'stub' and not gated and not _returns_impl_trait(src, m):
                        take = True   # ambient member: verbatim signature, body dropped, no contract (callers learn nothing about it)
                    elif m.kind in ('type', 'const') and it.kind == 'impl' and ' for ' in (' ' + it.header + ' '):
                        take = True  # associated types/consts of trait impls
                    if not take:
                        continue
                    mid = f'{iid}:{m.name}' + (f'~{sum(1 for x in seen if x == m.name)}' if m.name in seen else '')
                    seen.add(m.name)
                    a = want.get(m.name) if m.kind == 'fn' else None
                    if a is None and m.kind == 'fn' and spec['others'] == 'stub' and not spec['all_fns']:
                        a = A(stub=True)
                    if a is None:
                        a = A(props=spec['default_props'])
                    fnq = f'{_short_hdr(it)}::{m.name}' if m.kind == 'fn' else None
                    _emit_item(unit, g, src, m, mid, label + '::' + m.name, a, fnq, emit, canary, spec)
                missing = [n for n in want if n not in seen]
                if missing:
                    raise LostAnchor(f'{label}: fn(s) not found: {missing}')
                emit('\n}\n')
            else:
                a = spec['annot'] or A(props=spec['default_props'])
                fnq = it.name if it.kind == 'fn' else None
                if spec['inside'] and fnq:
                    fnq = spec['inside'].split()[-1] + '::' + fnq
                _emit_item(unit, g, src, it, iid, label, a, fnq, emit, canary, spec)
    emit('\nfn main() {}\n')
    # assemble, recording clause offsets (byte offsets in utf-8)
    pos = 0
    buf = []
    cur_fn = None
    for x in out:
        if isinstance(x, Clause):
            b = x.text.encode('utf-8')
            x.s, x.e = pos, pos + len(b)
            g.clauses.append(x)
            buf.append(x.text)
            pos += len(b)
        elif isinstance(x, tuple) and x[0] == 'fnbegin':
            x[1].s = pos
        elif isinstance(x, tuple) and x[0] == 'fnend':
            x[1].e = pos
        else:
            buf.append(x)
            pos += len(x.encode('utf-8'))
    g.text = ''.join(buf)
    g.rewrites = unit.rewrites_applied
    for f in g.fns:
        f.clauses = [c for c in g.clauses if c.fn == f.qual]
    return g


def _returns_impl_trait(src, m):
    """`-> impl Trait` cannot be stubbed with unimplemented!()"""
    toks = src.toks[m.kw:(m.body_open or m.end)]
    for i in range(len(toks) - 2):
        if toks[i].text == '-' and toks[i + 1].text == '>' and toks[i + 2].text == 'impl':
            return True
    return False


def _short_hdr(it):
    h = it.header
    h = re.sub(r"^impl\s*(<[^>]*>)?\s*", '', h)
    h = re.sub(r"<[^>]*>", '', h)
    h = re.sub(r'\s+', ' ', h).strip()
    if it.kind == 'mod':
        return it.name
    if it.kind == 'trait':
        return it.name
    if ' for ' in h:
        tr, ty = h.split(' for ', 1)
        return f'{ty.strip()} as {tr.strip()}'
    return h


def _drop_attrs(src, it, em, keep_attrs, g):
    for a in it.attrs:
        nm = _attr_name(src, a)
        if nm in keep_attrs:
            continue
        if nm in DROP_ATTR_PREFIXES:
            em.delete_toks(a[0], a[1])
            g.dropped_attrs.append(nm)
        elif nm == 'cfg' or nm == 'cfg_attr' or nm == 'verifier':
            pass
        else:
            em.delete_toks(a[0], a[1])
            g.dropped_attrs.append(nm)


def _emit_item(unit, g, src, it, iid, label, a, fnq, emit, canary, spec):
    piece = Piece()
    em = Emitter(src, it.start, it.end)
    _drop_attrs(src, it, em, spec['keep_attrs'], g)
    # nested attribute dropping (enum variants / struct fields carry serde attrs): drop every #[serde..]/#[derive..] inside
    if it.kind in ('enum', 'struct') and it.body_open is not None:
        _drop_inner_attrs(src, it, em, g)
    rw_applied = []
    rw_hi = it.end
    if it.kind == 'fn' and getattr(a, 'method_table', None) and it.body_open is not None:
        rw_hi = it.body_open     # the body is rewritten as a whole below (token rewrites are applied to it there)
    apply_rewrites_tokens(src, _vis_start(src.toks, it), rw_hi, list(a.rewrites) + list(unit.global_rewrites), em, rw_applied, label)
    if it.kind == 'fn' and fnq is not None:
        if a.arm_rewrites and not a.external_body:
            blo, bhi = it.body_open + 1, src.br[it.body_open]
            for key, rws in a.arm_rewrites.items():
                pat, occ = (key, 0) if isinstance(key, str) else key
                r = rscan.find_arm(src.toks, src.br, blo, bhi, pat, occ)
                if r is None:
                    raise LostAnchor(f'{fnq}: match arm `{pat}` #{occ} not found (arm rewrite)')
                must = [x for x in rws if len(x) == 3]
                alts = [x[:3] for x in rws if len(x) == 4 and x[3] == 'alt']      # (old, new, reason, 'alt'): a group of alternatives, at least one must match
                opts = [x[:3] for x in rws if len(x) == 4 and x[3] == 'opt']      # (old, new, reason, 'opt'): applied where present (a std operator without a Verus
                #                                                                     spec: if the code no longer uses it there is nothing to rewrite; if it does and the
                #                                                                     rewrite is missing, Verus rejects the file -> undecided, never a silent pass)
                apply_rewrites_tokens(src, r[2], r[3], opts, em, rw_applied, label + f' arm `{pat}`')
                n0 = len(rw_applied)
                apply_rewrites_tokens(src, r[2], r[3], must, em, rw_applied, label + f' arm `{pat}`')
                if len(rw_applied) - n0 != len(must):
                    raise LostAnchor(f'{fnq}: arm `{pat}`: a declared rewrite did not match')
                if alts:
                    n1 = len(rw_applied)
                    apply_rewrites_tokens(src, r[2], r[3], alts, em, rw_applied, label + f' arm `{pat}`')
                    if len(rw_applied) == n1:
                        raise LostAnchor(f'{fnq}: arm `{pat}`: none of the alternative rewrites matched')
        if a.method_table and not a.external_body:
            from . import mcall
            blo, bhi = it.body_open + 1, src.br[it.body_open]
            if bhi > blo:
                old_body = src.text_of(blo, bhi)
                pre_counts = []
                for (old, new, reason) in list(a.rewrites) + list(unit.global_rewrites):
                    old_body, n = _replace_tokens_in_text(old_body, old, new)
                    if n:
                        pre_counts.append((f'`{old}`->`{new}`', n))
                new_body, counts = mcall.rewrite_method_calls(old_body, a.method_table)
                counts = pre_counts + list(counts)
                if counts:
                    em.replace_toks(blo, bhi, new_body)
                    rw_applied.append(dict(item=label, old=None, new=new_body, count=1, positions=[(blo, bhi)],
                                           reason='R2m: std/chrono method calls mechanically rewritten into trampoline calls: ' + ', '.join(f'{m} x{c}' for m, c in counts)))
        if a.closure_drop and not a.external_body:
            blo, bhi = it.body_open + 1, src.br[it.body_open]
            cls_ = rscan.find_closures(src.toks, src.br, blo, bhi)
            for kidx, (new, reason) in a.closure_drop.items():
                if kidx >= len(cls_):
                    raise LostAnchor(f'{fnq}: closure #{kidx} not found (closure drop)')
                c_ = cls_[kidx]
                em.replace_toks(c_['bar1'], c_['body'][1], new)
                rw_applied.append(dict(item=label + f' closure #{kidx}', old=None, new=new, reason='CLOSURE BODY DROPPED: ' + reason, count=1, positions=[(c_['bar1'], c_['body'][1])]))
        if a.mcalls and not a.external_body:
            from . import mcall
            blo, bhi = it.body_open + 1, src.br[it.body_open]
            sites = []
            dropped = []
            for key in a.arm_replace:
                pat, occ = (key, 0) if isinstance(key, str) else key
                r = rscan.find_arm(src.toks, src.br, blo, bhi, pat, occ)
                if r is not None:
                    dropped.append((r[2], r[3]))
            for r_ in rw_applied:      # a call inside a span that a declared rewrite replaces as a whole is gone
                for (pa, pb) in r_.get('positions', []):
                    dropped.append((pa, pb))
            for i in range(blo, bhi - 2):
                t = src.toks
                if any(lo <= i < hi for lo, hi in dropped):
                    continue
                if t[i].kind == 'p' and t[i].text == '.' and t[i + 1].kind == 'id' and t[i + 1].text in a.mcalls and t[i + 2].text == '(':
                    rs_, cl_ = mcall._recv_start(t, src.br, i), src.br[i + 2]
                    if t[i + 1].text == 'into_iter' and t[cl_ + 1].text == '{' and t[rs_ - 1].kind == 'id' and t[rs_ - 1].text == 'in':
                        continue      # `for x in v.into_iter() {`: the iterable of a for loop stays (Verus iterates a Vec natively)
                    if t[i + 1].text == 'into_iter' and t[rs_ - 1].text == '(' and t[rs_ - 2].text == 'extend' and t[cl_ + 1].text == ')':
                        continue      # `x.extend(y.into_iter())`: extend takes any IntoIterator, the real into_iter (under contract) stays
                    sites.append((rs_, i, cl_))
            # several calls of one chain share the receiver start: the outermost call's opening text must come first
            for rs, dot, close in sorted(sites, key=lambda x: (x[0], -x[1])):
                name = src.toks[dot + 1].text
                tramp = a.mcalls[name]
                ref = ''
                if isinstance(tramp, tuple):
                    tramp, ref = tramp[0], ('&mut ' if tramp[1] == 'mut' else '&')
                em.insert_before_tok(rs, f'{tramp}({ref}')
                new_txt = ', ' if close > dot + 3 else ''
                em.replace_toks(dot, dot + 3, new_txt)
                rw_applied.append(dict(item=label, old=f'.{name}(', new=new_txt, count=1, positions=[(dot, dot + 3)],
                                       reason=f'R2m: method call `.{name}(..)` -> trampoline call `{tramp}(recv, ..)` (assumed std behaviour)'))
        if a.arm_replace and not a.external_body:
            blo, bhi = it.body_open + 1, src.br[it.body_open]
            for key, (new, reason) in a.arm_replace.items():
                pat, occ = (key, 0) if isinstance(key, str) else key
                r = rscan.find_arm(src.toks, src.br, blo, bhi, pat, occ)
                if r is None:
                    raise LostAnchor(f'{fnq}: match arm `{pat}` #{occ} not found (arm replace)')
                em.replace_toks(r[2], r[3], new)
                rw_applied.append(dict(item=label + f' arm `{pat}`', old=None, new=new, reason='ARM BODY DROPPED: ' + reason, count=1, positions=[(r[2], r[3])]))
        annotate_fn(unit, src, it, fnq, a, em, canary)
        rw_applied += getattr(em, 'extra_rw', [])
    else:
        for at in a.attrs:
            em.insert_before_tok(_vis_start(src.toks, it), at + ' ')
    unit.rewrites_applied += rw_applied
    em.build(piece)
    text_src = src.text_of(_vis_start(src.toks, it), it.end)
    emit(f'\n//@@BEGIN {iid} {label}\n')
    ef = None
    if it.kind == 'fn' and fnq is not None:
        line = src.text.count('\n', 0, src.toks[it.kw].s) + 1
        ef = ExtractedFn(fnq, src.path, hashlib.sha256(text_src.encode()).hexdigest()[:16], a.props, a.external_body, line)
        g.fns.append(ef)
        emit(('fnbegin', ef))
    for p in piece.parts:
        emit(p)
    if ef:
        emit(('fnend', ef))
    emit(f'\n//@@END {iid}\n')
    g.items.append(dict(id=iid, file=src.path, lo=it.start, hi=it.end, label=label, d2=(it.kind in ('enum', 'struct')), stub=((it.body_open + 1, src.br[it.body_open]) if (it.kind == 'fn' and a.stub) else None),
                        rewrites=[(a_, b_, r['old'], r['new']) for r in rw_applied for (a_, b_) in r['positions']]))


GATED_FEATURES = ('protobuf', 'debug_output')


def _gated_feature(src, a, b):
    """if tokens [a,b) are `#[cfg(feature = "X")]` with X one of the features never passed to Verus -> X"""
    txt = rscan.norm(src.toks[a:b]).replace(' ', '')
    for f in GATED_FEATURES:
        if txt == '#[cfg(feature="%s")]' % f:
            return f
    return None


def _drop_inner_attrs(src, it, em, g):
    """D1 inside enum/struct bodies (serde attributes on variants/fields) and D2: variants/fields gated by a feature
    that the verified configuration does not enable are removed together with their attributes."""
    toks, br = src.toks, src.br
    lo, hi = it.body_open + 1, br[it.body_open]
    i = lo
    while i < hi:
        if toks[i].text == '#' and i + 1 < hi and toks[i + 1].text == '[':
            end = br[i + 1] + 1
            f = _gated_feature(src, i, end)
            if f:
                k = end
                while k < hi:
                    if toks[k].kind == 'p' and toks[k].text in rscan.OPEN:
                        k = br[k] + 1
                        continue
                    if toks[k].kind == 'p' and toks[k].text == ',':
                        k += 1
                        break
                    k += 1
                em.delete_toks(i, k)
                g.dropped_attrs.append(f'D2:{f}-gated element of {it.name}')
                i = k
                continue
            nm = _attr_name(src, (i, end))
            if nm not in ('cfg',):
                em.delete_toks(i, end)
                g.dropped_attrs.append(nm)
            i = end
            continue
        if toks[i].kind == 'p' and toks[i].text in rscan.OPEN:
            i = br[i] + 1
            continue
        i += 1
