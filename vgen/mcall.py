"""Mechanical rewrite of std method calls `recv.method(args)` into trampoline calls `prefix_method(recv, args)`.

Used for one-line wrappers over std / chrono (string and time built-ins): Verus has no specification for these std methods, so the
wrappers are verified against *uninterpreted* trampolines -- which pins down exactly which std function is applied to which argument
in which order (the wiring), not what std computes.  The transformation is purely syntactic and applied innermost-first."""
from . import rscan


def _recv_start(toks, br, dot):
    """index of the first token of the postfix expression ending right before toks[dot] (a '.')"""
    i = dot - 1
    while True:
        t = toks[i]
        if t.kind == 'p' and t.text == '?':      # postfix `?` belongs to the receiver
            i -= 1
            continue
        if t.kind == 'p' and t.text in (')', ']'):
            i = br[i]            # jump to the opening bracket
            # a call: the callee / method name precedes the '('
            if i - 1 >= 0 and toks[i - 1].kind == 'id' and t.text == ')':
                i -= 1
            else:
                # a parenthesised expression / index: continue left only if a postfix chain continues
                if i - 1 >= 0 and (toks[i - 1].kind in ('id',) or toks[i - 1].text in (')', ']')):
                    i -= 1
                    continue
                return i
        elif t.kind in ('id', 'num', 'str', 'chr'):
            pass
        else:
            return i + 1
        # t is an identifier (variable, field, method or path segment): look further left for `.` or `::`
        if i - 1 >= 0 and toks[i - 1].kind == 'p' and toks[i - 1].text == '.':
            i -= 2
            continue
        if i - 2 >= 0 and toks[i - 1].text == ':' and toks[i - 2].text == ':':
            i -= 3
            continue
        # unary prefixes stay outside the receiver (`&x.f()` is `&(x.f())`)
        return i


def rewrite_method_calls(text, table):
    """table: method name -> trampoline name.  Returns (new_text, list of (method, count))."""
    counts = {}
    while True:
        toks = rscan.tokenize(text)
        br = rscan.match_brackets(toks)
        hit = None
        # innermost-first: choose the LAST matching call whose argument list contains no further match
        for i in range(len(toks) - 2):
            if toks[i].kind == 'p' and toks[i].text == '.' and toks[i + 1].kind == 'id' and toks[i + 1].text in table and toks[i + 2].text == '(':
                # skip turbofish-less generic forms only
                close = br[i + 2]
                inner = any(toks[k].text == '.' and toks[k + 1].kind == 'id' and toks[k + 1].text in table and toks[k + 2].text == '('
                            for k in range(i + 3, close - 2))
                rs = _recv_start(toks, br, i)
                inner_recv = any(toks[k].text == '.' and toks[k + 1].kind == 'id' and toks[k + 1].text in table and toks[k + 2].text == '('
                                 for k in range(rs, i - 2)) if i - rs > 2 else False
                if not inner and not inner_recv:
                    hit = (rs, i, close)
                    break
        if hit is None:
            return text, sorted(counts.items())
        rs, dot, close = hit
        name = toks[dot + 1].text
        recv = text[toks[rs].s:toks[dot - 1].e]
        args = text[toks[dot + 2].e:toks[close].s].strip()
        tramp = table[name]
        if isinstance(tramp, tuple):      # (name, 'ref'): the method takes &self and the receiver is used again afterwards
            # (name, 'mut'): the method takes &mut self
            tramp, recv = tramp[0], ('&mut ' if tramp[1] == 'mut' else '&') + recv
        new = f'{tramp}({recv}{", " + args if args else ""})'
        text = text[:toks[rs].s] + new + text[toks[close].e:]
        counts[name] = counts.get(name, 0) + 1
