"""Run Verus on a generated unit and map its diagnostics back to named obligations."""
import json
import os
import re
import subprocess
import time

from . import gen, verbatim

OUT = '/verif/out'

KIND_BY_MSG = [
    (r'possible arithmetic underflow/overflow', 'no-overflow'),
    (r'possible division by zero', 'no-division-by-zero'),
    (r'possible bit shift underflow/overflow', 'no-overflow'),
    (r'precondition not satisfied', 'requires@callee'),
    (r'postcondition not satisfied', 'ensures'),
    (r'unable to prove post-condition of closure', 'closure-ensures'),
    (r'invariant not satisfied before loop', 'invariant-entry'),
    (r'invariant not satisfied at end of loop body', 'invariant-step'),
    (r'assertion failed', 'assert'),
    (r'decreases not satisfied', 'decreases'),
    (r'loop must have a decreases clause', 'decreases'),
    (r'index out of bounds|possible index', 'index-in-bounds'),
    (r'recommendation not met', None),
    (r'unreachable', 'unreachable(panic!)'),
]

GIVEUP = re.compile(r'Resource limit|rlimit|timed out|took too long|canceled', re.I)


class Failure:
    def __init__(self, fn, kind, name, message, line, text, spans, clause=None, giveup=False):
        self.fn, self.kind, self.name, self.message, self.line, self.text, self.spans = fn, kind, name, message, line, text, spans
        self.clause = clause
        self.giveup = giveup

    @property
    def oid(self):
        return f'{self.fn}::{self.kind}' + (f':{self.name}' if self.name else '')

    def as_dict(self):
        return dict(obligation=self.oid, message=self.message, line=self.line, text=self.text)


class UnitResult:
    def __init__(self, unit_name):
        self.unit = unit_name
        self.ok = False
        self.front_end_error = None   # text if Verus/rustc rejected the file (not a verification failure)
        self.failures = []
        self.fn_status = {}           # qual -> dict(success, time_us, rlimit)
        self.verified = self.errors = 0
        self.smt_ms = 0
        self.wall = 0.0
        self.cmd = ''
        self.g = None
        self.path = None
        self.raw_err = ''
        self.giveups = []


def _fn_containing(g, off):
    for f in g.fns:
        if f.s is not None and f.s <= off < f.e:
            return f
    return None


def _clause_containing(g, s, e):
    best = None
    for c in g.clauses:
        if c.s <= s and e <= c.e + 1:
            best = c
    return best


def run_unit(unit, canary=None, extra_args=(), seed=None, tag=''):
    """generate + verbatim-check + verus.  -> UnitResult"""
    res = UnitResult(unit.name)
    t0 = time.time()
    g = gen.generate(unit, canary=canary)
    res.g = g
    os.makedirs(OUT, exist_ok=True)
    path = os.path.join(OUT, f'{unit.name}{"_canary_" + canary if canary else ""}{tag}.rs')
    with open(path, 'w', encoding='utf-8') as f:
        f.write(g.text)
    res.path = path
    res.verbatim_regions = verbatim.check(g.text, g.items, unit.sources)
    cmd = ['verus', path]
    for c in unit.cfg:
        cmd += ['--cfg', f'feature="{c}"']
    cmd += ['--output-json', '--time-expanded', '--multiple-errors', '50', '--error-format=json', '--num-threads', '4']
    if seed is not None:
        cmd += ['--smt-option', f'smt.random_seed={seed}']
    cmd += list(extra_args)
    res.cmd = ' '.join(("'" + c + "'") if ('"' in c or ' ' in c) else c for c in cmd)
    p = subprocess.run(cmd, capture_output=True, text=True, cwd=OUT)
    res.wall = time.time() - t0
    res.raw_err = p.stderr
    try:
        js = json.loads(p.stdout)
    except Exception:
        js = None
    diags = []
    for line in p.stderr.splitlines():
        line = line.strip()
        if line.startswith('{') and '"$message_type"' in line:
            try:
                diags.append(json.loads(line))
            except Exception:
                pass
    if js is None or 'verification-results' not in js or js['verification-results'].get('encountered-vir-error'):
        msgs = [d.get('rendered') or d.get('message') for d in diags if d.get('level') == 'error']
        res.front_end_error = '\n'.join(m for m in msgs if m)[:4000] or (p.stderr[-3000:] or 'verus produced no JSON')
        return res
    vr = js['verification-results']
    res.verified, res.errors = vr.get('verified', 0), vr.get('errors', 0)
    tm = js.get('times-ms', {})
    res.smt_ms = tm.get('smt', {}).get('total', 0)
    crate = os.path.basename(path)[:-3].replace('.', '_').replace('-', '_')
    for mod in tm.get('smt', {}).get('smt-run-module-times', []):
        for fb in mod.get('function-breakdown', []):
            res.fn_status[fb['function']] = dict(success=fb.get('success'), time_us=fb.get('time-micros', 0), rlimit=fb.get('rlimit', 0), mode=fb.get('mode:'))
    # rustc-level errors (type errors etc.) mean the front end rejected the file
    hard = [d for d in diags if d.get('level') == 'error' and d.get('code')]
    if hard and not res.fn_status:
        res.front_end_error = '\n'.join((d.get('rendered') or d['message']) for d in hard)[:4000]
        return res
    for d in diags:
        if d.get('level') != 'error':
            continue
        msg = d.get('message', '')
        if msg.startswith('aborting due to'):
            continue
        kind = None
        known = False
        for pat, k in KIND_BY_MSG:
            if re.search(pat, msg):
                kind, known = k, True
                break
        if known and kind is None:
            continue
        spans = []
        for s0 in d.get('spans', []):
            s_ = s0
            # walk macro expansions (panic!/unreachable!/format! expand into std files) back to the generated file
            while s_ is not None and not s_.get('file_name', '').endswith(os.path.basename(path)):
                s_ = (s_.get('expansion') or {}).get('span')
            if s_ is not None:
                if s_ is not s0:
                    s_ = dict(s_)
                    s_['is_primary'] = s0.get('is_primary')
                    s_['label'] = s0.get('label')
                spans.append(s_)
        giveup = bool(GIVEUP.search(msg))
        if not known and not giveup:
            # unknown error class: treat as front-end problem (unsupported construct etc.)
            if not spans or re.search(r'not supported|does not yet support|unsupported|cannot find|mismatched|expected', msg):
                res.front_end_error = (res.front_end_error or '') + (d.get('rendered') or msg)
                continue
            kind = 'verus-error'
        prim = [s for s in spans if s.get('is_primary')] or spans
        fnobj, clause = None, None
        # the clause (explicit obligation) is any span that falls inside a recorded clause; the function is any span inside an item
        for s in spans:
            c = _clause_containing(g, s['byte_start'], s['byte_end'])
            if c is not None:
                clause = c
                break
        for s in prim + spans:
            f = _fn_containing(g, s['byte_start'])
            if f is not None:
                fnobj = f
                break
        line = prim[0]['line_start'] if prim else 0
        text = (prim[0]['text'][0]['text'].strip() if prim and prim[0].get('text') else '')[:200]
        if clause is not None:
            fn = clause.fn
            if kind in ('ensures', 'closure-ensures', 'invariant-entry', 'invariant-step', 'assert'):
                k2 = clause.kind
                if kind in ('invariant-entry', 'invariant-step'):
                    k2 = clause.kind + '-' + kind.split('-')[1]
                fail = Failure(fn, k2, clause.name, msg, line, clause.text[:200], spans, clause, giveup)
            elif kind == 'requires@callee':
                # precondition of a callee under contract failed at a call site in fnobj
                caller = fnobj.qual if fnobj is not None else '?'
                fail = Failure(caller, f'requires@{clause.fn}', clause.name, msg, line, text, spans, clause, giveup)
            else:
                fail = Failure(fn, kind, clause.name, msg, line, text, spans, clause, giveup)
        else:
            fn = fnobj.qual if fnobj is not None else '<prelude>'
            name = None
            if kind == 'requires@callee':
                # callee is a prelude/std function: name it by the call-site text
                m = re.search(r'([A-Za-z_][A-Za-z0-9_:]*)\s*\(', text)
                name = None
                kind = 'requires@std'
                # find the non-primary span label with the failed precondition if any
                for s in d.get('spans', []):
                    if s.get('label') and 'failed precondition' in s['label'] and s.get('text'):
                        name = re.sub(r'\s+', ' ', s['text'][0]['text'].strip())[:80]
                if name is None:
                    name = re.sub(r'\s+', ' ', text)[:80]
            elif kind in ('no-overflow', 'no-division-by-zero', 'index-in-bounds'):
                name = re.sub(r'\s+', ' ', _span_text(prim[0]) if prim else text)[:60]
            fail = Failure(fn, kind, name, msg, line, text, spans, None, giveup)
        if giveup:
            res.giveups.append(fail)
        else:
            res.failures.append(fail)
    res.ok = (p.returncode == 0 and not res.failures and not res.front_end_error)
    if p.returncode != 0 and not res.failures and not res.front_end_error and not res.giveups:
        res.front_end_error = 'verus exited %d without a mapped diagnostic:\n%s' % (p.returncode, p.stderr[-2000:])
    return res


def _span_text(s):
    try:
        t = s['text'][0]
        return t['text'][t['highlight_start'] - 1:t['highlight_end'] - 1]
    except Exception:
        return ''
