"""Independent verbatim check (DESIGN 3.2 step 4).

Input: the generated text, and for every //@@BEGIN id .. //@@END id region the source file + token range it claims
to be a copy of, plus the declared drops (attribute names) and rewrites (token substitutions).
The region with every /*@+*/ ... /*@-*/ span removed must tokenize to exactly the source token stream
(attributes of the D1 kind removed, declared rewrites applied).  Written separately from gen.py on purpose:
it never looks at how the text was produced.
"""
import re

from . import rscan

REGION = re.compile(r'^//@@BEGIN (\S+)[^\n]*\n(.*?)^//@@END \1[ \t]*$', re.S | re.M)

KEEP_ATTRS = {'cfg', 'cfg_attr', 'verifier'}
GATED = {'#[cfg(feature="protobuf")]', '#[cfg(feature="debug_output")]'}


class VerbatimError(Exception):
    pass


def strip_marked(tokens):
    out, depth = [], 0
    for t in tokens:
        if t.kind == 'mark':
            if t.text == '+':
                depth += 1
            else:
                depth -= 1
                if depth < 0:
                    raise VerbatimError('unbalanced annotation markers')
            continue
        if depth == 0:
            out.append(t.text)
    if depth:
        raise VerbatimError('unterminated annotation region')
    return out


def source_tokens(src, lo, hi, rewrites=(), keep_attrs=(), d2=False, stub=None):
    """token texts of src.toks[lo:hi] with D1 attributes removed (at any depth) and the declared rewrites
    (absolute token positions, old text, new text) applied; the old text must be what the source has there."""
    toks, br = src.toks, src.br
    rw = {a: (b, old, new) for (a, b, old, new) in rewrites}
    out = []
    i = lo
    while i < hi:
        t = toks[i]
        if stub and i == stub[0]:
            i = stub[1]          # body dropped (declared: the fn is a contract-only stub in this unit)
            continue
        if i in rw:
            b, old, new = rw[i]
            if old is not None and [x.text for x in toks[i:b]] != [x.text for x in rscan.tokenize(old)]:
                raise VerbatimError(f'declared rewrite `{old}` does not match the source at token {i}')
            out += [x.text for x in rscan.tokenize(new)]
            i = b
            continue
        if t.kind == 'p' and t.text == '#' and i + 1 < hi and toks[i + 1].text == '[':
            end = br[i + 1] + 1
            if d2 and ''.join(x.text for x in toks[i:end]) in GATED:
                # D2: an enum variant / struct field gated by a feature outside the verified configuration: skip to the next `,`
                k = end
                while k < hi and not (toks[k].kind == 'p' and toks[k].text == ','):
                    k = br[k] + 1 if (toks[k].kind == 'p' and toks[k].text in rscan.OPEN) else k + 1
                i = k + 1
                continue
            name = next((x.text for x in toks[i:end] if x.kind == 'id'), '')
            if name in KEEP_ATTRS or name in keep_attrs or not (d2 or _leading(out)):
                out += [x.text for x in toks[i:end]]
            i = end
            continue
        out.append(t.text)
        i += 1
    return out


def _leading(out):
    """True while only (kept) attributes have been emitted so far: D1 applies to the item's own attributes, and to the inner
    attributes of enums / structs (d2); attributes inside fn / macro bodies are copied verbatim"""
    depth = 0
    i = 0
    n = len(out)
    while i < n:
        if out[i] == '#' and i + 1 < n and out[i + 1] == '[':
            depth = 0
            j = i + 1
            while j < n:
                if out[j] == '[':
                    depth += 1
                elif out[j] == ']':
                    depth -= 1
                    if depth == 0:
                        break
                j += 1
            i = j + 1
            continue
        return False
    return True


def _is_attr_only(out):
    return [True]


def check(generated_text, items, sources):
    """items: list of dict(id,file,lo,hi,rewrites); sources: rel path -> rscan.Source.  Raises VerbatimError."""
    regions = {m.group(1): m.group(2) for m in REGION.finditer(generated_text)}
    n = 0
    for it in items:
        if it['id'] not in regions:
            raise VerbatimError(f"region {it['id']} missing from generated file")
        got = strip_marked(rscan.tokenize(regions[it['id']], keep_markers=True))
        want = source_tokens(sources[it['file']], it['lo'], it['hi'], it['rewrites'], d2=it.get('d2', False), stub=it.get('stub'))
        if got != want:
            # find first difference
            k = 0
            while k < min(len(got), len(want)) and got[k] == want[k]:
                k += 1
            raise VerbatimError(f"{it['id']} ({it['label']}): generated text differs from source at token {k}: "
                                f"got {got[k:k+8]} want {want[k:k+8]}")
        n += 1
    extra = set(regions) - {it['id'] for it in items}
    if extra:
        raise VerbatimError(f'unexpected regions {sorted(extra)}')
    return n
