"""dev helper: python3 -m vgen.build <unit> [--canary entry|loops] [--no-run]"""
import sys, os, importlib, subprocess, json, time
from . import gen, verbatim

def load_unit(name):
    m = importlib.import_module(f'contracts.{name}')
    importlib.reload(m)
    return m.build()

def main():
    name = sys.argv[1]
    canary = None
    if '--canary' in sys.argv:
        canary = sys.argv[sys.argv.index('--canary') + 1]
    u = load_unit(name)
    g = gen.generate(u, canary=canary)
    os.makedirs('/verif/out', exist_ok=True)
    p = f'/verif/out/{name}{"."+canary if canary else ""}.rs'
    open(p, 'w').write(g.text)
    n = verbatim.check(g.text, g.items, u.sources)
    print(f'generated {p}: {len(g.fns)} fns, {len(g.clauses)} clauses, {n} regions verbatim-checked')
    if '--no-run' in sys.argv:
        return
    cmd = ['verus', p] + sum([['--cfg', f'feature="{c}"'] for c in u.cfg], []) + ['--multiple-errors', '50'] + [a for a in sys.argv[2:] if a.startswith('--V') or a.startswith('--rlimit') or a == '--expand-errors' or a.startswith('--verify-function') or a=='--verify-root']
    t = time.time()
    r = subprocess.run(cmd, capture_output=True, text=True)
    print(r.stdout[-3000:])
    print(r.stderr[-int(os.environ.get('TAIL', '6000')):])
    print('exit', r.returncode, 'secs', round(time.time() - t, 1))

if __name__ == '__main__':
    main()
