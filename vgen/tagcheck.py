"""Bookkeeping check of contracts/registry.py against the property tags in the units (no verifier involved):
every function, clause or lemma tagged with a claimed property must be held by at least one unit of that property's unit list,
otherwise a failing obligation of it would never be looked at by the property's check.  (The same helper or the same run_raw
postcondition is often verified in several units; one of them in the list is enough.)
usage: python3 -m vgen.tagcheck        exit 0 = consistent, 1 = something tagged is in no listed unit"""
import importlib
import sys
import concurrent.futures as cf
from . import driver, gen


def items_of(name):
    """property -> set of tagged items (function, clause) of this unit"""
    mod = importlib.import_module(f'contracts.{name}')
    u = mod.build()
    g = gen.generate(u)
    tags = {}
    for ef in g.fns:
        if ef.external_body:
            continue
        vm = name.startswith('interp_vm_g') and ef.qual == 'Interpreter::run_raw'
        if not vm:
            # the eight VM units verify the same run_raw (same property list) with a different subset of its arms each: there
            # only the clauses count, not the function
            for q in ef.props:
                tags.setdefault(q, set()).add((ef.qual, '*'))
        for c in ef.clauses:
            if c.kind == 'canary':
                continue
            for q in (getattr(c, 'props', None) or ()):
                tags.setdefault(q, set()).add((ef.qual, f'{c.kind}:{c.name}'))
    for (lname, lprops) in getattr(u, 'lemmas', []):
        for q in lprops:
            tags.setdefault(q, set()).add(('lemma ' + lname, '*'))
    return tags


def main():
    reg = driver.load_registry()
    with cf.ThreadPoolExecutor(max_workers=8) as ex:
        res = dict(zip(reg.ALL_UNITS, ex.map(items_of, reg.ALL_UNITS)))
    bad = 0
    for q, spec in sorted(reg.PROPS.items()):
        if spec.get('safety_only'):
            continue
        covered = set()
        for un in spec['units']:
            covered |= res.get(un, {}).get(q, set())
        for un, tags in res.items():
            miss = sorted(tags.get(q, set()) - covered)
            if miss:
                bad += 1
                print(f'MISSING property={q} unit={un}: ' + ', '.join(f'{a}::{b}' for a, b in miss[:8]))
    print(f'tagcheck: {len(res)} units, {len(reg.PROPS)} properties, {bad} missing')
    return 1 if bad else 0


if __name__ == '__main__':
    sys.exit(main())
