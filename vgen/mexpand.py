"""Mechanical expansion of a single-arm `macro_rules!` whose parameters are plain `$name:ident` fragments (R6).

rscel defines five string built-ins (toLower, toUpper, trim, trimStart, trimEnd) through

    macro_rules! string_func { ($cel_func_name: ident, $func_name:ident, $str_func:ident) => { pub fn $func_name(..) {..} }; }
    string_func!(toLower, to_lower_impl, to_lowercase);

A function that only exists after macro expansion has no source text to annotate, so the extractor expands it the way rustc does for
this shape: every `$param` TOKEN of the arm's body is replaced by the identifier given at the invocation; string literals are single
tokens and are left alone (rustc does not substitute inside them either).  Nothing else is touched: the expansion is the body text
with those tokens replaced, byte for byte otherwise.  The result is handed to the ordinary extractor as a virtual source file, so the
verbatim check compares the verified text against *this expansion of the current /repo text*, re-done on every run.

Anything outside the supported shape (several arms, non-ident fragments, repetitions) raises Unsupported -> the unit is undecided.
"""
from . import rscan


class Unsupported(Exception):
    pass


def _find_macro(src, name):
    toks, br = src.toks, src.br
    for i, t in enumerate(toks):
        if t.kind == 'id' and t.text == 'macro_rules' and toks[i + 1].text == '!' and toks[i + 2].text == name and toks[i + 3].text == '{':
            return i + 3, br[i + 3]
    raise Unsupported(f'macro_rules! {name} not found')


def expand(text, name, path='<mem>'):
    """-> list of (invocation arguments, expanded text) in invocation order"""
    src = rscan.Source(text, path)
    toks, br = src.toks, src.br
    lo, hi = _find_macro(src, name)
    # one arm: ( params ) => { body } [;]
    i = lo + 1
    if toks[i].text != '(':
        raise Unsupported('arm does not start with (')
    pe = br[i]
    params = []
    j = i + 1
    while j < pe:
        if toks[j].text != '$' or toks[j + 1].kind != 'id' or toks[j + 2].text != ':' or toks[j + 3].text != 'ident':
            raise Unsupported('parameter is not `$name:ident`')
        params.append(toks[j + 1].text)
        j += 4
        if j < pe:
            if toks[j].text != ',':
                raise Unsupported('parameters not comma separated')
            j += 1
    j = pe + 1
    if toks[j].text != '=' or toks[j + 1].text != '>' or toks[j + 2].text != '{':
        raise Unsupported('arm is not `(..) => {..}`')
    bs, be = j + 2, br[j + 2]
    k = be + 1
    if k < hi and toks[k].text == ';':
        k += 1
    if k != hi:
        raise Unsupported('more than one arm')
    body_lo, body_hi = toks[bs].e, toks[be].s
    # substitution points inside the body
    subs = []
    j = bs + 1
    while j < be:
        if toks[j].text == '$':
            if toks[j + 1].kind != 'id' or toks[j + 1].text not in params:
                raise Unsupported('`$` not followed by a parameter (repetition / unknown fragment)')
            subs.append((toks[j].s, toks[j + 1].e, toks[j + 1].text))
            j += 2
        else:
            j += 1
    out = []
    # invocations: name ! ( a, b, c ) ;   at any nesting level outside the definition
    for i, t in enumerate(toks):
        if t.kind == 'id' and t.text == name and i + 2 < len(toks) and toks[i + 1].text == '!' and toks[i + 2].text == '(' and not (lo <= i <= hi) and toks[i - 1].text != '!':
            if i >= 2 and toks[i - 1].text == '!' and toks[i - 2].text == 'macro_rules':
                continue
            ae = br[i + 2]
            args = []
            j = i + 3
            while j < ae:
                if toks[j].kind != 'id':
                    raise Unsupported('invocation argument is not an identifier')
                args.append(toks[j].text)
                j += 1
                if j < ae:
                    if toks[j].text != ',':
                        raise Unsupported('invocation arguments not comma separated')
                    j += 1
            if len(args) != len(params):
                raise Unsupported('invocation arity differs from the definition')
            m = dict(zip(params, args))
            piece, pos = [], body_lo
            for (s, e, p) in subs:
                piece.append(text[pos:s])
                piece.append(m[p])
                pos = e
            piece.append(text[pos:body_hi])
            out.append((args, ''.join(piece)))
    if not out:
        raise Unsupported(f'no invocation of {name}!')
    return out


def virtual_file(text, name, path='<mem>'):
    """the expansions, one after the other, as the text of a virtual source file"""
    parts = [f'// virtual file: `{name}!` of {path} expanded by vgen.mexpand (R6)\n']
    for args, body in expand(text, name, path):
        parts.append(f'// {name}!({", ".join(args)});\n' + body.strip('\n') + '\n')
    return '\n'.join(parts)


if __name__ == '__main__':
    import sys
    print(virtual_file(open(sys.argv[1]).read(), sys.argv[2], sys.argv[1]))
