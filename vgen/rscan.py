"""Minimal Rust-aware scanner: tokens, bracket matching, item / fn / loop / closure / arm location.

It is not a parser.  It knows exactly enough of Rust's lexical structure to
  * skip comments, strings, raw strings, byte strings, char literals (vs. lifetimes),
  * match (), [], {} pairs,
  * find items at a given nesting level by a structural selector,
  * find, inside a fn body, the k-th loop, the k-th closure, a match arm by its pattern text.
Everything is offset based so that text can be copied byte for byte.
"""
import re

IDENT_START = re.compile(r'[A-Za-z_]')
IDENT_RE = re.compile(r'[A-Za-z_][A-Za-z0-9_]*')
NUM_RE = re.compile(r'[0-9][0-9A-Za-z_]*(\.[0-9][0-9A-Za-z_]*)?([eE][+-]?[0-9_]+)?[A-Za-z0-9_]*')

MARK_OPEN = '/*@+*/'
MARK_CLOSE = '/*@-*/'


class Tok:
    __slots__ = ('kind', 'text', 's', 'e')

    def __init__(self, kind, text, s, e):
        self.kind, self.text, self.s, self.e = kind, text, s, e

    def __repr__(self):
        return f'{self.kind}:{self.text!r}@{self.s}'


class ScanError(Exception):
    pass


def tokenize(src, keep_markers=False, keep_doc=False):
    """-> list[Tok]; comments/whitespace dropped.  kinds: id, lt (lifetime), num, str, chr, p (punct, one char), mark."""
    toks = []
    i, n = 0, len(src)
    while i < n:
        c = src[i]
        if c.isspace():
            i += 1
            continue
        if src.startswith('//', i):
            j = src.find('\n', i)
            j = n if j < 0 else j
            i = j
            continue
        if src.startswith('/*', i):
            if src.startswith(MARK_OPEN, i):
                if keep_markers:
                    toks.append(Tok('mark', '+', i, i + len(MARK_OPEN)))
                i += len(MARK_OPEN)
                continue
            if src.startswith(MARK_CLOSE, i):
                if keep_markers:
                    toks.append(Tok('mark', '-', i, i + len(MARK_CLOSE)))
                i += len(MARK_CLOSE)
                continue
            depth, j = 1, i + 2
            while j < n and depth:
                if src.startswith('/*', j):
                    depth += 1
                    j += 2
                elif src.startswith('*/', j):
                    depth -= 1
                    j += 2
                else:
                    j += 1
            i = j
            continue
        # raw strings / byte strings / c strings
        m = re.match(r'(b|c)?r(#*)"', src[i:i + 40])
        if m and (i == 0 or not (src[i - 1].isalnum() or src[i - 1] == '_')):
            hashes = m.group(2)
            end = src.find('"' + hashes, i + m.end())
            if end < 0:
                raise ScanError('unterminated raw string')
            j = end + 1 + len(hashes)
            toks.append(Tok('str', src[i:j], i, j))
            i = j
            continue
        if c == '"' or (c in 'bc' and i + 1 < n and src[i + 1] == '"' and (i == 0 or not (src[i - 1].isalnum() or src[i - 1] == '_'))):
            j = i + (1 if c == '"' else 2)
            while j < n and src[j] != '"':
                j += 2 if src[j] == '\\' else 1
            j += 1
            toks.append(Tok('str', src[i:j], i, j))
            i = j
            continue
        if c == "'" or (c == 'b' and i + 1 < n and src[i + 1] == "'"):
            st = i
            k = i + (1 if c == "'" else 2)
            if k < n and src[k] == '\\':
                j = k + 2
                while j < n and src[j] != "'":
                    j += 1
                j += 1
                toks.append(Tok('chr', src[st:j], st, j))
                i = j
                continue
            if k + 1 < n and src[k + 1] == "'":
                j = k + 2
                toks.append(Tok('chr', src[st:j], st, j))
                i = j
                continue
            # multi-byte char literal like 'é' is a single python char, handled above; otherwise lifetime
            m = IDENT_RE.match(src, k)
            if c == "'" and m:
                toks.append(Tok('lt', src[st:m.end()], st, m.end()))
                i = m.end()
                continue
            raise ScanError(f'cannot lex quote at {i}')
        if IDENT_START.match(c):
            m = IDENT_RE.match(src, i)
            # raw identifiers r#x
            toks.append(Tok('id', m.group(0), i, m.end()))
            i = m.end()
            continue
        if c.isdigit():
            m = NUM_RE.match(src, i)
            text = m.group(0)
            # do not swallow `..` of ranges: "0..5" -> NUM_RE takes "0" then ".5"? guard
            if '.' in text and src.startswith('..', i + text.index('.')):
                text = text[:text.index('.')]
            # method call on integer literal: 1.max(2)
            elif '.' in text and IDENT_START.match(text[text.index('.') + 1:text.index('.') + 2] or '0') :
                text = text[:text.index('.')]
            toks.append(Tok('num', text, i, i + len(text)))
            i += len(text)
            continue
        toks.append(Tok('p', c, i, i + 1))
        i += 1
    return toks


OPEN = {'(': ')', '[': ']', '{': '}'}
CLOSE = {v: k for k, v in OPEN.items()}


def match_brackets(toks):
    """-> dict open_index -> close_index and close->open."""
    stack, m = [], {}
    for i, t in enumerate(toks):
        if t.kind != 'p':
            continue
        if t.text in OPEN:
            stack.append(i)
        elif t.text in CLOSE:
            if not stack or toks[stack[-1]].text != CLOSE[t.text]:
                raise ScanError(f'unbalanced bracket {t.text} at {t.s}')
            o = stack.pop()
            m[o] = i
            m[i] = o
    if stack:
        raise ScanError('unclosed bracket at %d' % toks[stack[-1]].s)
    return m


def norm(toks):
    return ' '.join(t.text for t in toks)


def norm_text(s):
    return norm(tokenize(s))


ITEM_KW = {'fn', 'struct', 'enum', 'impl', 'trait', 'mod', 'type', 'const', 'static', 'use', 'macro_rules', 'union', 'extern'}
FN_QUAL = {'pub', 'const', 'async', 'unsafe', 'extern', 'default'}


class Item:
    """One item inside a token range.  start..end are token indices (end exclusive), including attributes."""

    def __init__(self, kind, name, header, start, kw, body_open, end, attrs):
        self.kind, self.name, self.header = kind, name, header
        self.start, self.kw, self.body_open, self.end = start, kw, body_open, end
        self.attrs = attrs  # list of (tok_start, tok_end) for each #[...] attribute

    def __repr__(self):
        return f'<Item {self.kind} {self.name!r} {self.header!r}>'


class Source:
    def __init__(self, text, path='<mem>'):
        self.text, self.path = text, path
        self.toks = tokenize(text)
        self.br = match_brackets(self.toks)

    # ---- item enumeration -------------------------------------------------------------
    def items(self, lo=0, hi=None):
        """Items directly inside token range [lo, hi)."""
        toks, br = self.toks, self.br
        hi = len(toks) if hi is None else hi
        out = []
        i = lo
        while i < hi:
            start = i
            attrs = []
            # attributes
            while i < hi and toks[i].text == '#':
                j = i + 1
                if j < hi and toks[j].text == '!':
                    j += 1
                if j < hi and toks[j].text == '[':
                    attrs.append((i, br[j] + 1))
                    i = br[j] + 1
                else:
                    break
            # visibility / qualifiers
            j = i
            while j < hi:
                t = toks[j]
                if t.kind == 'id' and t.text == 'pub':
                    j += 1
                    if j < hi and toks[j].text == '(':
                        j = br[j] + 1
                    continue
                if t.kind == 'id' and t.text in ('async', 'unsafe', 'default') :
                    j += 1
                    continue
                if t.kind == 'id' and t.text == 'const' and j + 1 < hi and toks[j + 1].text in ('fn', 'unsafe', 'async'):
                    j += 1
                    continue
                if t.kind == 'id' and t.text == 'extern' and j + 1 < hi and toks[j + 1].kind == 'str':
                    j += 2
                    continue
                break
            if j >= hi:
                break
            t = toks[j]
            if t.kind != 'id' or t.text not in ITEM_KW:
                # stray token (e.g. macro invocation at item level `foo!{..}` or `;`) -> skip to its end
                k = j
                while k < hi and toks[k].text not in (';', '{'):
                    if toks[k].text in OPEN:
                        k = br[k]
                    k += 1
                if k < hi and toks[k].text == '{':
                    k = br[k]
                out.append(Item('other', '', norm(toks[j:k + 1])[:60], start, j, None, min(k + 1, hi), attrs))
                i = k + 1
                continue
            kw = t.text
            # find end of item: first `;` or `{` at depth 0 (skipping (..) [..] <..> is not needed: braces can't occur in headers
            # except inside const generics/blocks in array lens, which this code base does not have)
            k = j + 1
            body_open = None
            while k < hi:
                tt = toks[k].text
                if toks[k].kind == 'p' and tt in ('(', '['):
                    k = br[k] + 1
                    continue
                if toks[k].kind == 'p' and tt == '{':
                    body_open = k
                    break
                if toks[k].kind == 'p' and tt == ';':
                    break
                k += 1
            if body_open is not None:
                end = br[body_open] + 1
                # `struct X {..}` has no trailing ;  but `macro_rules! x { }` fine too
            else:
                end = k + 1
            header_toks = toks[j:(body_open if body_open is not None else k)]
            name = ''
            if kw == 'macro_rules':
                # macro_rules ! name
                name = toks[j + 2].text if j + 2 < hi else ''
            elif kw == 'impl':
                name = norm(header_toks)
            else:
                name = toks[j + 1].text if j + 1 < hi else ''
            out.append(Item(kw, name, norm(header_toks), start, j, body_open, end, attrs))
            i = end
        return out

    def find(self, selector, lo=0, hi=None):
        """selector: 'enum CelValue' | 'impl Add for CelValue' | 'fn foo' | 'mod x' | 'macro_rules compile' ...
        For impl the whole normalized header (from `impl`) must match after whitespace normalisation."""
        sel = norm_text(selector)
        kw = sel.split(' ', 1)[0]
        cands = []
        for it in self.items(lo, hi):
            if it.kind != kw:
                continue
            if kw == 'impl':
                if it.header == sel:
                    cands.append(it)
            else:
                want = sel.split(' ')[1] if kw != 'macro_rules' else sel.split(' ')[-1]
                if it.name == want:
                    cands.append(it)
        return cands

    def body_range(self, it):
        return it.body_open + 1, self.br[it.body_open]

    def text_of(self, a, b):
        """source text of token range [a,b)."""
        if a >= b:
            return ''
        return self.text[self.toks[a].s:self.toks[b - 1].e]


# ---- in-body structure finders (work on any token list + bracket map, offsets are token indices) ----

LOOP_KW = ('for', 'while', 'loop')


def find_loops(toks, br, lo, hi):
    """-> list of (kw_index, body_open_index) for each loop in document order."""
    out = []
    i = lo
    while i < hi:
        t = toks[i]
        if t.kind == 'id' and t.text in LOOP_KW:
            # `for<'a>` in types: next token is '<'
            if t.text == 'for' and i + 1 < hi and toks[i + 1].text == '<':
                i += 1
                continue
            # `impl X for Y` does not occur inside fn bodies we handle
            k = i + 1
            while k < hi and not (toks[k].kind == 'p' and toks[k].text == '{'):
                if toks[k].kind == 'p' and toks[k].text in ('(', '['):
                    k = br[k]
                k += 1
            # struct-literal braces inside loop headers are not valid Rust without parens, so first `{` is the body
            if k < hi:
                out.append((i, k))
        i += 1
    return out


CLOSURE_PREV = {'(', ',', '=', '{', ';', '>', '[', '!'}
CLOSURE_PREV_KW = {'move', 'return', 'else', 'in'}


def find_closures(toks, br, lo, hi):
    """-> list of dicts {bar1, bar2, params:[(start,end)], body:(start,end), block:bool}"""
    out = []
    i = lo
    while i < hi:
        t = toks[i]
        if t.kind == 'p' and t.text == '|':
            prev = toks[i - 1] if i > lo else None
            is_start = prev is None or (prev.kind == 'p' and prev.text in CLOSURE_PREV) or (prev.kind == 'id' and prev.text in CLOSURE_PREV_KW)
            if prev is not None and prev.kind == 'p' and prev.text == '>' and not (i >= 2 and toks[i - 2].text in ('=', '-')):
                is_start = False  # generic `>` not `=>`/`->`
            if prev is not None and prev.kind == 'p' and prev.text == '|' and prev.e == t.s:
                is_start = False
            if is_start:
                # params until next '|' at depth 0
                if i + 1 < hi and toks[i + 1].text == '|' and toks[i + 1].s == t.e:
                    bar2 = i + 1
                else:
                    k = i + 1
                    while k < hi and not (toks[k].kind == 'p' and toks[k].text == '|'):
                        if toks[k].kind == 'p' and toks[k].text in OPEN:
                            k = br[k]
                        k += 1
                    bar2 = k
                # params split
                params = []
                ps = i + 1
                k = i + 1
                while k <= bar2:
                    if k == bar2 or (toks[k].kind == 'p' and toks[k].text == ',' ):
                        if k > ps:
                            params.append((ps, k))
                        ps = k + 1
                    elif toks[k].kind == 'p' and toks[k].text in OPEN:
                        k = br[k]
                    k += 1
                b = bar2 + 1
                # optional -> Type
                if b + 1 < hi and toks[b].text == '-' and toks[b + 1].text == '>':
                    k = b + 2
                    while k < hi and toks[k].text != '{':
                        k += 1
                    b = k
                if b < hi and toks[b].kind == 'p' and toks[b].text == '{':
                    body = (b, br[b] + 1)
                    block = True
                else:
                    k = b
                    while k < hi:
                        tt = toks[k]
                        if tt.kind == 'p' and tt.text in OPEN:
                            k = br[k] + 1
                            continue
                        if tt.kind == 'p' and (tt.text in CLOSE or tt.text in (',', ';')):
                            break
                        k += 1
                    body = (b, k)
                    block = False
                out.append(dict(bar1=i, bar2=bar2, params=params, body=body, block=block))
                i = bar2 + 1
                continue
        i += 1
    return out


def find_arm(toks, br, lo, hi, pattern, occurrence=0):
    """Find a match arm `pattern =>` (pattern given as text; compared on normalized tokens).
    -> (pat_start, arrow_index(of '='), body_start, body_end, is_block)"""
    pt = [t.text for t in tokenize(pattern)]
    n = len(pt)
    r = _find_arm_exact(toks, br, lo, hi, pt, n, occurrence)
    if r is not None:
        return r
    # the pattern may be ONE ALTERNATIVE of an or-pattern (`'x' | 'X' =>`): match it as a `|`-separated component of the arm's pattern
    found = 0
    i = lo
    while i + n < hi:
        if [t.text for t in toks[i:i + n]] == pt:
            prev = toks[i - 1].text if i > 0 else '{'
            nxt = toks[i + n].text
            if prev in ('{', ',', '}', ']', '|') and nxt in ('|', '='):
                # walk to the arrow of this arm
                k = i + n
                ok = True
                while k + 1 < hi and not (toks[k].text == '=' and toks[k + 1].text == '>' and toks[k + 1].s == toks[k].e):
                    if toks[k].kind == 'p' and toks[k].text in OPEN:
                        k = br[k]
                    elif toks[k].kind == 'p' and toks[k].text in (',', ';', '{', '}'):
                        ok = False
                        break
                    k += 1
                # and back to the start of the arm's pattern
                j = i
                while ok and toks[j - 1].text == '|':
                    j -= 2
                    while j > lo and toks[j - 1].text not in ('{', ',', '}', ']', '|'):
                        j -= 1
                if ok and k + 1 < hi and (prev == '|' or nxt == '|'):
                    if found == occurrence:
                        b = k + 2
                        if toks[b].kind == 'p' and toks[b].text == '{':
                            return (j, k, b, br[b] + 1, True)
                        e = b
                        while e < hi:
                            tt = toks[e]
                            if tt.kind == 'p' and tt.text in OPEN:
                                e = br[e] + 1
                                continue
                            if tt.kind == 'p' and (tt.text == ',' or tt.text in CLOSE):
                                break
                            e += 1
                        return (j, k, b, e, False)
                    found += 1
        i += 1
    return None


def _find_arm_exact(toks, br, lo, hi, pt, n, occurrence):
    found = 0
    i = lo
    while i + n + 1 < hi:
        if [t.text for t in toks[i:i + n]] == pt and toks[i + n].text == '=' and toks[i + n + 1].text == '>' and toks[i + n + 1].s == toks[i + n].e:
            # pattern must start an arm: previous token is `{`, `,` or `}` or an attribute's `]`
            prev = toks[i - 1].text if i > 0 else '{'
            if prev in ('{', ',', '}', ']', '|'):
                if found == occurrence:
                    b = i + n + 2
                    if toks[b].kind == 'p' and toks[b].text == '{':
                        return (i, i + n, b, br[b] + 1, True)
                    k = b
                    while k < hi:
                        tt = toks[k]
                        if tt.kind == 'p' and tt.text in OPEN:
                            k = br[k] + 1
                            continue
                        if tt.kind == 'p' and (tt.text == ',' or tt.text in CLOSE):
                            break
                        k += 1
                    return (i, i + n, b, k, False)
                found += 1
        i += 1
    return None


def find_seq(toks, lo, hi, text, occurrence=0):
    """find a token sequence given as text -> (start, end) token indices or None"""
    pt = [t.text for t in tokenize(text)]
    n = len(pt)
    found = 0
    for i in range(lo, hi - n + 1):
        if [t.text for t in toks[i:i + n]] == pt:
            if found == occurrence:
                return (i, i + n)
            found += 1
    return None
