"""dev helper: python3 -m vgen.show <unit> [canary]  -- list failing obligations"""
import sys, importlib
from . import verus
def main():
    name = sys.argv[1]
    canary = sys.argv[2] if len(sys.argv) > 2 else None
    m = importlib.import_module(f'contracts.{name}')
    r = verus.run_unit(m.build(), canary=canary)
    print('verified', r.verified, 'errors', r.errors, 'wall', round(r.wall,1), 'smt_ms', r.smt_ms)
    if r.front_end_error:
        print('FRONT-END ERROR:\n', r.front_end_error[:3000])
    for f in r.failures:
        print('FAIL', f.oid, '| line', f.line, '|', f.text[:110])
    for f in r.giveups:
        print('GIVEUP', f.oid, f.message[:100])
    bad = [k for k, v in r.fn_status.items() if not v['success']]
    print('failed fns:', bad)
main()
