"""Run Kani harnesses on a scratch copy of /repo with harness modules appended (cfg(kani) child modules)."""
import os
import re
import shutil
import subprocess
import time

WORK = '/tmp/rscel-verif-work'
TARGET = '/verif/.cache/kani-target'
KDIR = '/verif/kani'


class H:
    def __init__(self, name):
        self.name = name
        self.status = 'NOT-RUN'
        self.checks = 0
        self.failed = 0
        self.failed_descriptions = []
        self.seconds = 0.0
        self.cex = None
        self.cmd = ''
        self.note = ''
        self.output_tail = ''


class KResult:
    def __init__(self):
        self.harnesses = []
        self.build_error = None
        self.assumptions = []


def _scratch(reg, names):
    d = os.path.join(WORK, f'k{os.getpid()}')
    shutil.rmtree(d, ignore_errors=True)
    os.makedirs(d)
    subprocess.run(['rsync', '-a', '--exclude', 'target', '--exclude', '.git', '/repo/', d + '/repo/'], check=True)
    files = {}
    for n in names:
        meta = reg.KANI[n]
        files.setdefault(meta['inject'], set()).add(meta['module'])
    for target, mods in files.items():
        with open(os.path.join(d, 'repo', target), 'a') as out:
            for m in sorted(mods):
                out.write('\n')
                out.write(open(os.path.join(KDIR, m)).read())
    return d


def _fq(reg, n):
    return reg.KANI[n]['fq']


def _env():
    e = dict(os.environ)
    e['CARGO_NET_OFFLINE'] = 'true'
    e['CARGO_TARGET_DIR'] = TARGET
    return e


def run_harnesses(names, reg, timeout=1500, jobs=12, want_cex=True):
    res = KResult()
    names = list(dict.fromkeys(names))
    d = _scratch(reg, names)
    try:
        cwd = os.path.join(d, 'repo', 'rscel')
        cmd = ['cargo', 'kani']
        for n in names:
            cmd += ['--harness', _fq(reg, n)]
        cmd += ['--exact', '-j', str(min(jobs, max(1, len(names)))), '--output-format=terse']
        extra = sorted(set(sum((reg.KANI[n].get('kani_args', []) for n in names), [])))
        cmd += extra
        t0 = time.time()
        try:
            p = subprocess.run(cmd, cwd=cwd, env=_env(), capture_output=True, text=True, timeout=timeout)
            out = p.stdout + '\n' + p.stderr
        except subprocess.TimeoutExpired as e:
            out = (e.stdout or b'').decode('utf-8', 'replace') if isinstance(e.stdout, bytes) else (e.stdout or '')
            out += '\nTIMEOUT'
            subprocess.run(['pkill', '-f', 'cbmc'])
        wall = time.time() - t0
        hs = {n: H(n) for n in names}
        for h in hs.values():
            h.cmd = ' '.join(cmd)
        if 'error: could not compile' in out or 'error[E' in out:
            res.build_error = 'kani build failed: ' + '\n'.join(l for l in out.splitlines() if l.startswith('error'))[:1500]
        _parse(out, hs, reg)
        for h in hs.values():
            if h.status == 'NOT-RUN':
                h.status = 'TIMEOUT' if 'TIMEOUT' in out else 'NO-RESULT'
                h.note = 'no verification result in kani output'
        # counterexamples: one extra run per failing harness (playback is incompatible with -j)
        if want_cex:
            for h in hs.values():
                if h.status == 'FAILED' and reg.KANI[h.name].get('vars') is not None:
                    _playback(h, reg, cwd)
        res.harnesses = list(hs.values())
        res.assumptions = ['CBMC bit-precise semantics of the compiled MIR (Kani 0.68, default features incl. protobuf)',
                           'harnesses avoid CelValue PartialEq/Drop (they reach HashMap code CBMC cannot digest): results are inspected by match and forgotten']
    finally:
        shutil.rmtree(d, ignore_errors=True)
    return res


def _parse(out, hs, reg):
    by_fq = {reg.KANI[n]['fq']: n for n in hs}
    # terse output: "Thread k: Checking harness X..." then later "Thread k: \nVERIFICATION RESULT: ... VERIFICATION:- STATUS\nVerification Time: Ns"
    thread_h = {}
    cur_thread = None
    lines = out.splitlines()
    i = 0
    single = None
    while i < len(lines):
        l = lines[i]
        m = re.match(r'(?:Thread (\d+): )?Checking harness (\S+?)\.\.\.', l)
        if m:
            t = m.group(1)
            if t is None:
                single = m.group(2)
            else:
                thread_h[t] = m.group(2)
            i += 1
            continue
        m = re.match(r'Thread (\d+):\s*$', l)
        if m:
            cur_thread = m.group(1)
        m = re.match(r'\s*\*\* (\d+) of (\d+) failed', l)
        if m:
            fq = thread_h.get(cur_thread) if cur_thread is not None else single
            n = by_fq.get(fq)
            if n:
                hs[n].failed, hs[n].checks = int(m.group(1)), int(m.group(2))
                # collect failed check descriptions until VERIFICATION line
                j = i + 1
                tail = []
                while j < len(lines) and not lines[j].startswith('VERIFICATION:-'):
                    tail.append(lines[j])
                    if lines[j].startswith('Failed Checks:'):
                        hs[n].failed_descriptions.append(lines[j][len('Failed Checks:'):].strip())
                    j += 1
                if j < len(lines):
                    st = lines[j].split(':-')[1].strip().split()[0]
                    hs[n].status = st
                    tail.append(lines[j])
                    if j + 1 < len(lines):
                        mt = re.match(r'Verification Time: ([0-9.]+)s', lines[j + 1])
                        if mt:
                            hs[n].seconds = float(mt.group(1))
                hs[n].output_tail = '\n'.join([l] + tail)[:3000]
        i += 1


def _playback(h, reg, cwd):
    cmd = ['cargo', 'kani', '--harness', _fq(reg, h.name), '--exact', '-Z', 'concrete-playback', '--concrete-playback=print', '--output-format=terse']
    cmd += reg.KANI[h.name].get('kani_args', [])
    try:
        p = subprocess.run(cmd, cwd=cwd, env=_env(), capture_output=True, text=True, timeout=900)
    except subprocess.TimeoutExpired:
        return
    out = p.stdout
    m = re.search(r'let concrete_vals: Vec<Vec<u8>> = vec!\[(.*?)\];', out, re.S)
    if not m:
        return
    vecs = []
    for vm in re.finditer(r'vec!\[([0-9, ]*)\]', m.group(1)):
        vecs.append([int(x) for x in vm.group(1).split(',') if x.strip()])
    vars_ = reg.KANI[h.name]['vars']
    vals = {}
    for (name, ty), raw in zip(vars_, vecs):
        vals[name] = decode(ty, raw)
    h.cex = dict(harness=h.name, raw=vecs, vars={k: str(v) for k, v in vals.items()}, types={n: t for n, t in vars_})
    h.output_tail += '\n' + out[out.find('Concrete playback'):][:2000]


def decode(ty, raw):
    b = bytes(raw)
    if ty in ('i64', 'i32', 'i16', 'i8', 'isize'):
        return int.from_bytes(b, 'little', signed=True)
    if ty in ('u64', 'u32', 'u16', 'u8', 'usize'):
        return int.from_bytes(b, 'little', signed=False)
    if ty == 'bool':
        return bool(b[0])
    if ty == 'f64':
        return int.from_bytes(b, 'little', signed=False)   # bit pattern
    return list(raw)
