"""Replay a Kani counterexample on the real code through /verif/replay (path-depends on /repo/rscel)."""
import json
import os
import subprocess
import sys

BIN = '/verif/.cache/replay-target/debug/verif-replay'


def build():
    env = dict(os.environ)
    env['CARGO_NET_OFFLINE'] = 'true'
    env['CARGO_TARGET_DIR'] = '/verif/.cache/replay-target'
    if not os.path.exists('/verif/replay/Cargo.lock'):
        subprocess.run(['cp', '/repo/Cargo.lock', '/verif/replay/Cargo.lock'])
    p = subprocess.run(['cargo', 'build', '--offline'], cwd='/verif/replay', env=env, capture_output=True, text=True)
    if p.returncode != 0:
        raise RuntimeError('replay build failed: ' + p.stderr[-1500:])


def evaluate(expr, bindings):
    build()
    p = subprocess.run([BIN], input=json.dumps(dict(expr=expr, bindings=bindings)), capture_output=True, text=True, timeout=120)
    if p.returncode != 0:
        return dict(outcome='process-died', detail=f'exit {p.returncode}: {p.stderr[-400:]}')
    return json.loads(p.stdout.strip().splitlines()[-1])


def run(cex):
    """cex: dict(harness, vars, types).  Uses registry replay recipe: expr, bind, oracle."""
    from contracts import registry as reg
    meta = reg.KANI[cex['harness']]
    rec = meta.get('replay')
    if not rec:
        return dict(reproduced=False, note='no CEL-level replay recipe for this harness')
    vals = {}
    for k, v in cex['vars'].items():
        t = cex['types'][k]
        vals[k] = (v == 'True') if t == 'bool' else int(v)
    bindings = rec['bind'](vals)
    obs = evaluate(rec['expr'], bindings)
    want = rec['oracle'](vals)
    ok = reg.matches(obs, want)
    return dict(expr=rec['expr'], bindings=bindings, observed=obs, demanded=want, reproduced=(not ok))


def main(path):
    doc = json.load(open(path))
    print(f"replaying {doc['property']} {doc['obligation']}")
    if doc.get('counterexample'):
        r = run(doc['counterexample'])
        print(json.dumps(r, indent=1))
        if r.get('reproduced'):
            print(f"VIOLATION property={doc['property']} replay={path}")
            return 1
        print('counterexample does NOT reproduce on the current tree')
        return 0
    # no failing input: re-run the property's check and report whether the obligation still fails
    from . import driver
    print('no failing input was found by the verifier; re-running the check that produced this obligation')
    print((doc.get('verifier_output') or '')[:3000])
    return driver.decide(doc['property'], 'quick', 0)


if __name__ == '__main__':
    sys.exit(main(sys.argv[1]))
