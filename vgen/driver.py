"""./check driver: decide one property with the contract machinery.  See DESIGN.md sections 3-4."""
import argparse
import concurrent.futures as cf
import importlib
import json
import os
import re
import sys
import time
import traceback

from . import gen, verus, verbatim

ROOT = '/verif'
OUT = os.path.join(ROOT, 'out')
EVID = os.path.join(ROOT, 'evidence')
REPLAYS = os.path.join(OUT, 'replays')
KNOWN = os.path.join(ROOT, 'known_findings.json')

DROPPED_DOC = [
    'D1 attributes for other tools dropped: derive, serde, serde_as, inline, macro_export, allow, doc, test_case',
    'D2 enum variants / struct fields under #[cfg(feature = "protobuf")] or "debug_output" removed; fn bodies keep the gated arms as text, compiled out (verified configuration: type_prop + neg_index; protobuf paths UNVERIFIED)',
    'D3 use lines (the prelude supplies imports)',
    'S1 opaque stand-ins: chrono DateTime<Utc>/Duration, chrono_tz::Tz, Arc<dyn CelValueDyn> (DynArc), serde_json::Value, regex, SyntaxError where not extracted',
    'R2 std/chrono functions without a vstd spec: assume_specification or external trampolines (listed under trusted_base)',
    'stub: a callee shown as "stub" keeps its verbatim signature but its body is replaced by unimplemented!() in that unit (it is known there by contract only)',
]


def load_registry():
    m = importlib.import_module('contracts.registry')
    return m


def load_known():
    if not os.path.exists(KNOWN):
        return []
    with open(KNOWN) as f:
        return json.load(f)


class Undecided(Exception):
    pass


def clause_props(c, fn_props):
    p = getattr(c, 'props', None)
    return tuple(p) if p else tuple(fn_props)


def effective_props(ef):
    """the properties a function is checked for: its own list and the tag of every clause in it (an unnamed obligation of the function
    -- a proof-hint assertion, overflow, a callee's precondition -- belongs to all of them)"""
    out = list(ef.props)
    for c in ef.clauses:
        for q in (getattr(c, 'props', None) or ()):
            if q not in out:
                out.append(q)
    return tuple(out)


def run_units(unit_names, seed=None, canaries=True):
    """run every unit (+ canary variants) in parallel -> dict name -> (UnitResult main, [canary results])"""
    jobs = {}
    with cf.ThreadPoolExecutor(max_workers=8) as ex:
        for n in unit_names:
            mod = importlib.import_module(f'contracts.{n}')
            jobs[(n, None)] = ex.submit(_run_one, mod, None, seed)
            if canaries:
                jobs[(n, 'entry')] = ex.submit(_run_one, mod, 'entry', None)
                if getattr(mod, 'HAS_LOOP_CONTRACTS', False):
                    jobs[(n, 'loops')] = ex.submit(_run_one, mod, 'loops', None)
        out = {}
        for (n, c), fut in jobs.items():
            out.setdefault(n, {})[c] = fut.result()
    return out


def _run_one(mod, canary, seed):
    try:
        u = mod.build()
        r = verus.run_unit(u, canary=canary, seed=seed)
        r.unit_obj = u
        return r
    except gen.LostAnchor as e:
        return ('lost-anchor', str(e))
    except verbatim.VerbatimError as e:
        return ('verbatim', str(e))
    except Exception as e:  # scanner errors etc.
        return ('error', ''.join(traceback.format_exception_only(type(e), e)).strip())


def scan_assumptions(text):
    """mechanical scan of the generated file for every unchecked assumption"""
    found = []
    for m in re.finditer(r'assume_specification\s*(?:<[^\[]*>)?\s*\[\s*(.+?)\s*\]\s*\(', text):
        found.append('assume_specification ' + re.sub(r'\s+', ' ', m.group(1).strip()))
    for m in re.finditer(r'#\[verifier::external_body\]\s*(?:/\*@-\*/)?\s*(?:pub(?:\([a-z]+\))?\s+)?((?:proof\s+|exec\s+)?(?:fn|struct)\s+[A-Za-z_0-9]+)', text):
        found.append('external_body ' + m.group(1))
    for m in re.finditer(r'\b(broadcast\s+)?axiom\s+fn\s+([A-Za-z_0-9]+)', text):
        found.append('axiom ' + m.group(2))
    for m in re.finditer(r'\badmit\(\)|\bassume\(', text):
        found.append('assume/admit at byte %d' % m.start())
    for m in re.finditer(r'exec_allows_no_decreases_clause', text):
        found.append('exec_allows_no_decreases_clause (termination not proved)')
    for m in re.finditer(r'uninterp\s+spec\s+fn\s+([A-Za-z_0-9]+)', text):
        found.append('uninterpreted ' + m.group(1))
    # de-duplicate keeping order, with counts
    out, cnt = [], {}
    for f in found:
        cnt[f] = cnt.get(f, 0) + 1
        if cnt[f] == 1:
            out.append(f)
    return [o + (f' (x{cnt[o]})' if cnt[o] > 1 else '') for o in out]


def decide(prop, tier, seed):
    t0 = time.time()
    reg = load_registry()
    if prop not in reg.PROPS:
        print(f'UNDECIDED property={prop} reason=not-claimed (see MANIFEST not_applicable)')
        return 2
    spec = reg.PROPS[prop]
    known = [k for k in load_known() if k['property'] == prop]
    os.makedirs(OUT, exist_ok=True)
    os.makedirs(EVID, exist_ok=True)
    os.makedirs(REPLAYS, exist_ok=True)

    units = spec['units']
    results = run_units(units, seed=(seed if tier == 'thorough' else None))

    undecided = []
    obligations = discharged = 0
    fns_report = []
    failures = []        # (unit, Failure)
    samples = []
    trusted = []
    rewrites = []
    checker_cmds = []
    canary_total = canary_ok = 0
    smt_ms = 0
    verified_fns = 0
    dropped_attrs = set()

    for un in units:
        rs = results[un]
        main = rs[None]
        if isinstance(main, tuple):
            undecided.append(f'{un}: {main[0]}: {main[1]}')
            continue
        if main.front_end_error and getattr(main.unit_obj, 'sig_mismatch', None):
            # the contract of a function no longer type-checks because its return type was changed: the postcondition cannot be
            # stated against the new type, i.e. it cannot hold as written
            hit = False
            for (fq, want, got) in main.unit_obj.sig_mismatch:
                ef = next((f for f in main.g.fns if f.qual == fq), None)
                if ef is not None and (prop in ef.props):
                    failures.append((un, verus.Failure(fq, 'signature', 'return_type_changed',
                                                       f'contract written for return type `{want}`, the function now returns `{got}` and the contract no longer type-checks: ' + main.front_end_error[:300].replace('\n', ' | '),
                                                       ef.src_lines, f'-> {got}', [])))
                    obligations += 1
                    hit = True
            if hit:
                checker_cmds.append(main.cmd)
                continue
        if main.front_end_error:
            undecided.append(f'{un}: verus front end rejected the generated file (unsupported construct / type error): ' + main.front_end_error[:600].replace('\n', ' | '))
            continue
        if main.giveups:
            undecided.append(f'{un}: solver gave up on ' + ', '.join(f.oid for f in main.giveups[:5]))
        g = main.g
        checker_cmds.append(main.cmd)
        smt_ms += main.smt_ms
        dropped_attrs |= set(g.dropped_attrs)
        for a in scan_assumptions(g.text):
            trusted.append(f'{un}: {a}')
        for r in g.rewrites:
            rewrites.append(f"{un}: {r['item']}: `{r['old'] if r['old'] is not None else '<whole arm body>'}` -> `{' '.join(str(r['new']).split())[:200]}` x{r['count']} ({r['reason']})")
        # failures by function
        fail_by_fn = {}
        for f in main.failures:
            fail_by_fn.setdefault(f.fn, []).append(f)
        crate = os.path.basename(main.path)[:-3]
        for ef in g.fns:
            if ef.external_body:
                if prop in ef.props or not ef.props:
                    pass
                continue
            eprops = effective_props(ef)
            if prop not in eprops:
                continue
            # explicit clauses relevant to this property + one implicit safety obligation
            cls = [c for c in ef.clauses if c.kind != 'canary' and prop in clause_props(c, ef.props)]
            fl = [f for f in fail_by_fn.get(ef.qual, [])
                  if (f.clause is None) or (prop in clause_props(f.clause, ef.props))]
            if spec.get('safety_only'):
                # totality: only the implicit safety obligations of the function (overflow, division, bounds, unwrap, unreachable,
                # callee preconditions at its call sites) belong to this property, not its functional clauses
                # ... plus the few named clauses that ARE the totality mechanisms (the call-depth guard and its inheritance): they are
                # listed by name in the registry, so that a functional clause of the same function never alarms under this property
                mech = set(spec.get('mechanism_clauses', ()))
                cls = [c for c in ef.clauses if c.kind != 'canary' and c.name in mech]
                fl = [f for f in fail_by_fn.get(ef.qual, []) if f.clause is None or f.kind.startswith('requires@') or f.clause.name in mech]
            n = len(cls) + 1
            # also failures reported in this fn but attributed to a callee's requires clause
            failed_ids = sorted(set(f.oid for f in fl))
            obligations += n
            discharged += max(0, n - len(failed_ids))
            st = _fn_status(main, crate, ef.qual)
            fns_report.append(dict(function=ef.qual, file=ef.file, line=ef.src_lines, sha256_16=ef.sha, unit=un, backend='verus',
                                   clauses=len(cls), smt_us=st.get('time_us'), rlimit=st.get('rlimit'), verified=(not fl and st.get('success', True))))
            if not fl:
                verified_fns += 1
            for f in fl:
                failures.append((un, f))
            for c in cls[:2]:
                if len(samples) < 14:
                    samples.append(dict(obligation=f'{un}::{c.oid}', clause=c.text[:220]))
        # lemmas (proof fns of the hand-written spec text that state a law of the property)
        for (lname, lprops) in getattr(main.unit_obj, 'lemmas', []):
            if prop not in lprops:
                continue
            st = main.fn_status.get(f'{crate}::{lname}')
            obligations += 1
            ok = bool(st and st.get('success'))
            if ok:
                discharged += 1
                verified_fns += 1
            else:
                failures.append((un, verus.Failure(f'lemma {lname}', 'lemma', None, 'lemma not proved' if st else 'lemma missing from the verus run', 0, lname, [])))
            fns_report.append(dict(function=f'lemma {lname}', file='(spec text)', unit=un, backend='verus', clauses=1, verified=ok,
                                   smt_us=(st or {}).get('time_us'), rlimit=(st or {}).get('rlimit')))
        # failures that belong to no extracted fn (prelude lemmas): they break everything that uses the prelude
        for f in main.failures:
            if f.fn == '<prelude>':
                failures.append((un, f))
        # canaries
        for cmode in ('entry', 'loops'):
            if cmode not in rs:
                continue
            cr = rs[cmode]
            if isinstance(cr, tuple) or cr.front_end_error:
                undecided.append(f'{un}: canary run ({cmode}) failed: {cr[1] if isinstance(cr, tuple) else cr.front_end_error[:300]}')
                continue
            failed_canaries = set(f.oid for f in cr.failures if f.kind == 'canary')
            for c in cr.g.clauses:
                if c.kind != 'canary':
                    continue
                canary_total += 1
                if c.oid in failed_canaries:
                    canary_ok += 1
                else:
                    undecided.append(f'{un}: vacuity canary {c.oid} VERIFIED (contradictory precondition / invariant?)')

    # ---- Kani harnesses -------------------------------------------------------------------------
    kani_report = []
    bounded_checks = []
    kani_failures = []
    want_kani = list(spec.get('kani_quick', [])) + (list(spec.get('kani_thorough', [])) if tier == 'thorough' else [])
    cex_harness = {}
    if failures:
        # try to obtain counterexamples from the twins of failing obligations
        for un, f in failures:
            for pat, h in spec.get('twins', {}).items():
                if re.search(pat, f.oid):
                    cex_harness.setdefault(h, []).append(f'{un}::{f.oid}')
        want_kani += [h for h in cex_harness if h not in want_kani]
    if want_kani:
        from . import kani
        kr = kani.run_harnesses(want_kani, reg, timeout=(5400 if tier == 'thorough' else 1500))
        if kr.build_error:
            undecided.append('kani: ' + kr.build_error[:800].replace('\n', ' | '))
        for h in kr.harnesses:
            meta = reg.KANI[h.name]
            entry = dict(harness=h.name, status=h.status, checks=h.checks, failed_checks=h.failed, seconds=round(h.seconds, 1),
                         exhaustive=meta.get('exhaustive', False), bound=meta.get('bound'), functions=meta.get('functions', []))
            kani_report.append(entry)
            if meta.get('bound'):
                bounded_checks.append(dict(harness=h.name, bound=meta['bound'], status=h.status))
            if h.status == 'SUCCESSFUL':
                if not meta.get('bound'):
                    obligations += 1
                    discharged += 1
                checker_cmds.append(h.cmd)
            elif h.status == 'FAILED':
                if not meta.get('bound'):
                    obligations += 1
                kani_failures.append(h)
            elif h.status == 'TIMEOUT':
                # CBMC did not finish within the time budget: the harness decides nothing in this run (neither counted nor an alarm)
                print(f'NOTE: property={prop} kani harness {h.name} did not finish within the time budget: not counted', flush=True)
                trusted.append(f'kani: harness {h.name} NOT COMPLETED in this run (time budget): its claim is undecided here')
            else:
                undecided.append(f'kani harness {h.name}: {h.status} {h.note}')
        for a in kr.assumptions:
            trusted.append('kani: ' + a)

    # ---- classify failures ------------------------------------------------------------------------
    violations = []
    known_hits = []
    seen = set()
    for un, f in failures:
        oid = f'{un}::{f.oid}'
        if oid in seen:
            continue
        seen.add(oid)
        k = next((k for k in known if k.get('status') == 'open' and k['obligation'] == oid), None)
        if k:
            known_hits.append((k, oid))
            continue
        violations.append(dict(obligation=oid, verifier='verus', message=f.message, line=f.line, text=f.text,
                               clause=(f.clause.text if f.clause else None), file=results[un][None].path, cex=None))
    for h in kani_failures:
        oid = f'kani::{h.name}'
        k = next((k for k in known if k.get('status') == 'open' and k['obligation'] == oid), None)
        if k:
            known_hits.append((k, oid))
            continue
        v = next((v for v in violations if v['obligation'] in cex_harness.get(h.name, [])), None)
        if v is not None and h.cex:
            v['cex'] = h.cex
            v['kani_harness'] = h.name
            v['kani_output'] = h.output_tail
        else:
            violations.append(dict(obligation=oid, verifier='kani', message='; '.join(h.failed_descriptions[:4]), line=0, text='',
                                   clause=reg.KANI[h.name].get('claim'), file=None, cex=h.cex, kani_harness=h.name, kani_output=h.output_tail))

    # ---- replay counterexamples on the real code --------------------------------------------------------
    vio_lines = []
    for v in violations:
        rp = os.path.join(REPLAYS, f"{prop}-{re.sub(r'[^A-Za-z0-9_.-]+', '_', v['obligation'])[:120]}.json")
        doc = dict(property=prop, obligation=v['obligation'], verifier=v['verifier'], message=v['message'], clause=v.get('clause'),
                   generated_file=v.get('file'), line=v.get('line'), source_text=v.get('text'), counterexample=v.get('cex'),
                   kani_harness=v.get('kani_harness'), verifier_output=(v.get('kani_output') or _verus_excerpt(results, v)))
        suffix = ' no-failing-input-found'
        if v.get('cex'):
            try:
                from . import replay
                obs = replay.run(v['cex'])
                doc['replay_on_real_code'] = obs
                if obs.get('reproduced'):
                    suffix = ''
            except Exception as e:
                doc['replay_on_real_code'] = dict(error=str(e))
        with open(rp, 'w') as fh:
            json.dump(doc, fh, indent=1)
        vio_lines.append(f'VIOLATION property={prop} replay={rp}{suffix}')

    # obligations listed as open known findings are reported separately: they are neither counted as discharged nor as part of the claim
    obligations -= len(known_hits)
    wall = time.time() - t0
    if not obligations and not undecided:
        undecided.append('no obligations were generated for this property (vacuous check)')
    ev = dict(
        property_id=prop, tier=tier, seed=int(seed or 0), level='proof',
        coverage=dict(
            obligations=obligations, discharged=discharged,
            checker_cmd=' ; '.join(checker_cmds) if checker_cmds else 'verus (not run)',
            trusted_base=sorted(set(trusted)) + ['Verus 0.2026.09.13 + Z3; Kani 0.68 + CBMC 6.11; rustc front ends; vstd specifications of std',
                                                 'generator locate step (copy step is re-checked token by token against /repo)'],
            functions_under_contract=fns_report,
            backends=dict(verus=dict(units=units, functions_verified=verified_fns, smt_ms=smt_ms), kani=kani_report),
            bounded_checks=bounded_checks,
            dropped=DROPPED_DOC + ['attributes dropped in this run: ' + ', '.join(sorted(dropped_attrs))],
            rewrites=rewrites,
            canaries=dict(total=canary_total, failed_as_required=canary_ok),
            samples=samples,
            undecided=undecided,
            known_findings=[dict(obligation=k['obligation'], input=k.get('input'), note=k.get('note')) for k, _ in known_hits],
            known_findings_excluded_from_obligations=len(known_hits),
            not_covered=spec.get('not_covered', []),
        ),
        assumptions=spec.get('assumptions', []) + ['machine integers are modelled as bounded mathematical integers with overflow obligations; usize is 64 bit',
                                                 'termination is not proved', 'floats are not reasoned about in Verus (Kani twins decide them)'],
        wall_s=round(wall, 2), violations=len(violations),
    )
    with open(os.path.join(EVID, f'{prop}.json'), 'w') as fh:
        json.dump(ev, fh, indent=1)

    for k, oid in known_hits:
        print(f"KNOWN-FINDING: property={prop} {oid} {k.get('input', '')}")
    if violations:
        for l in vio_lines:
            print(l)
        for v in violations:
            print(f"  failed obligation {v['obligation']}: {v['message']} @ {v.get('file')}:{v.get('line')}  {str(v.get('text'))[:100]}")
        return 1
    if undecided:
        for u in undecided:
            print(f'UNDECIDED property={prop} reason={u[:700]}')
        return 2
    print(f'OK property={prop} obligations={obligations} discharged={discharged} functions={len(fns_report)} canaries={canary_ok}/{canary_total} wall={wall:.1f}s')
    return 0


def _fn_status(res, crate, qual):
    # Verus names: crate::Type::fn ; for trait impls crate::Type::fn as well
    q = qual
    m = re.match(r'(.+) as (.+)::(\w+)$', qual)
    if m:
        q = f'{m.group(1)}::{m.group(3)}'
    key = f'{crate}::{q}'
    return res.fn_status.get(key, {})


def _verus_excerpt(results, v):
    for un, rs in results.items():
        r = rs.get(None)
        if isinstance(r, tuple) or r is None:
            continue
        if v.get('file') == r.path:
            out = []
            for line in r.raw_err.splitlines():
                if line.startswith('{'):
                    try:
                        d = json.loads(line)
                    except Exception:
                        continue
                    if d.get('level') == 'error' and any(s.get('line_start') == v.get('line') for s in d.get('spans', [])):
                        out.append(d.get('rendered', ''))
            return '\n'.join(out)[:6000]
    return ''


def main(argv=None):
    ap = argparse.ArgumentParser()
    ap.add_argument('prop', nargs='?')
    ap.add_argument('--tier', default=os.environ.get('VERIF_TIER', 'quick'))
    ap.add_argument('--replay')
    a = ap.parse_args(argv)
    seed = int(os.environ.get('VERIF_SEED', '0') or 0)
    if a.replay:
        from . import replay
        return replay.main(a.replay)
    if not a.prop:
        ap.error('property id required')
    tier = a.tier if a.tier in ('quick', 'thorough') else 'quick'
    try:
        return decide(a.prop, tier, seed)
    except Exception:
        traceback.print_exc()
        print(f'UNDECIDED property={a.prop} reason=driver-exception')
        return 2


if __name__ == '__main__':
    sys.exit(main())
